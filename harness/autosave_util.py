"""Helpers shared by harness/props/c26.py and c27.py (autosave / resume of emu-mps).

Everything here is harness-side interposition on the *real* code: a fake clock assigned to
`emu_mps.mps_backend_impl.time`, proxies for `os` / `pickle` / `open` / `random` in the
`emu_mps.mps_backend_impl` (and `emu_mps.mps_backend`) namespaces, small hand-built systems.
Nothing in /repo is modified.
"""
from __future__ import annotations

import contextlib
import os
import pickle
import random
import shutil
import tempfile
import types
from collections import Counter
from pathlib import Path
from unittest import mock

import numpy as np
import torch

from harness import compat


class Crash(BaseException):
    """Injected crash (BaseException so that no `except Exception` in the code under test eats it)."""


# --------------------------------------------------------------------------- clock
class FakeClock:
    """Stands in for the `time` module inside emu_mps.mps_backend_impl: `time()` returns `now`
    (set by the harness before every `save_simulation`)."""

    def __init__(self, now: float = 0.0):
        self.now = float(now)
        self.reads = 0

    def time(self) -> float:
        self.reads += 1
        return self.now

    def __getattr__(self, k):  # anything else (sleep, …) from the real module
        import time as _t
        return getattr(_t, k)


# --------------------------------------------------------------------------- systems
C6 = 5420158.53


def chain_U(pos):
    n = len(pos)
    U = np.zeros((n, n))
    for i in range(n):
        for j in range(n):
            if i != j:
                U[i, j] = C6 / abs(pos[i] - pos[j]) ** 6
    return U


def gen_system(rng: random.Random, kind: str, n: int | None = None, steps: int | None = None,
               need_nontrivial_perm: bool = True) -> dict:
    """A tiny system description (picklable, JSON-able): shuffled 1-D chain (so that the bandwidth
    minimising order is not the identity), local drives differing per atom and per step."""
    n = n or rng.choice([3, 3, 4] if kind != "noisy" else [3, 3, 2])
    steps = steps or rng.choice([2, 3])
    while True:
        order = list(range(n))
        rng.shuffle(order)
        if not need_nontrivial_perm or n < 3 or (order != sorted(order) and order != sorted(order, reverse=True)):
            break
    spacing = rng.choice([6.5, 7.0, 8.0])
    pos = [spacing * o for o in order]
    dt = rng.choice([40.0, 50.0, 80.0])
    om = [[float(rng.choice([4.0, 6.0, 9.0]) + a) for a in range(n)] for _ in range(steps)]
    de = [[float(rng.choice([-6.0, 0.0, 5.0, 12.0]) * ((a + s) % 2)) for a in range(n)] for s in range(steps)]
    ph = [[float(rng.choice([0.0, 0.0, 0.5])) for _ in range(n)] for _ in range(steps)]
    sysd = dict(kind=kind, n=n, steps=steps, pos=pos, dt=dt, omega=om, delta=de, phi=ph,
                gamma=rng.choice([3.0, 6.0, 10.0]) if kind == "noisy" else 0.0,
                noise_op=rng.choice(["relax", "dephase"]) if kind == "noisy" else None)
    return sysd


def make_data(sysd: dict):
    n, steps = sysd["n"], sysd["steps"]
    T = [sysd["dt"] * k for k in range(steps + 1)]
    lind = None
    if sysd["kind"] == "noisy":
        g = sysd["gamma"] ** 0.5
        if sysd["noise_op"] == "relax":
            L = torch.tensor([[0.0, 0.0], [1.0, 0.0]], dtype=torch.complex128)   # |g><r| in (r,g) order
            L2 = torch.tensor([[1.0, 0.0], [0.0, -1.0]], dtype=torch.complex128)
            lind = [g * L, 0.5 * g * L2]
        else:
            lind = [g * torch.tensor([[1.0, 0.0], [0.0, -1.0]], dtype=torch.complex128)]
    return compat.make_sequence_data(np.array(sysd["omega"]), np.array(sysd["delta"]), np.array(sysd["phi"]),
                                     chain_U(sysd["pos"]), T, lindblad_ops=lind)


def make_config(sysd: dict, reorder: bool, autosave_dt: float = 11.0, bitstrings: bool = True):
    from pulser.backend import BitStrings, CorrelationMatrix, Energy, Occupation
    from emu_mps.solver import Solver
    steps = sysd["steps"]
    ev = [k / steps for k in range(1, steps + 1)]
    obs = [Occupation(evaluation_times=ev), CorrelationMatrix(evaluation_times=[1.0]), Energy(evaluation_times=ev)]
    if bitstrings:
        obs.append(BitStrings(evaluation_times=[1.0], num_shots=40))
    return compat.mps_config(observables=obs, optimize_qubit_ordering=reorder, autosave_dt=autosave_dt,
                             solver=Solver.DMRG if sysd["kind"] == "dmrg" else Solver.TDVP)


# --------------------------------------------------------------------------- results
def _val(v):
    if isinstance(v, torch.Tensor):
        v = v.detach().cpu()
        if v.is_complex():
            return [[float(x.real), float(x.imag)] for x in v.reshape(-1)], list(v.shape)
        return [float(x) for x in v.reshape(-1).to(torch.float64)], list(v.shape)
    if isinstance(v, Counter) or isinstance(v, dict):
        return sorted((str(k), int(c)) for k, c in v.items())
    if isinstance(v, (list, tuple)):
        return [_val(x) for x in v]
    if isinstance(v, complex):
        return [v.real, v.imag]
    if isinstance(v, (int, float)):
        return float(v)
    return repr(v)


def canon_results(res) -> dict:
    """Everything of a `Results` except the wall-clock `statistics` observable."""
    out = {"atom_order": list(res.atom_order), "total_duration": res.total_duration, "tags": {}}
    for tag in sorted(res.get_result_tags()):
        if tag == "statistics":
            continue
        times = [float(t) for t in res.get_result_times(tag)]
        out["tags"][tag] = {"times": times, "values": [_val(res.get_result(tag, t)) for t in times]}
    return out


def _maxdiff(a, b):
    """max abs difference of two canonical values, or a string when the structure differs."""
    if isinstance(a, float) and isinstance(b, float):
        return abs(a - b)
    if isinstance(a, (list, tuple)) and isinstance(b, (list, tuple)):
        if len(a) != len(b):
            return "length"
        m = 0.0
        for x, y in zip(a, b):
            d = _maxdiff(x, y)
            if isinstance(d, str):
                return d
            m = max(m, d)
        return m
    return 0.0 if a == b else f"{a!r} != {b!r}"


def diff_results(ref: dict, got: dict, tol: float = 1e-12) -> str | None:
    if ref["atom_order"] != got["atom_order"]:
        return f"atom_order {got['atom_order']} != {ref['atom_order']}"
    if ref["total_duration"] != got["total_duration"]:
        return "total_duration differs"
    if sorted(ref["tags"]) != sorted(got["tags"]):
        return f"result tags {sorted(got['tags'])} != {sorted(ref['tags'])}"
    for tag, r in ref["tags"].items():
        g = got["tags"][tag]
        if r["times"] != g["times"]:
            return f"{tag}: times {g['times']} != {r['times']}"
        d = _maxdiff(r["values"], g["values"])
        if isinstance(d, str):
            return f"{tag}: {d}"[:300]
        if d > tol:
            return f"{tag}: values differ by {d:.3e} > {tol:g}"
    return None


def is_permuted_version(ref: dict, got: dict) -> bool:
    """Does `got` look like `ref` in MPS site order (the pre-ae5e263 `resume`)?"""
    return sorted(ref["atom_order"]) == sorted(got["atom_order"]) and ref["atom_order"] != got["atom_order"]


# --------------------------------------------------------------------------- machine state digest
def _t(x):
    return x.detach().cpu().clone() if isinstance(x, torch.Tensor) else x


def digest(impl) -> dict:
    """The machine state that a resumed run depends on (exact copies of the tensors)."""
    d = {
        "type": type(impl).__name__,
        "timestep_index": impl._timestep_index,
        "sweep_index": impl._sweep_index,
        "direction": impl._swipe_direction.name,
        "n_left_baths": len(impl.left_baths),
        "n_right_baths": len(impl.right_baths),
        "current_time": impl.current_time,
        "target_time": impl.target_time,
        "orth_center": impl.state.orthogonality_center,
        "perm": impl.qubit_permutation.tolist(),
        "factors": [_t(f) for f in impl.state.factors],
        "left_baths": [_t(f) for f in impl.left_baths],
        "right_baths": [_t(f) for f in impl.right_baths],
        "ham": [_t(f) for f in impl.hamiltonian.factors],
        "omega": _t(impl.omega), "delta": _t(impl.delta), "phi": _t(impl.phi),
        "results": canon_results(impl.results),
        "atom_order": list(impl.results.atom_order),
    }
    for k in ("jump_threshold", "norm_gap_before_jump", "sweep_count", "previous_energy", "current_energy",
              "energy_tolerance", "max_sweeps", "has_lindblad_noise"):
        if hasattr(impl, k):
            d[k] = getattr(impl, k)
    if hasattr(impl, "root_finder"):
        rf = impl.root_finder
        d["root_finder"] = None if rf is None else {k: v for k, v in sorted(vars(rf).items())}
    return d


def diff_digest(a: dict, b: dict) -> str | None:
    if sorted(a) != sorted(b):
        return f"fields {sorted(set(a) ^ set(b))}"
    for k in a:
        x, y = a[k], b[k]
        if isinstance(x, list) and x and isinstance(x[0], torch.Tensor):
            if len(x) != len(y) or any(p.shape != q.shape or not torch.equal(p, q) for p, q in zip(x, y)):
                return k
        elif isinstance(x, torch.Tensor):
            if x.shape != y.shape or not torch.equal(x, y):
                return k
        elif x != y:
            return f"{k}: {x!r} != {y!r}"[:200]
    return None


# --------------------------------------------------------------------------- interposition
_TMP_RULE: str | None = None     # "suffix": <uuid>.new (with_suffix)   "append": <uuid>.dat.new (name + ".new")


def tmp_rule() -> str:
    """naming of the temporary autosave file used by the tree under test: observed by the interposer, else read off
    the source of `save_simulation`"""
    if _TMP_RULE is not None:
        return _TMP_RULE
    import inspect
    import emu_mps.mps_backend_impl as impl_mod
    try:
        src = inspect.getsource(impl_mod.MPSBackendImpl.save_simulation)
    except Exception:
        return "append"
    return "append" if "with_name(" in src and 'with_suffix(".new")' not in src else "suffix"


def new_path(base) -> Path:
    base = Path(base)
    return base.with_suffix(".new") if tmp_rule() == "suffix" else base.with_name(base.name + ".new")


def bak_path(base) -> Path:
    return Path(base).with_suffix(".bak")


class _FileProxy:
    def __init__(self, real, ip, name):
        self._real, self._ip, self._name = real, ip, name

    def __enter__(self):
        return self

    def __exit__(self, *exc):
        self.close()
        return False

    def close(self):
        if not self._real.closed:
            # the handle follows the inode: after a rename the file being flushed has another name
            nm = self._ip.renamed.get(self._name, self._name)
            idx = self._ip._pre(f"close:{nm}", can_raise=False)
            self._real.close()
            self._ip._post(idx)

    def write(self, b):
        return self._real.write(b)

    def __getattr__(self, k):
        return getattr(self._real, k)


class Interposer:
    """Records the file operations of `save_simulation` / `_run` issued through the
    `emu_mps.mps_backend_impl` / `emu_mps.mps_backend` namespaces and can inject a crash.

    Real events: open:<n> dump:<n> close:<n> replace:<a>:<b> rename:<a>:<b> remove:<n>, where
    <n> is base/new/bak (by suffix of the advertised autosave path) or other:<file name>.
    `crash = (mode, i)` refers to the i-th event of the `save_simulation` call number `crash_save`
    (1-based; any call when None):
      ("before", i)      raise `Crash` instead of performing the event (exception-style crash: the
                         `with` block unwinds and flushes);
      ("mid", i)         the event must be a dump — write half of the bytes, then raise;
      ("kill_before", i) `os._exit(9)` immediately before the call  } process-kill semantics: nothing
      ("kill_after", i)  `os._exit(9)` immediately after the call   } unwinds, write buffers are lost;
      ("kill_mid", i)    dump: write half of the bytes, `os._exit(9)`} only meaningful in a forked child.
    """

    def __init__(self):
        self.base: Path | None = None
        self.events: list[str] = []          # events of the current save_simulation call
        self.all_events: list[str] = []      # every event since installation
        self.per_save: list[list[str]] = []  # events of each save_simulation call
        self.save_calls = 0
        self.crash = None
        self.crash_save = None
        self.clock: FakeClock | None = None
        self.schedule = None                 # callable k -> clock reading for the k-th save_simulation call
        self.on_dump = None                  # callback(impl, k) at pickle.dump time
        self.on_saved = None                 # callback(impl, k) right after a save_simulation that wrote
        self.in_save = False
        self.fired = False
        self.renamed: dict[str, str] = {}    # open handle name -> current name of its inode
        self.exc = None                      # callable msg -> exception instance for ("before"/"mid") crashes
        self.refuse = None                   # callable msg -> OSError: the next move onto the advertised file is REFUSED
        self.refused = False                 # … (raises without moving anything); afterwards, `kill_on_write_open`:
        self.kill_on_write_open = False      # os._exit(9) right after ANY open-for-writing of the advertised path returns

    # naming
    def name(self, p) -> str:
        global _TMP_RULE
        p = Path(os.path.abspath(os.fspath(p)))      # the code under test may carry a str or a relative path
        if self.base is not None:
            b = Path(os.path.abspath(os.fspath(self.base)))
            if p == b:
                return "base"
            by_suffix, by_append = b.with_suffix(".new"), b.with_name(b.name + ".new")
            if p in (by_suffix, by_append):
                if by_suffix != by_append and by_suffix != b:
                    _TMP_RULE = "suffix" if p == by_suffix else "append"    # how the code under test names its temp file
                return "new"
            if p in (b.with_suffix(".bak"), b.with_name(b.name + ".bak")):
                return "bak"
        return "other:" + p.name

    def make_exc(self, msg: str) -> BaseException:
        """the exception an exception-style crash raises (default: `Crash`)"""
        return self.exc(msg) if self.exc is not None else Crash(msg)

    def note(self, ev: str):
        self.events.append(ev)
        self.all_events.append(ev)

    def _armed(self):
        if self.crash is None or not self.in_save or self.fired:
            return False
        return self.crash_save is None or self.save_calls == self.crash_save

    def _pre(self, ev: str, can_raise: bool = True) -> int:
        """called before performing an event; returns its index; may crash"""
        idx = len(self.events)
        if self._armed() and self.crash[1] == idx:
            mode = self.crash[0]
            if mode == "kill_before":
                os._exit(9)
            if mode == "before" and can_raise:
                self.fired = True
                raise self.make_exc(f"before event {idx} ({ev}) of save {self.save_calls}")
        self.note(ev)
        return idx

    def _post(self, idx: int):
        if self._armed() and self.crash == ("kill_after", idx):
            os._exit(9)

    def _mid(self, idx: int):
        return self._armed() and self.crash[1] == idx and self.crash[0] in ("mid", "kill_mid")

    # wrappers
    def open(self, file, mode="r", *a, **kw):
        if "w" in mode and self.in_save:
            nm = self.name(file)
            idx = self._pre(f"open:{nm}")
            fh = _FileProxy(open(file, mode, *a, **kw), self, nm)
            self.renamed.pop(nm, None)
            self._post(idx)
            return fh
        return open(file, mode, *a, **kw)

    def dump(self, obj, fh, *a, **kw):
        nm = fh._name if isinstance(fh, _FileProxy) else "other:?"
        if self._mid(len(self.events)):
            if self.on_dump is not None:
                self.on_dump(obj, self.save_calls)
            frac = self.crash[2] if len(self.crash) > 2 else 0.5
            total = len(pickle.dumps(obj, *a, **kw))
            limit = min(total - 1, max(0, int(total * frac)))
            if self.crash[0] == "kill_mid":
                fh.write(pickle.dumps(obj, *a, **kw)[:max(1, limit)])
                os._exit(9)
            ip = self

            class _Limited:
                """the file object `pickle.dump` writes to: accepts `limit` bytes, then the write raises"""
                left = limit

                def write(self, b):
                    b = bytes(b)
                    if len(b) > self.left:
                        if self.left:
                            fh.write(b[: self.left])
                        self.left = 0
                        ip.fired = True
                        raise ip.make_exc(f"inside dump of save {ip.save_calls}: {limit} of {total} bytes written")
                    self.left -= len(b)
                    return fh.write(b)
            return pickle.dump(obj, _Limited(), *a, **kw)
        idx = self._pre(f"dump:{nm}")
        if self.on_dump is not None:
            self.on_dump(obj, self.save_calls)
        real = fh._real if isinstance(fh, _FileProxy) else fh
        r = pickle.dump(obj, real, *a, **kw)
        self._post(idx)
        return r

    def _mv(self, kind, fn, a, b):
        na, nb = self.name(a), self.name(b)
        if self.refuse is not None and self.in_save and nb == "base" and not self.refused:
            self.refused = True
            self.note(f"refused:{kind}:{na}:{nb}")
            if self.kill_on_write_open:
                self._watch_advertised(Path(os.path.abspath(os.fspath(b))))
            raise self.refuse(f"{kind} onto the advertised file refused (injected)")
        idx = self._pre(f"{kind}:{na}:{nb}")
        r = fn(a, b)
        self.renamed[na] = nb
        self._post(idx)
        return r

    def _watch_advertised(self, target: Path):
        """ONLY in a forked child: from now on every way of opening `target` for writing (builtins.open / io.open —
        what shutil.copyfile, Path.write_bytes, … end up calling — and os.open) is performed for real and then the
        process dies (os._exit(9)): a kill immediately after the open system call returned."""
        import builtins
        import io
        real_open, real_os_open = builtins.open, os.open

        def is_target(f):
            try:
                return Path(os.path.abspath(os.fspath(f))) == target
            except TypeError:
                return False

        def w_open(file, mode="r", *a, **kw):
            fh = real_open(file, mode, *a, **kw)
            if is_target(file) and any(c in mode for c in "wax+"):
                os._exit(9)
            return fh

        def w_os_open(path, flags, *a, **kw):
            fd = real_os_open(path, flags, *a, **kw)
            if is_target(path) and flags & (os.O_WRONLY | os.O_RDWR):
                os._exit(9)
            return fd
        builtins.open = w_open
        io.open = w_open
        os.open = w_os_open

    def replace(self, a, b):
        return self._mv("replace", os.replace, a, b)

    def rename(self, a, b):
        return self._mv("rename", os.rename, a, b)

    def remove(self, a):
        idx = self._pre(f"remove:{self.name(a)}")
        r = os.remove(a)
        self._post(idx)
        return r

    unlink = remove

    # installation
    @contextlib.contextmanager
    def installed(self):
        import emu_mps.mps_backend as be_mod
        import emu_mps.mps_backend_impl as impl_mod
        ip = self

        class OsProxy(types.SimpleNamespace):
            def __getattr__(self, k):
                return getattr(os, k)
        osp = OsProxy(replace=ip.replace, rename=ip.rename, remove=ip.remove, unlink=ip.remove)

        class PickleProxy(types.SimpleNamespace):
            def __getattr__(self, k):
                return getattr(pickle, k)
        pkp = PickleProxy(dump=ip.dump)

        real_save = impl_mod.MPSBackendImpl.save_simulation

        def save_simulation(impl):
            ip.save_calls += 1
            k = ip.save_calls
            ip.base = Path(impl.autosave_file)
            ip.events = []
            ip.renamed = {}
            ip.refused = False
            if ip.clock is not None and ip.schedule is not None:
                ip.clock.now = float(ip.schedule(k))
            impl._verif_snap = k
            ip.in_save = True
            try:
                real_save(impl)
            finally:
                ip.in_save = False
                ip.per_save.append(list(ip.events))
            if ip.events and ip.on_saved is not None:
                ip.on_saved(impl, k)

        with mock.patch.object(impl_mod, "os", osp), mock.patch.object(impl_mod, "pickle", pkp), \
                mock.patch.object(impl_mod, "open", ip.open, create=True), \
                mock.patch.object(be_mod, "os", osp), \
                mock.patch.object(impl_mod.MPSBackendImpl, "save_simulation", save_simulation):
            yield self


def canon_ops(events: list[str], snap) -> list[str]:
    """real events -> the model's operations: dump = buffered `write`, close = flush (`close`), both tagged
    with the snapshot number."""
    out = []
    for e in events:
        if e.startswith("dump:"):
            out.append(f"write:{e.split(':', 1)[1]}:{snap}")
        elif e.startswith("close:"):
            out.append(f"{e}:{snap}")
        else:
            out.append(e)
    return out


def file_state(p: Path) -> str:
    """a | p | c<snap>: absent / exists but `pickle.load` fails / loadable snapshot number."""
    if not p.is_file():
        return "a"
    try:
        with open(p, "rb") as f:
            impl = pickle.load(f)
        return f"c{getattr(impl, '_verif_snap', '?')}"
    except Exception:
        return "p"


def run_injected(ip: "Interposer", fn):
    """call the real code with a crash armed in `ip`: ("ok", result) | ("crash", exc) | ("raised", exc).
    Whatever escapes after the injection fired is the crash — the code under test may have replaced the injected
    exception by its own (an error raised in a `finally:` clause) or swallowed it; only an `Exception` escaping
    although nothing was injected is the real code raising by itself."""
    try:
        r = fn()
    except BaseException as e:
        if ip.fired:
            return "crash", e
        if isinstance(e, Exception):
            return "raised", e
        raise
    return ("crash", None) if ip.fired else ("ok", r)


def exception_kinds():
    """(name, factory) of the exceptions injected as crashes: two `Exception`s and two bare `BaseException`s"""
    import errno
    return [("Crash(BaseException)", lambda m: Crash(m)),
            ("OSError(ENOSPC)", lambda m: OSError(errno.ENOSPC, "No space left on device (injected: " + m + ")")),
            ("MemoryError", lambda m: MemoryError(m)),
            ("KeyboardInterrupt", lambda m: KeyboardInterrupt(m))]


def dir_state(base: Path) -> str:
    return "/".join(file_state(q) for q in (base, new_path(base), bak_path(base)))


def put_file(p: Path, st: str, blobs: dict):
    """make file `p` be in model state `st` (a / p / c<k> using the recorded bytes of snapshot k)"""
    if p.exists():
        p.unlink()
    if st == "a":
        return
    if st == "p":
        p.write_bytes(b"\x80\x04\x95garbage-not-a-pickle")
        return
    p.write_bytes(blobs[int(st[1:])])


@contextlib.contextmanager
def workdir():
    cwd = os.getcwd()
    tmp = tempfile.mkdtemp(prefix="verif_autosave_")
    os.chdir(tmp)
    try:
        yield Path(tmp)
    finally:
        os.chdir(cwd)
        shutil.rmtree(tmp, ignore_errors=True)


@contextlib.contextmanager
def fake_time(clock: FakeClock, also_backend: bool = False):
    import emu_mps.mps_backend as be_mod
    import emu_mps.mps_backend_impl as impl_mod
    with contextlib.ExitStack() as st:
        st.enter_context(mock.patch.object(impl_mod, "time", clock))
        if also_backend:
            st.enter_context(mock.patch.object(be_mod, "time", clock))
        yield clock


def seed_all(s: int):
    random.seed(s)
    torch.manual_seed(s)
    np.random.seed(s % (2 ** 32))


def rng_state():
    return random.getstate(), torch.get_rng_state().clone()


def set_rng_state(st):
    random.setstate(st[0])
    torch.set_rng_state(st[1])
