"""Shared machinery of the /verif checks (see DESIGN.md §2.3-§2.5).

Everything here runs in the harness process (`/venv/bin/python`) and imports the live
`/repo` tree; the Lean side is reached through `lake build`, `lake env lean` (audit) and
the line-protocol driver (`lake env lean --run Driver.lean`).
"""
from __future__ import annotations

import json
import os
import random
import re
import struct
import subprocess
import sys
import time
from fractions import Fraction
from pathlib import Path
from typing import Any, Callable, Iterable, Optional

VERIF = Path(__file__).resolve().parent.parent
LEAN = VERIF / "lean"
REPO = Path(os.environ.get("VERIF_REPO", "/repo"))
# evidence/ is only ever written by runs against /repo itself: runs against a scratch checkout (VERIF_REPO) write elsewhere
EVIDENCE = Path(os.environ["VERIF_EVIDENCE_DIR"]) if os.environ.get("VERIF_EVIDENCE_DIR") else (
    VERIF / "evidence" if not os.environ.get("VERIF_REPO") else VERIF / "replays" / "evidence_scratch")
REPLAYS = VERIF / "replays"
CORPUS = VERIF / "corpus"
GUARD = "PASQAL_IO_EMULATORS_VERIF"

ALLOWED_AXIOMS = {"propext", "Classical.choice", "Quot.sound"}
RESERVED_COVERAGE_KEYS = {"obligations", "discharged", "checker_cmd", "trusted_base", "theorems", "undischarged", "evaluations",
                          "distinct_nontrivial", "rule", "samples", "traces_validated_against_impl", "broken",
                          "known_findings_reproduced"}

FORBIDDEN = re.compile(
    r"\bsorry\b|\badmit\b|^\s*axiom\s|native_decide|bv_decide|implemented_by|\bunsafe\s|maxHeartbeats\s+0\b"
)

TRUSTED_BASE = [
    "Lean 4.33 kernel; axioms allowed: propext, Classical.choice, Quot.sound (audited by #print axioms on every run)",
    "Mathlib v4.33 lemmas imported by Proofs/ and Props/",
    "hand-written Lean models tied to /repo by the correspondence check of this run (generator-bounded)",
    "floating-point rounding, PyTorch/LAPACK/SciPy/libm kernels, CPython, OS: outside the model (contracts validated numerically, not proved)",
    "the Python harness, the line protocol and its canonicalisation; harness/compat.py shim for pulser-core 1.9.1",
    "the model driver is the Lean compiler's native build of Driver.lean (Model/ + Drv/ only, no Mathlib); VERIF_INTERPRETED_DRIVER=1 runs it in the interpreter instead",
]


# --------------------------------------------------------------------------- scalars
def f2b(x: float) -> str:
    """binary64 -> decimal UInt64 bit pattern (what Lean's `parseF` reads)."""
    return str(struct.unpack("<Q", struct.pack("<d", float(x)))[0])


def b2f(s: str) -> float:
    return struct.unpack("<d", struct.pack("<Q", int(s)))[0]


def q2s(q) -> str:
    q = Fraction(q)
    return f"{q.numerator}/{q.denominator}"


def s2q(s: str) -> Fraction:
    if "/" in s:
        n, d = s.split("/")
        return Fraction(int(n), int(d))
    return Fraction(int(s))


def lst(items: Iterable[str]) -> str:
    items = list(items)
    return ",".join(items) if items else "-"


def unlst(s: str) -> list[str]:
    return [] if s in ("-", "") else s.split(",")


def ulp_diff(a: float, b: float) -> int:
    """distance in units in the last place between two finite doubles"""
    def key(x):
        i = struct.unpack("<q", struct.pack("<d", x))[0]
        return i if i >= 0 else -(i & 0x7FFFFFFFFFFFFFFF)
    return abs(key(a) - key(b))


# --------------------------------------------------------------------------- lean
class LeanError(Exception):
    pass


def run(cmd, cwd=None, timeout=None, input=None) -> subprocess.CompletedProcess:
    return subprocess.run(cmd, cwd=cwd, timeout=timeout, input=input, text=True,
                          stdout=subprocess.PIPE, stderr=subprocess.STDOUT)


def lake_build(targets: list[str], timeout: int = 3000) -> tuple[bool, str]:
    """(re)build the given modules; a no-op when nothing changed."""
    p = run(["lake", "build", *targets], cwd=LEAN, timeout=timeout)
    return p.returncode == 0, p.stdout


def lean_files_of(modules: list[str]) -> list[Path]:
    """Transitive closure of EmuVerif.* imports of the given modules (source files)."""
    seen: dict[str, Path] = {}
    todo = list(modules)
    while todo:
        m = todo.pop()
        if m in seen or not m.startswith("EmuVerif"):
            continue
        p = LEAN / (m.replace(".", "/") + ".lean")
        if not p.exists():
            continue
        seen[m] = p
        for line in p.read_text().splitlines():
            mm = re.match(r"\s*(?:public\s+)?import\s+([\w.]+)", line)
            if mm:
                todo.append(mm.group(1))
    return list(seen.values())


def strip_comments(src: str) -> str:
    # nested block comments are rare in our sources; handle one level + line comments
    out, i, depth = [], 0, 0
    while i < len(src):
        if src.startswith("/-", i):
            depth += 1
            i += 2
        elif depth and src.startswith("-/", i):
            depth -= 1
            i += 2
        elif depth:
            if src[i] == "\n":
                out.append("\n")
            i += 1
        elif src.startswith("--", i):
            while i < len(src) and src[i] != "\n":
                i += 1
        else:
            out.append(src[i])
            i += 1
    return "".join(out)


def grep_forbidden(files: list[Path]) -> list[str]:
    hits = []
    for f in files:
        for n, line in enumerate(strip_comments(f.read_text()).splitlines(), 1):
            if FORBIDDEN.search(line):
                hits.append(f"{f.relative_to(LEAN)}:{n}: {line.strip()}")
    return hits


def audit_axioms(audit_file: str, timeout: int = 1800) -> tuple[dict[str, list[str]], str]:
    """Run `lake env lean Audit/<file>`; returns {theorem: axioms} and raw output."""
    p = run(["lake", "env", "lean", audit_file], cwd=LEAN, timeout=timeout)
    out = p.stdout
    res: dict[str, list[str]] = {}
    flat = re.sub(r"\s+", " ", out)
    for m in re.finditer(r"'([^']+)' depends on axioms: \[([^\]]*)\]", flat):
        res[m.group(1)] = [a.strip() for a in m.group(2).split(",") if a.strip()]
    for m in re.finditer(r"'([^']+)' does not depend on any axioms", flat):
        res[m.group(1)] = []
    if p.returncode != 0:
        raise LeanError(out)
    return res, out


def audit_expected(audit_file: str) -> list[str]:
    src = strip_comments((LEAN / audit_file).read_text())
    return re.findall(r"#print\s+axioms\s+([\w.'«»]+)", src)


class Driver:
    """Batch client of the Lean line-protocol driver."""

    def __init__(self):
        self.calls = 0
        self.lines = 0

    def batch(self, lines: list[str], timeout: int = 3000) -> list[str]:
        if not lines:
            return []
        for l in lines:
            assert "\n" not in l
        # the driver imports Model/ and Drv/ only (no Mathlib), so it is also built as a native executable
        # (`lake build emudriver`, done by lean_stage / setup); the interpreter is the fall-back
        exe = LEAN / ".lake" / "build" / "bin" / "emudriver"
        cmd = [str(exe)] if (exe.exists() and not os.environ.get("VERIF_INTERPRETED_DRIVER")) else ["lake", "env", "lean", "--run", "Driver.lean"]
        p = subprocess.run(cmd, cwd=LEAN,
                           input="\n".join(lines) + "\n", text=True, timeout=timeout,
                           stdout=subprocess.PIPE, stderr=subprocess.PIPE)
        out = p.stdout.splitlines()
        self.calls += 1
        self.lines += len(lines)
        if p.returncode != 0 or len(out) != len(lines):
            raise LeanError(f"driver rc={p.returncode} lines in={len(lines)} out={len(out)}\n"
                            f"{p.stderr[-2000:]}\n{p.stdout[-500:]}")
        return out


# --------------------------------------------------------------------------- findings
def load_known_findings() -> list[dict]:
    p = VERIF / "known_findings.json"
    if not p.exists():
        return []
    return json.loads(p.read_text()).get("findings", [])


# --------------------------------------------------------------------------- reporting
class Report:
    """Collects what one check run did and writes evidence / replay / VIOLATION lines."""

    def __init__(self, prop: str, tier: str, seed: int):
        self.prop, self.tier, self.seed = prop, tier, seed
        self.t0 = time.time()
        self.obligations: list[str] = []
        self.discharged: list[str] = []
        self.broken: list[str] = []          # theorems / correspondences that no longer check
        self.failing: list[dict] = []        # concrete failing inputs on the real code
        self.known: list[str] = []
        self.evaluations = 0
        self.nontrivial: set = set()
        self.samples: list = []
        self.traces = 0
        self.assumptions: list[str] = []
        self.extra: dict[str, Any] = {}
        self.rule = ""
        self.checker_cmd = ""
        self.notes: list[str] = []

    # -- bookkeeping
    def case(self, key=None, sample=None, nontrivial=True, trace=True):
        self.evaluations += 1
        if trace:
            self.traces += 1
        if nontrivial and key is not None:
            self.nontrivial.add(key)
        if sample is not None and len(self.samples) < 6:
            self.samples.append(sample)

    def count(self, name: str, k: int = 1):
        self.extra[name] = self.extra.get(name, 0) + k

    def hist(self, name: str, key):
        d = self.extra.setdefault(name, {})
        d[str(key)] = d.get(str(key), 0) + 1

    def broke(self, what: str):
        if what not in self.broken:
            self.broken.append(what)

    def fail(self, what: str, data: dict, klass: Optional[str] = None):
        """a concrete input on which the property fails on the real code"""
        self.failing.append({"what": what, "class": klass, "data": data})

    def unknown_failing(self) -> list:
        """failing inputs that are NOT instances of an open known finding (the ones that decide whether a
        failing-input search is still needed and whether the run is a violation)"""
        known = [k for k in load_known_findings()
                 if k.get("property") == self.prop and k.get("status", "open") == "open"]
        classes = {k.get("class") for k in known if k.get("class")}
        return [f for f in self.failing if not (f["class"] and f["class"] in classes)]

    # -- output
    def finish(self) -> int:
        REPLAYS.mkdir(exist_ok=True)
        EVIDENCE.mkdir(parents=True, exist_ok=True)
        known = load_known_findings()
        known_for = [k for k in known if k.get("property") == self.prop and k.get("status", "open") == "open"]
        new_fail, seen_known = [], {}
        for f in self.failing:
            hit = next((k for k in known_for if k.get("class") == f["class"] and f["class"]), None)
            if hit is not None:
                seen_known.setdefault(hit["id"], (hit, f))
            else:
                new_fail.append(f)
        rc = 0
        lines = []
        for hid, (hit, f) in seen_known.items():
            lines.append(f"KNOWN-FINDING: property={self.prop} {hid}: {hit['what']}")
        if new_fail:
            rc = 1
            path = REPLAYS / f"{self.prop}_{self.tier}_{self.seed}.json"
            path.write_text(json.dumps({"property": self.prop, "seed": self.seed, "tier": self.tier,
                                        "failing_inputs": new_fail[:20],
                                        "broken_obligations": self.broken}, indent=1, default=str))
            lines.append(f"VIOLATION property={self.prop} replay={path}")
        elif self.broken:
            rc = 1
            path = REPLAYS / f"{self.prop}_{self.tier}_{self.seed}_unproved.json"
            path.write_text(json.dumps({"property": self.prop, "seed": self.seed, "tier": self.tier,
                                        "no_longer_checks": self.broken,
                                        "note": "proof obligation or model/implementation correspondence broke; "
                                                "the failing-input search on the real code found nothing"},
                                       indent=1, default=str))
            lines.append(f"VIOLATION property={self.prop} replay={path} no-failing-input-found")
        ev = {
            "property_id": self.prop, "tier": self.tier, "seed": self.seed, "level": "proof",
            "coverage": {
                "obligations": max(len(self.obligations), 0),
                "discharged": len(self.discharged),
                "checker_cmd": self.checker_cmd,
                "trusted_base": TRUSTED_BASE,
                "theorems": self.obligations,
                "undischarged": [o for o in self.obligations if o not in self.discharged],
                "evaluations": self.evaluations,
                "distinct_nontrivial": len(self.nontrivial),
                "rule": self.rule,
                "samples": self.samples,
                "traces_validated_against_impl": self.traces,
                "broken": self.broken,
                "known_findings_reproduced": sorted(seen_known),
                # a check's own histogram must never shadow a schema field (C32 used hist("samples", …))
                **{(k if k not in RESERVED_COVERAGE_KEYS else "hist_" + k): v for k, v in self.extra.items()},
            },
            "assumptions": self.assumptions,
            "wall_s": round(time.time() - self.t0, 2),
            "violations": len(new_fail) + (1 if (self.broken and not new_fail) else 0),
            "notes": self.notes,
        }
        (EVIDENCE / f"{self.prop}.json").write_text(json.dumps(ev, indent=1, default=str))
        for l in lines:
            print(l)
        print(f"[{self.prop}] tier={self.tier} seed={self.seed} obligations={len(self.discharged)}/{len(self.obligations)} "
              f"cases={self.evaluations} nontrivial={len(self.nontrivial)} broken={len(self.broken)} "
              f"failing={len(new_fail)} known={len(seen_known)} wall={ev['wall_s']}s -> exit {rc}")
        return rc


def lean_stage(rep: Report, prop_module: str, audit_file: str, thorough: bool = False) -> None:
    """Steps 1-3 of DESIGN §2.5: build, forbidden-token grep, #print axioms audit."""
    rep.checker_cmd = (f"cd lean && lake build {prop_module} EmuVerif.Drv.All emudriver && lake env lean {audit_file}"
                       + (f" && lake env leanchecker {prop_module}" if thorough else ""))
    expected = audit_expected(audit_file)
    rep.obligations = expected
    ok, out = lake_build([prop_module, "EmuVerif.Drv.All", "emudriver"])
    if not ok:
        rep.broke(f"lake build {prop_module}: " + out[-1500:])
        return
    hits = grep_forbidden(lean_files_of([prop_module]))
    if hits:
        rep.broke("forbidden tokens: " + "; ".join(hits[:5]))
    try:
        axioms, raw = audit_axioms(audit_file)
    except LeanError as e:
        rep.broke(f"audit {audit_file}: " + str(e)[-1500:])
        return
    for thm in expected:
        ax = axioms.get(thm)
        if ax is None:
            ax = next((v for k, v in axioms.items() if k.endswith("." + thm)), None)
        if ax is None:
            rep.broke(f"audit: no axiom report for {thm}")
        elif not set(ax) <= ALLOWED_AXIOMS:
            rep.broke(f"audit: {thm} depends on {ax}")
        else:
            rep.discharged.append(thm)
    rep.extra["axioms_used"] = sorted({a for v in axioms.values() for a in v})
    if thorough:
        p = run(["lake", "env", "leanchecker", prop_module], cwd=LEAN, timeout=3000)
        rep.extra["leanchecker_rc"] = p.returncode
        if p.returncode != 0:
            rep.broke("leanchecker: " + p.stdout[-800:])


def seeded(seed: int) -> random.Random:
    return random.Random(seed)
