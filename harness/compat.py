"""Harness-side environment adaptation (DESIGN.md §2.3) and helpers to drive the back-ends.

Under the pinned pulser-core 1.9.1 neither back-end can be constructed:
`Observable.__init__()` requires `default_aggregation_method` (the repo's `Statistics` and
`EntanglementEntropy` subclasses do not pass it) and `trajectory.interaction_matrix` /
`config.interaction_matrix` are shaped (1|2, N, N). `install()` patches, *in this process
only*, a default for that keyword. Back-ends are then driven through
`SVBackend._run_from_sequence_data` / `MPSBackend._run_from_sequence_data` with hand-built
`SequenceData` (see `make_sequence_data`). The shim is a no-op once the repository is
compatible. Nothing in /repo is modified.
"""
from __future__ import annotations

import functools
import inspect
import logging
from typing import Optional, Sequence

_installed = False


def install() -> None:
    global _installed
    if _installed:
        return
    _installed = True
    import pulser.backend.observable as pobs

    init = pobs.Observable.__init__
    params = inspect.signature(init).parameters
    if "default_aggregation_method" in params:
        try:
            from pulser.backend.observable import AggregationMethod  # type: ignore
        except Exception:  # pragma: no cover
            from pulser.backend.results import AggregationMethod  # type: ignore
        p = params["default_aggregation_method"]
        if p.default is inspect._empty:
            @functools.wraps(init)
            def patched(self, *a, **kw):
                if "default_aggregation_method" not in kw and len(a) < list(params).index("default_aggregation_method"):
                    kw["default_aggregation_method"] = AggregationMethod.SKIP
                return init(self, *a, **kw)

            pobs.Observable.__init__ = patched


def make_sequence_data(omega, delta, phi, U, target_times, *, qubit_ids=None, bad_atoms=None,
                       lindblad_ops=None, state_prep_error=0.0, eigenstates=("r", "g"),
                       hamiltonian_type="Rydberg", masked_U=None, slm_end_time=0.0):
    """Hand-built `emu_base.SequenceData`.

    omega/delta/phi: (nsteps, N) real or complex array-likes (converted to complex128);
    U: (N, N) interaction matrix (torch/numpy); target_times: list of nsteps+1 floats (ns).
    """
    install()
    import torch
    from emu_base import SequenceData
    from emu_base.pulser_adapter import HamiltonianType, _InteractionMatrixCallable

    def c(x):
        # NB: torch.as_tensor on a Python list of floats gives float32 (1e-8 relative rounding): go through float64
        if not isinstance(x, torch.Tensor):
            import numpy as _np
            x = _np.asarray(x, dtype=_np.complex128)
        return torch.as_tensor(x).to(torch.complex128).clone()

    omega, delta, phi = c(omega), c(delta), c(phi)
    n = omega.shape[1]
    U = torch.as_tensor(U, dtype=torch.float64).clone()
    mU = U if masked_U is None else torch.as_tensor(masked_U, dtype=torch.float64).clone()
    qubit_ids = tuple(qubit_ids) if qubit_ids is not None else tuple(f"q{i}" for i in range(n))
    bad_atoms = tuple(bad_atoms) if bad_atoms is not None else tuple(False for _ in range(n))
    ht = HamiltonianType.Rydberg if hamiltonian_type == "Rydberg" else HamiltonianType.XY
    return SequenceData(omega, delta, phi, _InteractionMatrixCallable(U, mU, float(slm_end_time)),
                        qubit_ids, bad_atoms, list(lindblad_ops or []), float(state_prep_error),
                        [float(t) for t in target_times], list(eigenstates), ht)


def sv_config(**kw):
    install()
    from emu_sv import SVConfig
    kw.setdefault("gpu", False)
    kw.setdefault("log_level", logging.ERROR)
    return SVConfig(**kw)


def mps_config(**kw):
    install()
    from emu_mps import MPSConfig
    kw.setdefault("num_gpus_to_use", 0)
    kw.setdefault("log_level", logging.ERROR)
    return MPSConfig(**kw)


def run_sv(data, config):
    install()
    from emu_sv.sv_backend import SVBackend
    return SVBackend._run_from_sequence_data(data, config)


def run_mps(data, config):
    install()
    from emu_mps.mps_backend import MPSBackend
    return MPSBackend._run_from_sequence_data(data, config)
