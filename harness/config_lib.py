"""Shared machinery of the C33 / C04 checks (package `config`).

Everything that touches the real code lives here: JSON *specs* of concrete cases (so that a
failing input can be replayed from the evidence file), builders that turn a spec into real
`SequenceData` / `MPSConfig` / `SVConfig` / `NoiseModel` objects, the *abstraction functions*
that read the modelled features back off those concrete objects (so a random variation is
classified by what it is, not by how it was generated), runners that canonicalise the outcome
of the real code (`emulate <hamKind>` | `raise <errClass>`), and the always-on property oracles.
"""
from __future__ import annotations

import contextlib
import io
import json
import logging
import math
import os
import random
import types
from unittest import mock

from harness import compat
from harness.common import REPO, f2b, lst, ulp_diff

FLOOR = 1.0e-12
WHITELIST = ("bitstrings", "occupation", "correlation_matrix", "statistics", "energy",
             "energy_variance", "energy_second_moment")
_EXC = {"ValueError": "value", "NotImplementedError": "notImpl", "AssertionError": "assertion",
        "RuntimeError": "runtime", "ZeroDivisionError": "zeroDiv"}
NON_LINDBLAD = {"SPAM", "doppler", "amplitude", "detuning", "register", "dmm_sigma", "dmm_crosstalk"}


def canon_exc(e: BaseException) -> str:
    return _EXC.get(type(e).__name__, "other:" + type(e).__name__)


def raised_in_repo(e: BaseException) -> bool:
    """Was the exception raised by a frame of the repository (and not by Pulser / torch on
    behalf of an input the repository never saw)?"""
    tb = e.__traceback__
    last = None
    while tb is not None:
        last = tb
        tb = tb.tb_next
    fn = last.tb_frame.f_code.co_filename if last is not None else ""
    return os.path.realpath(fn).startswith(os.path.realpath(str(REPO)))


# --------------------------------------------------------------------------- noise models
def noise_model(spec: dict):
    """spec: NoiseModel keyword arguments; `eff` = list of operator sizes (identity-like
    operators with rate 0.1·(i+1))."""
    import numpy as np
    from pulser.noise_model import NoiseModel
    kw = {k: v for k, v in spec.items() if k != "eff"}
    if "eff" in spec:
        ops = []
        for i, d in enumerate(spec["eff"]):
            m = np.zeros((d, d))
            m[0, min(1, d - 1)] = 1.0
            m[min(1, d - 1), 0] += 0.5 * (i + 1)
            ops.append(m)
        kw["eff_noise_opers"] = tuple(ops)
        kw["eff_noise_rates"] = tuple(0.1 * (i + 1) for i in range(len(ops)))
    return NoiseModel(**kw)


def fake_noise_model(types_: list[str], hyperfine=0.0, eff=()):
    """A duck-typed noise model for `_get_all_lindblad_noise_operators` (arbitrary, also invalid,
    noise-type lists that Pulser's own validation would refuse to build)."""
    import numpy as np
    return types.SimpleNamespace(
        noise_types=tuple(types_), relaxation_rate=0.04, dephasing_rate=0.08,
        hyperfine_dephasing_rate=hyperfine, depolarizing_rate=0.12,
        eff_noise_opers=tuple(np.eye(d) for d in eff), eff_noise_rates=tuple(0.1 for _ in eff),
        state_prep_error=0.0, runs=None, samples_per_run=None)


def kinds_of(nm) -> list[str]:
    """Abstraction function noise model → model tokens, in the order of `noise_types`."""
    out = []
    for t in nm.noise_types:
        if t == "relaxation":
            out.append("rel")
        elif t == "dephasing":
            out.append("deph1" if nm.hyperfine_dephasing_rate != 0.0 else "deph0")
        elif t == "depolarizing":
            out.append("depol")
        elif t == "eff_noise":
            out.append(":".join(["eff"] + [str(len(op)) for op in nm.eff_noise_opers]))
        elif t == "leakage":
            out.append("leak")
        elif t in NON_LINDBLAD:
            out.append("nonl")
        else:
            out.append("unk")
    return out


NOISE_SPECS = [
    {}, {"relaxation_rate": 0.1}, {"dephasing_rate": 0.2}, {"depolarizing_rate": 0.15},
    {"hyperfine_dephasing_rate": 0.1}, {"dephasing_rate": 0.2, "hyperfine_dephasing_rate": 0.1},
    {"eff": [2]}, {"eff": [2, 2]}, {"eff": [3]}, {"eff": [2, 3]},
    {"with_leakage": True, "eff": [3]}, {"with_leakage": True, "eff": [3, 3], "relaxation_rate": 0.05},
    {"with_leakage": True, "eff": [2]},
    {"state_prep_error": 0.1, "p_false_pos": 0.0, "p_false_neg": 0.0},
    {"p_false_pos": 0.01, "p_false_neg": 0.02, "state_prep_error": 0.0},
    {"temperature": 30.0, "runs": 1, "samples_per_run": 1}, {"amp_sigma": 0.05, "runs": 1, "samples_per_run": 1},
    {"relaxation_rate": 0.1, "state_prep_error": 0.05, "p_false_pos": 0.0, "p_false_neg": 0.0},
    {"relaxation_rate": 0.1, "dephasing_rate": 0.1, "depolarizing_rate": 0.1, "eff": [2]},
    {"hyperfine_dephasing_rate": 0.1, "eff": [3]},
]


def try_noise_model(spec):
    try:
        return noise_model(spec)
    except Exception:
        return None


# --------------------------------------------------------------------------- observables
def _custom_obs_class():
    from pulser.backend import Observable

    class CustomObs(Observable):
        def __init__(self, base_tag, **kw):
            self._bt = base_tag
            super().__init__(**kw)

        @property
        def _base_tag(self):
            return self._bt

        def apply(self, **kw):
            return 0.0

    return CustomObs


_CUSTOM = None


def observable(name: str, suffix=None):
    """name: one of the Pulser/emu-mps observable names, or `custom:<base tag>`."""
    global _CUSTOM
    compat.install()
    import torch
    import pulser.backend as pb
    kw = {"evaluation_times": [1.0]}
    if suffix is not None:
        kw["tag_suffix"] = suffix
    if name.startswith("custom:"):
        if _CUSTOM is None:
            _CUSTOM = _custom_obs_class()
        return _CUSTOM(name[len("custom:"):], **kw)
    if name == "EntanglementEntropy":
        from emu_mps.observables import EntanglementEntropy
        return EntanglementEntropy(mps_site=0, **kw)
    if name == "Fidelity":
        from emu_mps import MPS
        return pb.Fidelity(MPS.make(2), **kw)
    if name == "Expectation":
        from emu_mps import MPO
        return pb.Expectation(MPO([torch.eye(2, dtype=torch.complex128).reshape(1, 2, 2, 1)] * 2), **kw)
    return getattr(pb, name)(**kw)


def observables(spec: list) -> list:
    return [observable(n, s) for n, s in spec]


# --------------------------------------------------------------------------- SequenceData specs
_EIG = {("Rydberg", 2): ["r", "g"], ("XY", 2): ["u", "d"], ("Rydberg", 3): ["r", "g", "x"],
        ("XY", 3): ["u", "d", "x"]}


def eigenstates(ham: str, dim: int) -> list[str]:
    if (ham, dim) in _EIG:
        return list(_EIG[(ham, dim)])
    return ["r", "g", "x", "y", "z", "w", "v"][:dim]


def build_data(spec: dict):
    """spec: ham ('Rydberg'|'XY'), eig (list), op_dims (list), n, bad (list[bool]), spe (float),
    nsteps, numseed."""
    import torch
    rng = random.Random(spec.get("numseed", 0))
    n, nsteps = spec["n"], spec.get("nsteps", 3 if spec.get("slm") else 2)
    plain = spec.get("numseed", 0) == 0
    omega = [[1.0 if plain else round(rng.uniform(0.0, 6.0), 3) for _ in range(n)] for _ in range(nsteps)]
    delta = [[0.0 if plain else round(rng.uniform(-6.0, 6.0), 3) for _ in range(n)] for _ in range(nsteps)]
    phi = [[0.0 if plain else round(rng.uniform(-3.0, 3.0), 3) for _ in range(n)] for _ in range(nsteps)]
    U = torch.zeros(n, n, dtype=torch.float64)
    for i in range(n):
        for j in range(i + 1, n):
            U[i, j] = U[j, i] = 0.5 if plain else round(rng.uniform(0.1, 3.0), 3)
    dt = 10.0 if plain else rng.choice([10.0, 5.0, 20.0])
    times = [dt * k for k in range(nsteps + 1)]
    ops = []
    for k, d in enumerate(spec.get("op_dims", [])):
        m = torch.zeros(d, d, dtype=torch.complex128)
        if d > 0:
            m[0, min(1, d - 1)] = 0.1 * (k + 1) if plain else complex(rng.uniform(0.01, 0.3), rng.uniform(-0.2, 0.2))
            if not plain:
                m[min(1, d - 1), 0] += rng.uniform(-0.2, 0.2)
        ops.append(m)
    masked, slm_end = None, 0.0
    if spec.get("slm"):
        # SLM mask on the last atom, ending at the step boundary `slm_end_step` (default: after the first
        # step): the interaction matrix seen by the back-end changes inside the run
        masked = U.clone()
        masked[n - 1, :] = 0.0
        masked[:, n - 1] = 0.0
        slm_end = times[spec.get("slm_end_step", 1)]
    return compat.make_sequence_data(omega, delta, phi, U, times, eigenstates=tuple(spec["eig"]),
                                     hamiltonian_type=spec["ham"], lindblad_ops=ops,
                                     bad_atoms=spec.get("bad"), state_prep_error=spec.get("spe", 0.0),
                                     masked_U=masked, slm_end_time=slm_end)


SOLVER_FORMS = ("enum", "str", "repr", "deepcopy", "rebuilt")


def solver_value(cfg) -> str:
    """The *value* of `config.solver` (`Solver` is a `str` enum; the option is stored as given)."""
    sv = cfg.solver
    return str(getattr(sv, "value", sv))


def build_config(spec: dict):
    """spec: backend, solver, noise (NoiseModel spec), obs (list[(name, suffix)]), reorder, prefer,
    solver_form = how the solver is requested:
      enum     – the member `Solver.DMRG` / `Solver.TDVP`
      str      – the documented plain string "dmrg" / "tdvp"
      repr     – config round-tripped through `to_abstract_repr` / `from_abstract_repr` (→ a str)
      deepcopy – `copy.deepcopy(config)`
      rebuilt  – `type(config)(**deepcopy(config._backend_options))` (what `MPSBackendImpl.__getstate__`
                 pickles into an autosave file)."""
    import copy
    from emu_mps.solver import Solver
    kw = dict(observables=observables(spec.get("obs", [["Occupation", None]])),
              noise_model=noise_model(spec.get("noise", {})))
    if spec.get("prefer"):
        kw["prefer_device_noise_model"] = True
    if spec["backend"] == "sv":
        return compat.sv_config(**kw)
    form = spec.get("solver_form", "enum")
    member = Solver.DMRG if spec["solver"] == "dmrg" else Solver.TDVP
    cfg = compat.mps_config(solver=spec["solver"] if form == "str" else member,
                            optimize_qubit_ordering=bool(spec.get("reorder", False)),
                            precision=spec.get("precision", 1e-5), **kw)
    if form == "repr":
        cfg = type(cfg).from_abstract_repr(cfg.to_abstract_repr())
    elif form == "deepcopy":
        cfg = copy.deepcopy(cfg)
    elif form == "rebuilt":
        cfg = type(cfg)(**copy.deepcopy(cfg._backend_options))
    assert solver_value(cfg) == spec["solver"]
    return cfg


def features(backend: str, data, cfg, sv_solver: str = "tdvp") -> dict:
    """Abstraction function: the modelled features, read off the concrete objects. (SVConfig has
    no solver field: for emu-sv the cell's solver coordinate is carried along unchanged.)"""
    n = len(data.qubit_ids)
    good = sum(1 for b in data.bad_atoms if not b) if data.state_prep_error > 0.0 else n
    solver = sv_solver
    if backend == "mps":
        solver = "dmrg" if solver_value(cfg) == "dmrg" else "tdvp"
    import torch
    tt = data.target_times
    mats = [data.interaction_matrix(0.5 * (tt[k] + tt[k + 1])) for k in range(len(tt) - 1)]
    # what `timestep_complete` tests after step k: is the matrix of step k+1 the current one?
    changes = [not torch.allclose(mats[k], mats[k + 1], atol=1e-10) for k in range(len(mats) - 1)]
    return dict(backend=backend, ham="rydberg" if data.hamiltonian_type.name == "Rydberg" else "xy",
                dim=len(data.eigenstates), op_dims=[int(o.shape[0]) for o in data.lindblad_ops],
                n=n, good=good, solver=solver, cfg_noise=cfg.noise_model.noise_types != (), changes=changes,
                form=("member" if backend == "sv" or type(cfg.solver).__name__ == "Solver" else "string"))


def seq_line(feat: dict, variant="repaired") -> str:
    return " ".join(["config.seq", variant, feat["backend"], feat["ham"], str(feat["dim"]),
                     lst(str(d) for d in feat["op_dims"]), str(feat["n"]), str(feat["good"]),
                     feat["solver"], "1" if feat["cfg_noise"] else "0"])


def run_line(feat: dict, rebuild="passes", variant="repaired") -> str:
    return " ".join(["config.run", rebuild, variant, feat["backend"], feat["ham"], str(feat["dim"]),
                     lst(str(d) for d in feat["op_dims"]), str(feat["n"]), str(feat["good"]),
                     feat["solver"], "1" if feat["cfg_noise"] else "0",
                     lst("1" if c else "0" for c in feat["changes"])])


def cell_of(feat: dict) -> tuple:
    d = feat["dim"]
    ops = feat["op_dims"]
    oc = "none" if not ops else ("ok" if all(x == d for x in ops) else
                                 ("uniformWrong" if all(x == ops[0] for x in ops) else "mixed"))
    ac = "tooFew" if feat["n"] < 2 else ("oneGood" if feat["good"] <= 1 else "enough")
    return (feat["backend"], feat["ham"], {2: "d2", 3: "d3"}.get(d, "other"), oc, ac, feat["solver"],
            feat["cfg_noise"], any(feat.get("changes", [])))


# --------------------------------------------------------------------------- running the real code
@contextlib.contextmanager
def recording(info: dict):
    """Harness-side observation of *which operator family is actually built and used*, independent
    of the arguments the repository passes around:
      * `emu_mps.hamiltonian.{Rydberg,XY}HamiltonianMPOFactors` (what `make_H` instantiates) are
        wrapped → `info["built"]` = [(family, dim), …] in construction order;
      * `mps_backend_impl.make_H` is wrapped to remember which family each returned MPO is;
      * `mps_backend_impl.update_H` (called once per time step, on the MPO about to be used) is wrapped
        → `info["steps"]` = the Hamiltonian kind in use, step by step;
      * emu-sv: `RydbergHamiltonian` / `RydbergLindbladian` constructions in `emu_sv.time_evolution`
        (one per step) are recorded as `rydberg2`."""
    import emu_mps.hamiltonian as mh
    import emu_mps.mps_backend as mb
    import emu_mps.mps_backend_impl as mbi
    import emu_sv.time_evolution as ste
    real_create = mb.create_impl

    def rec_create(*a, **kw):
        impl = real_create(*a, **kw)
        info["impl"] = type(impl).__name__
        return impl

    info.setdefault("built", [])
    info.setdefault("steps", [])
    info.setdefault("make_H", [])
    kinds: dict = {}
    keep: list = []
    real = dict(ryd=mh.RydbergHamiltonianMPOFactors, xy=mh.XYHamiltonianMPOFactors, make_H=mbi.make_H,
                update_H=mbi.update_H, svh=ste.RydbergHamiltonian, svl=ste.RydbergLindbladian)

    def fac(family, cls):
        def build(interaction_matrix, dim=2, *a, **kw):
            info["built"].append((family, int(dim)))
            return cls(interaction_matrix, dim, *a, **kw)
        return build

    def rec_make_H(*a, **kw):
        n0 = len(info["built"])
        mpo = real["make_H"](*a, **kw)
        k = info["built"][n0] if len(info["built"]) > n0 else ("?", 0)
        kinds[id(mpo)] = f"{k[0]}{k[1]}"
        keep.append(mpo)
        info["make_H"].append(("Rydberg" if k[0] == "rydberg" else "XY", k[1]))
        return mpo

    def rec_update_H(*a, **kw):
        h = kw.get("hamiltonian", a[0] if a else None)
        info["steps"].append(kinds.get(id(h), "?"))
        return real["update_H"](*a, **kw)

    def sv(cls):
        def build(*a, **kw):
            info["steps"].append("rydberg2")
            return cls(*a, **kw)
        return build

    with mock.patch.object(mh, "RydbergHamiltonianMPOFactors", fac("rydberg", real["ryd"])), \
            mock.patch.object(mh, "XYHamiltonianMPOFactors", fac("xy", real["xy"])), \
            mock.patch.object(mbi, "make_H", rec_make_H), mock.patch.object(mbi, "update_H", rec_update_H), \
            mock.patch.object(mb, "create_impl", rec_create), \
            mock.patch.object(ste, "RydbergHamiltonian", sv(real["svh"])), \
            mock.patch.object(ste, "RydbergLindbladian", sv(real["svl"])), \
            contextlib.redirect_stdout(io.StringIO()):          # the XY MPO builder prints a banner
        yield info


def collapse(steps: list) -> list:
    out = []
    for k in steps:
        if not out or out[-1] != k:
            out.append(k)
    return out


def emulate_string(backend: str, info: dict) -> str:
    """`emulate k1>k2…`: the sequence of distinct Hamiltonians in use over the run."""
    steps = collapse(info.get("steps", []))
    if not steps:
        steps = ["rydberg2"] if backend == "sv" else ["?"]
    return "emulate " + ">".join(steps)


def run_real(backend: str, data, cfg) -> tuple[str, dict]:
    """`<Backend>._run_from_sequence_data(data, cfg)` → (`emulate <kinds>` | `raise <err>`, info)."""
    compat.install()
    info: dict = {}
    try:
        with recording(info):
            res = compat.run_sv(data, cfg) if backend == "sv" else compat.run_mps(data, cfg)
    except Exception as e:  # the outcome class of the real code
        info["exc"] = f"{type(e).__name__}: {str(e)[:160]}"
        return "raise " + canon_exc(e), info
    if type(res).__name__ != "Results":
        return "other:" + type(res).__name__, info
    info["results"] = res
    return emulate_string(backend, info), info


def oracle_run(backend: str, data, cfg, outcome: str, info: dict):
    """C04/C33 stated on one real run, independently of the Lean model.
    Returns (message, class) or None."""
    if not outcome.startswith("emulate"):
        if outcome.startswith("other"):
            return f"back-end returned {outcome}", "backend-returned-non-results"
        return None
    ham, dim = data.hamiltonian_type.name, len(data.eigenstates)
    if backend == "sv" and (ham != "Rydberg" or dim != 2):
        return (f"emu-sv returned Results for hamiltonian_type={ham}, eigenstates={list(data.eigenstates)} "
                "(it only implements the 2-level Rydberg Hamiltonian)"), "sv-emulates-unsupported-basis"
    if dim not in (2, 3):
        return f"{backend} returned Results for a {dim}-level basis", "emulates-unsupported-level-count"
    if backend == "mps":
        dmrg = solver_value(cfg) == "dmrg"
        if dmrg and info.get("impl") not in (None, "DMRGBackendImpl"):
            return (f"solver requested as {cfg.solver!r} (value 'dmrg') but create_impl returned {info['impl']} and "
                    "Results were returned"), "dmrg-requested-other-impl"
        if dmrg and (len(data.lindblad_ops) > 0 or cfg.noise_model.noise_types != ()):
            return (f"DMRG solver (requested as {cfg.solver!r}) returned Results with noise (lindblad_ops={len(data.lindblad_ops)}, "
                    f"config noise_types={cfg.noise_model.noise_types})"), "dmrg-emulates-noise"
    want = f"{'rydberg' if ham == 'Rydberg' else 'xy'}{dim}"
    steps = info.get("steps", [])
    if steps and steps[0] != want:
        return (f"{backend} started the run with the {steps[0]} Hamiltonian for a {ham}/{dim}-level sequence",
                "wrong-hamiltonian")
    for i, k in enumerate(steps):
        if k != want:
            return (f"{backend} switched from the {want} Hamiltonian to {k} at (re)build/step {i} of the run "
                    f"(interaction matrix changes mid-run: SLM mask ending at "
                    f"{getattr(data.interaction_matrix, 'slm_end_time', None)} ns); Results were returned"), \
                "hamiltonian-type-changes-mid-run"
    for fam, d in info.get("built", []):
        if f"{fam}{d}" != want:
            return f"emu-mps built a {fam}{d} MPO for a {ham}/{dim}-level sequence", "wrong-hamiltonian"
    return None


def impl_real(data, cfg) -> str:
    """`create_impl(data, cfg)` → `ok plain|noisy|dmrg` | `raise <err>`."""
    compat.install()
    from emu_mps.mps_backend_impl import create_impl
    try:
        impl = create_impl(data, cfg)
    except Exception as e:
        return "raise " + canon_exc(e)
    return "ok " + {"MPSBackendImpl": "plain", "NoisyMPSBackendImpl": "noisy",
                    "DMRGBackendImpl": "dmrg"}.get(type(impl).__name__, "other:" + type(impl).__name__)


def impl_line(feat: dict, variant="repaired", test="value") -> str:
    """`createImplF test form …`: the decision for a solver requested in the form the config stores."""
    return " ".join(["config.implf", test, feat.get("form", "member"), variant, feat["solver"],
                     str(len(feat["op_dims"])), "1" if feat["cfg_noise"] else "0", str(feat["n"])])


# --------------------------------------------------------------------------- adapter stage
_SEQS: dict = {}
CHANNELS = {"gr": ["rydberg_global"], "dig": ["raman_global"], "xy": ["mw_global"],
            "dig,gr": ["rydberg_global", "raman_global"]}


BASIS_CHANNEL = {"gr": "rydberg_global", "dig": "raman_global", "xy": "mw_global"}


def pulser_sequence(declared: str, n: int = 2, dev_noise: dict | None = None, pulsed: str | None = None):
    """A Pulser sequence that declares one channel per basis in `declared` ("gr", "dig,gr", …) and
    pulses those in `pulsed` (default: all of them); the others only get a delay. Raises whatever
    Pulser raises when it refuses the combination (XY with anything else)."""
    pulsed = declared if pulsed is None else pulsed
    key = (declared, pulsed, n, json.dumps(dev_noise, sort_keys=True))
    if key not in _SEQS:
        import dataclasses
        import pulser
        from pulser.devices import MockDevice
        if dev_noise is not None:
            MockDevice = dataclasses.replace(MockDevice, default_noise_model=noise_model(dev_noise))
        reg = pulser.Register.from_coordinates([[7.0 * i, 0.0] for i in range(n)], prefix="q")
        s = pulser.Sequence(reg, MockDevice)
        dl = [b for b in declared.split(",") if b]
        pl = [b for b in pulsed.split(",") if b]
        for b in dl:
            s.declare_channel(b, BASIS_CHANNEL[b])
        for b in dl:
            if b in pl:
                s.add(pulser.Pulse.ConstantPulse(20, 1.0, 0.0, 0.0), b)
            else:
                s.delay(20, b)
        _SEQS[key] = s
    return _SEQS[key]


def adapter_real(it: str, dim: int, nm, cfg=None):
    """`PulserData.__init__` with Pulser's `HamiltonianData.from_sequence` replaced by a stub that
    reports interaction type `it` and `dim` levels. → (`ok <ham> <nops>` | `raise <err>`, PulserData|None)"""
    compat.install()
    import emu_base.pulser_adapter as pa
    if cfg is None:
        cfg = compat.sv_config(observables=observables([["Occupation", None]]), noise_model=nm, dt=10.0)
    basis = types.SimpleNamespace(interaction_type=it, dim=dim,
                                  eigenbasis=eigenstates("XY" if it == "XY" else "Rydberg", dim))
    stub = mock.Mock()
    stub.from_sequence.return_value = types.SimpleNamespace(basis_data=basis, noisy_samples=[])
    with mock.patch.object(pa, "HamiltonianData", stub):
        try:
            pd = pa.PulserData(sequence=pulser_sequence("gr"), config=cfg, dt=10.0)
        except Exception as e:
            return "raise " + canon_exc(e), None
    bad = [tuple(o.shape) for o in pd.lindblad_ops if tuple(o.shape) != (dim, dim)]
    if bad:
        return f"other:op-shapes{bad}", pd
    return f"ok {'rydberg' if pd.hamiltonian_type.name == 'Rydberg' else 'xy'} {len(pd.lindblad_ops)}", pd


def it_token(it: str) -> str:
    return {"ising": "ising", "XY": "xy"}.get(it, "other")


def pipeline_real(backend: str, it: str, dim: int, nmspec: dict, solver: str, solver_form: str = "enum"):
    """The modelled `run()`: real `PulserData.__init__` (stubbed Pulser basis report), then the
    real back-end on a `SequenceData` carrying the adapter's own Lindblad operators."""
    nm = noise_model(nmspec)
    cfg = build_config(dict(backend=backend, solver=solver, noise=nmspec, solver_form=solver_form))
    out, pd = adapter_real(it, dim, nm, cfg)
    if pd is None or not out.startswith("ok"):
        return out, None, cfg, {}
    import torch
    U = torch.tensor([[0.0, 0.5], [0.5, 0.0]])
    data = compat.make_sequence_data([[1.0, 1.0]] * 2, [[0.0, 0.0]] * 2, [[0.0, 0.0]] * 2, U, [0.0, 10.0, 20.0],
                                     eigenstates=tuple(pd.eigenstates), lindblad_ops=list(pd.lindblad_ops),
                                     hamiltonian_type=pd.hamiltonian_type.name)
    o, info = run_real(backend, data, cfg)
    return o, data, cfg, info


def sequence_real(backend: str, bases: str, nmspec: dict, solver: str, dev_noise: dict | None = None,
                  prefer: bool = False, pulsed: str | None = None, solver_form: str = "enum"):
    """A real Pulser sequence through the real `<Backend>(sequence, config=…).run()` — the API the
    property speaks about. The only shim (pulser-core 1.9.1, see harness/compat.py): the (k,N,N)
    interaction tensor of every `SequenceData` yielded by the real `get_sequences` is reduced to its
    first (N,N) slice. → (outcome | `pulser-refused`, Pulser's reported (interaction type, dim) | None,
    first SequenceData | None, config, info)"""
    compat.install()
    import dataclasses
    import emu_base.pulser_adapter as pa
    import emu_mps.mps_backend_impl as mbi
    cfg = build_config(dict(backend=backend, solver=solver, noise=nmspec, prefer=prefer, solver_form=solver_form))
    try:
        seq = pulser_sequence(bases, dev_noise=dev_noise, pulsed=pulsed)
    except Exception:
        return "pulser-refused", None, None, cfg, {}
    basis, captured, info = [], [], {}
    real_gs, real_fs = pa.PulserData.get_sequences, pa.HamiltonianData.from_sequence

    def squeezed(self):
        for sd in real_gs(self):
            im = sd.interaction_matrix
            full, masked = im.full_matrix, im.masked_matrix
            if full.ndim == 3:
                full, masked = full[0], masked[0]
            sd = dataclasses.replace(sd, interaction_matrix=pa._InteractionMatrixCallable(full, masked, im.slm_end_time))
            captured.append(sd)
            yield sd

    def rec_fs(*a, **kw):
        h = real_fs(*a, **kw)
        basis.append((h.basis_data.interaction_type, h.basis_data.dim))
        return h

    if backend == "sv":
        from emu_sv.sv_backend import SVBackend as B
    else:
        from emu_mps.mps_backend import MPSBackend as B
    try:
        with mock.patch.object(pa.PulserData, "get_sequences", squeezed), \
                mock.patch.object(pa.HamiltonianData, "from_sequence", staticmethod(rec_fs)), recording(info):
            res = B(seq, config=cfg).run()
    except Exception as e:
        rb = basis[0] if basis else None
        if not raised_in_repo(e):
            return "pulser-refused", rb, None, cfg, {}
        info["exc"] = f"{type(e).__name__}: {str(e)[:160]}"
        return "raise " + canon_exc(e), rb, (captured[0] if captured else None), cfg, info
    rb = basis[0] if basis else None
    data = captured[0] if captured else None
    if type(res).__name__ != "Results":
        return "other:" + type(res).__name__, rb, data, cfg, info
    return emulate_string(backend, info), rb, data, cfg, info


# --------------------------------------------------------------------------- dense reference
def dense_occupation(data, kind: str):
    """Occupation ⟨n_j⟩ at the end of the sequence from a dense matrix exponential per step with the
    Hamiltonian *Pulser defines* for `kind` ('Rydberg': Σ U_ij n_i n_j, 'XY': Σ U_ij (σ⁺_i σ⁻_j + h.c.)),
    drives Σ Ω_j/2 (cos φ σˣ + sin φ σʸ) − δ_j n_j, interaction matrix at the step mid-point (2-level, noiseless)."""
    import torch
    c128 = torch.complex128
    N = len(data.qubit_ids)
    I2 = torch.eye(2, dtype=c128)
    sx = torch.tensor([[0, 1], [1, 0]], dtype=c128)
    sy = torch.tensor([[0, -1j], [1j, 0]], dtype=c128)
    n_op = torch.tensor([[0, 0], [0, 1]], dtype=c128)
    sp = torch.tensor([[0, 0], [1, 0]], dtype=c128)

    def site(op, j):
        out = torch.ones(1, 1, dtype=c128)
        for k in range(N):
            out = torch.kron(out, op if k == j else I2)
        return out

    psi = torch.zeros(2 ** N, dtype=c128)
    psi[0] = 1.0
    tt = data.target_times
    for k in range(len(tt) - 1):
        M = data.interaction_matrix(0.5 * (tt[k] + tt[k + 1])).to(c128)
        H = torch.zeros(2 ** N, 2 ** N, dtype=c128)
        for j in range(N):
            H += 0.5 * data.omega[k, j] * (torch.cos(data.phi[k, j]) * site(sx, j) + torch.sin(data.phi[k, j]) * site(sy, j))
            H -= data.delta[k, j] * site(n_op, j)
        for i in range(N):
            for j in range(i + 1, N):
                if kind == "XY":
                    hop = site(sp, i) @ site(sp.T.contiguous(), j)
                    H += M[i, j] * (hop + hop.mH)
                else:
                    H += M[i, j] * site(n_op, i) @ site(n_op, j)
        psi = torch.linalg.matrix_exp(-1j * H * (tt[k + 1] - tt[k]) * 1e-3) @ psi
    return [float((psi.conj() @ site(n_op, j) @ psi).real) for j in range(N)]


def build_dense_case(spec: dict):
    """A tiny strongly driven, strongly interacting 2-level sequence (so that the XY and the Rydberg
    evolutions differ by O(0.1) in the occupations). spec: ham, n, nsteps, slm, slm_end_step, numseed."""
    import torch
    rng = random.Random(spec.get("numseed", 0))
    n, nsteps, dt = spec["n"], spec.get("nsteps", 3), 10.0
    omega = [[round(rng.uniform(20.0, 60.0), 2) for _ in range(n)] for _ in range(nsteps)]
    delta = [[round(rng.uniform(-10.0, 10.0), 2) for _ in range(n)] for _ in range(nsteps)]
    phi = [[0.0] * n for _ in range(nsteps)]
    U = torch.zeros(n, n, dtype=torch.float64)
    for i in range(n):
        for j in range(i + 1, n):
            U[i, j] = U[j, i] = round(rng.uniform(30.0, 90.0), 2)
    times = [dt * k for k in range(nsteps + 1)]
    masked, slm_end = None, 0.0
    if spec.get("slm"):
        masked = U.clone()
        masked[n - 1, :] = 0.0
        masked[:, n - 1] = 0.0
        slm_end = times[spec.get("slm_end_step", 1)]
    ham = spec["ham"]
    return compat.make_sequence_data(omega, delta, phi, U, times, eigenstates=tuple(eigenstates(ham, 2)),
                                     hamiltonian_type=ham, masked_U=masked, slm_end_time=slm_end)


DENSE_TOL = 1e-6


def dense_real(spec: dict):
    """Run the tiny case on the real back-end and compare the returned occupations with the dense
    reference for the Hamiltonian Pulser defines. → (outcome, max abs error | None, info)"""
    import torch
    data = build_dense_case(spec)
    cfg = build_config(dict(backend=spec["backend"], solver="tdvp", precision=1e-10))
    out, info = run_real(spec["backend"], data, cfg)
    if not out.startswith("emulate"):
        return out, None, info, data, cfg
    got = [float(x) for x in torch.as_tensor(info["results"].occupation[-1]).real.tolist()]
    ref = dense_occupation(data, spec["ham"])
    info["occupation"], info["reference"] = got, ref
    return out, max(abs(a - b) for a, b in zip(got, ref)), info, data, cfg


# --------------------------------------------------------------------------- MPSConfig
def fnum(x) -> str:
    return "nan" if isinstance(x, float) and x != x else f2b(float(x))


def tag_token(t: str) -> str:
    return "t" + ".".join(str(ord(c)) for c in t)


def mk_line(spec: dict) -> str:
    tags = [n[len("custom:"):] if n.startswith("custom:") else None for n, _ in spec["obs"]]
    real = [o._base_tag for o in observables(spec["obs"])]
    assert all(t is None or t == r for t, r in zip(tags, real))
    return " ".join(["config.mk", f2b(float(spec["p"])), f2b(float(spec["e"])), f2b(float(spec["dt"])),
                     "1" if spec["flag"] else "0", lst(tag_token(t) for t in real), spec["solver"]])


def mk_real(spec: dict):
    """Real `MPSConfig(...)` → (`ok extra tol reorder` | `raise <err>`, config|None)."""
    from emu_mps.solver import Solver
    try:
        cfg = compat.mps_config(precision=spec["p"], extra_krylov_tolerance=spec["e"], autosave_dt=spec["dt"],
                                optimize_qubit_ordering=spec["flag"], observables=observables(spec["obs"]),
                                solver=Solver.DMRG if spec["solver"] == "dmrg" else Solver.TDVP)
    except Exception as e:
        if not raised_in_repo(e):      # Pulser's base constructor refused the arguments (e.g. duplicate tags)
            return "pulser-refused", None
        return "raise " + canon_exc(e), None
    ex = cfg.extra_krylov_tolerance
    return f"ok {fnum(ex)} {fnum(cfg.precision * ex)} {'1' if cfg.optimize_qubit_ordering else '0'}", cfg


def oracle_mk(spec: dict, out: str, cfg):
    """C33 stated on one real construction. Returns (message, class, near) — `near` counts the
    benign 1-ulp float cases."""
    p, e, dt = spec["p"], spec["e"], spec["dt"]
    if out == "pulser-refused":
        return None, None, 0
    if cfg is None:
        if out == "raise assertion" and dt > 10:
            return "AssertionError although autosave_dt > 10", "autosave-spurious-reject", 0
        if out == "raise zeroDiv" and p != 0:
            return "ZeroDivisionError with precision != 0", "krylov-zerodiv", 0
        if out not in ("raise assertion", "raise zeroDiv"):
            return f"MPSConfig raised {out}", "mpsconfig-unexpected-exception", 0
        return None, None, 0
    if not (cfg.autosave_dt > 10):
        return f"autosave_dt={dt!r} accepted (must be > 10)", "autosave-accepted", 0
    near = 0
    fin = all(isinstance(v, (int, float)) and math.isfinite(v) for v in (p, e))
    # domain of the binary64 oracle: 1e-12/p must be a normal number (p <= 4.49e295); below that the
    # quotient is subnormal, its relative error is unbounded and "4 ulp" means nothing (returned as near=2)
    if fin and p > 0 and FLOOR / p < 2.2250738585072014e-308:
        near = 2
    elif fin and p > 0:
        tol = float(cfg.precision * cfg.extra_krylov_tolerance)
        if not tol >= FLOOR:
            # binary64: p * (1e-12 / p) is two roundings; may land one ulp below 1e-12. 4 ulp allowed.
            if math.isfinite(tol) and ulp_diff(tol, FLOOR) <= 4:
                near = 1
            else:
                return (f"effective Krylov tolerance {tol!r} < 1e-12 (precision={p!r}, "
                        f"extra_krylov_tolerance={e!r} -> {cfg.extra_krylov_tolerance!r})"), "krylov-floor", 0
    tags = [o._base_tag for o in cfg.observables]
    if any(t not in WHITELIST for t in tags) and cfg.optimize_qubit_ordering:
        return f"optimize_qubit_ordering stays on with observables {tags}", "reorder-on-unpermutable", 0
    if all(t in WHITELIST for t in tags) and bool(cfg.optimize_qubit_ordering) != bool(spec["flag"]):
        return f"optimize_qubit_ordering changed to {cfg.optimize_qubit_ordering} with only whitelisted observables", \
            "reorder-flag-lost", 0
    return None, None, near


def jd(x) -> str:
    return json.dumps(x, default=str)
