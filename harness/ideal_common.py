"""Shared pieces of the C01 / C16 / C28 checks (package `ideal`): case generators for hand-built
`SequenceData`, the recorder that wraps the real `SVBackendImpl`'s stepper, the schedule
correspondence with `Model.SvLoop`, and independent dense references (Hamiltonian, Liouvillian)
written from the *convention* (never calling emu-sv's operator code).

Basis convention (emu_sv/hamiltonian.py, state_vector.py): index bit of atom 0 is the most
significant, g = 0, r = 1; <r|H|g> = (Ω/2) e^{iφ}, i.e. in this (g, r) ordering
H = Σ (Ω_j/2)(cos φ_j σx + sin φ_j σy) − Σ δ_j n_j + Σ_{i<j} U_ij n_i n_j, which is Pulser's
(Ω/2)(cos φ σx − sin φ σy) written in Pulser's (r, g) ordering.
"""
from __future__ import annotations

import math

import numpy as np

from harness.common import Driver, LeanError, Report, f2b, b2f, lst

COEFF = 0.001          # what the *property* says: Ω, δ in rad/µs, times in ns
HALF = 0.5


# ------------------------------------------------------------------ generators
def gen_grid(rng, nsteps):
    """strictly increasing grid starting at 0 with an integer final time; non-uniform, with
    fractional interior points (what `_get_target_times` produces for fractional dt)."""
    kind = rng.choice(["uniform", "nonuniform", "nonuniform", "fractional", "tiny"])
    if kind == "uniform":
        dt = rng.choice([1.0, 2.0, 5.0, 10.0, 0.5, 12.5])
        ts = [k * dt for k in range(nsteps + 1)]
    elif kind == "tiny":
        ts = [0.0]
        for _ in range(nsteps):
            ts.append(ts[-1] + rng.choice([0.25, 0.5, 1.0, 0.125]))
    else:
        ts = [0.0]
        for _ in range(nsteps):
            d = rng.choice([1.0, 3.0, 7.0, 10.0, 20.0, 37.0]) if kind == "nonuniform" else rng.uniform(0.3, 25.0)
            ts.append(ts[-1] + d)
    if kind != "tiny" and ts[-1] != math.floor(ts[-1]):
        ts[-1] = float(math.floor(ts[-1]) + 1)
    return kind, [float(t) for t in ts]


def gen_case(rng, *, nmin=1, nmax=6, max_steps=6, noisy=False, scale=1.0, want_delay=False):
    """One run: n atoms, per-atom drives (rows pairwise distinct), U, SLM mask ending inside a
    step, optional initial state. Everything is plain Python / numpy (serialisable)."""
    n = rng.randint(nmin, nmax)
    nsteps = rng.randint(1, max_steps)
    gkind, times = gen_grid(rng, nsteps)
    amp = rng.choice([1.0, 6.0, 12.0, 25.0]) * scale
    omega = [[rng.uniform(0.0, amp) for _ in range(n)] for _ in range(nsteps)]
    delta = [[rng.uniform(-amp, amp) for _ in range(n)] for _ in range(nsteps)]
    pmode = rng.choice(["zero", "const", "rand", "rand"])
    if pmode == "zero":
        phi = [[0.0] * n for _ in range(nsteps)]
    elif pmode == "const":
        p = rng.uniform(-3.0, 3.0)
        phi = [[p] * n for _ in range(nsteps)]
    else:
        phi = [[rng.uniform(-3.2, 3.2) for _ in range(n)] for _ in range(nsteps)]
    # make rows pairwise distinct in every table (identification of the row index by content)
    for k in range(nsteps):
        omega[k][0] += 1e-3 * (k + 1)
        delta[k][0] += 1e-3 * (k + 1)
        if pmode != "zero":
            phi[k][0] += 1e-3 * (k + 1)
    # pulse / delay / pulse: one or two laser-off steps (exact zeros in omega AND delta, phi = 0) after the
    # first pulse — the interaction keeps acting there
    delay = []
    if want_delay or (n >= 2 and nsteps >= 3 and rng.random() < 0.2):
        first = rng.randrange(1, max(2, nsteps - 1))
        delay = [k for k in range(first, min(nsteps, first + rng.choice([1, 1, 2]))) if k >= 1]
        for k in delay:
            omega[k], delta[k], phi[k] = [0.0] * n, [0.0] * n, [0.0] * n
    U = np.zeros((n, n))
    ustr = (rng.choice([8.0, 40.0]) if delay else rng.choice([0.0, 1.0, 8.0, 40.0])) * scale
    for i in range(n):
        for j in range(i + 1, n):
            U[i, j] = U[j, i] = rng.uniform(0.0, ustr)
    slm = rng.random() < 0.6 and n >= 1
    masked = U.copy()
    slm_end = 0.0
    if slm:
        for a in range(n):
            if rng.random() < 0.5:
                masked[a, :] = 0.0
                masked[:, a] = 0.0
        masked = masked + 0.0
        # inside a step, exactly on a grid point, before 0 / after the end
        where = rng.choice(["inside", "inside", "inside", "grid", "mid", "past"])
        k = rng.randrange(nsteps)
        if where == "inside":
            slm_end = times[k] + (times[k + 1] - times[k]) * rng.choice([0.1, 0.3, 0.5, 0.7, 0.9])
        elif where == "mid":
            slm_end = 0.5 * (times[k] + times[k + 1])
        elif where == "grid":
            slm_end = times[rng.randrange(len(times))]
        else:
            slm_end = times[-1] + 5.0
    init = None
    if rng.random() < 0.4:
        dim = 2 ** n if not noisy else 2 ** n
        re = [rng.gauss(0, 1) for _ in range(dim)]
        im = [rng.gauss(0, 1) for _ in range(dim)]
        init = (re, im)
    return dict(n=n, nsteps=nsteps, grid_kind=gkind, times=times, omega=omega, delta=delta, phi=phi, pmode=pmode,
                U=U.tolist(), masked=masked.tolist(), slm_end=float(slm_end), init=init, delay=delay)


def build(case, *, lindblad_ops=None):
    """SequenceData with a *recording* interaction callable."""
    import torch
    from harness import compat
    from emu_base.pulser_adapter import _InteractionMatrixCallable

    class RecCallable(_InteractionMatrixCallable):
        def __init__(self, full, masked, end):
            super().__init__(full, masked, end)
            self.queries = []

        def __call__(self, t):
            m = super().__call__(t)
            self.queries.append((float(t), m is self.masked_matrix))
            return m

    f64 = lambda x: np.array(x, dtype=np.float64)   # (a Python list would go through float32 in compat)
    data = compat.make_sequence_data(f64(case["omega"]), f64(case["delta"]), f64(case["phi"]), f64(case["U"]),
                                     case["times"], masked_U=f64(case["masked"]), slm_end_time=case["slm_end"],
                                     lindblad_ops=lindblad_ops,
                                     **(dict(bad_atoms=[bool(b) for b in case["bad"]], state_prep_error=float(case["spe"]))
                                        if case.get("bad") else {}))
    rec = RecCallable(data.interaction_matrix.full_matrix, data.interaction_matrix.masked_matrix,
                      data.interaction_matrix.slm_end_time)
    object.__setattr__(data, "interaction_matrix", rec)
    return data, rec


def _vec(re, im):
    v = np.array(re, dtype=float) + 1j * np.array(im, dtype=float)
    return v / np.linalg.norm(v)


def psi0(case):
    """the initial vector the run starts from: |g…g>, or the user's vector — normalised and then scaled by
    `init_scale` (the constructor neither rejects nor normalises, and the evolution is linear)"""
    n = case["n"]
    if case.get("init") is None:
        v = np.zeros(2 ** n, dtype=complex)
        v[0] = 1.0
        return v
    return _vec(*case["init"]) * float(case.get("init_scale", 1.0))


def rho0(case):
    """initial density matrix: |g…g><g…g|, the projector of `init`, or the mixture `init_mixed` = [(p, re, im)…]"""
    if case.get("init_mixed"):
        d = 2 ** case["n"]
        r = np.zeros((d, d), dtype=complex)
        for p, re, im in case["init_mixed"]:
            v = _vec(re, im)
            r += p * np.outer(v, v.conj())
        return r
    v = psi0(case)
    return np.outer(v, v.conj())


def initial_state(case, noisy=False):
    import torch
    if case.get("init") is None and not case.get("init_mixed"):
        return None
    if noisy:
        from emu_sv.density_matrix_state import DensityMatrix
        return DensityMatrix(torch.tensor(rho0(case), dtype=torch.complex128), gpu=False)
    from emu_sv.state_vector import StateVector
    return StateVector(torch.tensor(psi0(case), dtype=torch.complex128), gpu=False)


# ------------------------------------------------------------------ recorder around the real loop
class Recorder:
    """Stands in for `impl.stepper`: forwards to the real stepper, records every call."""

    def __init__(self, impl, rec_callable, log):
        self.real = impl.stepper
        self.impl = impl
        self.rc = rec_callable
        self.log = log
        self.hist = {}          # id(tensor) -> rows applied so far
        self.keep = []          # keep tensors alive so ids are not reused
        self.calls = []         # raw argument records (for the oracles)
        self.problems = []
        self.kernel_calls = [0]   # shared counter, incremented by the wrapped krylov_exp

    def _row_of(self, table, arg):
        """index of the row handed over: by storage position when `arg` is a view into the table (what
        `table[k]` is — rows need not be distinct), by content otherwise"""
        import torch
        try:
            off = arg.data_ptr() - table.data_ptr()
            stride = table.stride(0) * table.element_size()
            if stride > 0 and off % stride == 0 and 0 <= off // stride < table.shape[0] \
                    and arg.shape == table[0].shape and torch.equal(table[off // stride], arg):
                return int(off // stride)
        except Exception:
            pass
        hits = [k for k in range(table.shape[0]) if torch.equal(table[k], arg)]
        return hits[0] if len(hits) == 1 else -1 - len(hits)

    def apply(self, dt, omegas, deltas, phis, U, state, tol, lindblads):
        impl = self.impl
        ro, rd, rp = self._row_of(impl.omega, omegas), self._row_of(impl.delta, deltas), self._row_of(impl.phi, phis)
        if not (ro == rd == rp and ro >= 0):
            self.problems.append(f"rows of omega/delta/phi differ: {ro},{rd},{rp}")
        q = self.rc.queries[-1] if self.rc.queries else (float("nan"), False)
        full, masked = self.rc.full_matrix, self.rc.masked_matrix
        filt = getattr(impl, "well_prepared_qubits_filter", None)
        if filt is not None:
            # badly prepared atoms: the stepper must get the queried matrix with every entry that touches a bad atom
            # zeroed (rows AND columns: the Hamiltonians read the upper triangle)
            import torch
            expected = (masked if q[1] else full).clone()
            expected[filt, :] = 0.0
            expected[:, filt] = 0.0
            if not torch.equal(U, expected):
                touching = float(max(U[filt, :].abs().max(), U[:, filt].abs().max())) if bool(filt.any()) else 0.0
                self.problems.append(f"interaction matrix handed to the stepper at step {self.cur_idx} is not the queried one with the "
                                     f"badly prepared atoms' rows and columns zeroed (largest entry touching a bad atom: {touching:.3g})")
        elif not ((q[1] and U is masked) or ((not q[1]) and U is full) or full is masked):
            self.problems.append("interaction matrix handed to the stepper is not the one just queried")
        if tol != impl._config.krylov_tolerance:
            self.problems.append("krylov tolerance handed to the stepper differs from the configured one")
        h_in = self.hist.get(id(state))
        if h_in is None:
            h_in = []
            if self.calls:
                self.problems.append("state handed to the stepper is not the output of the previous step")
        k0 = self.kernel_calls[0]
        out, ham = self.real.apply(dt, omegas, deltas, phis, U, state, tol, lindblads)
        if self.kernel_calls[0] - k0 != 1:
            self.problems.append(f"stepper.apply ran the exponentiation kernel (krylov_exp) {self.kernel_calls[0] - k0} times "
                                 f"at step {self.cur_idx} (the model's expStep is one exponentiation per step)")
        self.keep += [state, out]
        self.hist[id(out)] = h_in + [ro]
        self.log.append(["s", self.cur_idx, float(dt), ro, q[1], q[0]])
        self.calls.append(dict(dt=float(dt), row=ro, masked=q[1], t=q[0]))
        return out, ham

    def get_hamiltonian(self, **kw):
        q = self.rc.queries[-1] if self.rc.queries else (float("nan"), False)
        self.log.append(["h", self._row_of(self.impl.omega, kw["omegas"]), q[1], q[0]])
        return self.real.get_hamiltonian(**kw)


def run_recorded(case, config_kw, *, lindblad_ops=None, noisy=False, observables=None, config=None):
    """Run the real SVBackendImpl with the recorder installed. Returns a dict with `status`
    (`ok`, `err:index`, `err:zerodiv`), the event log, the results, the config used (pass it back as
    `config=` to run a second time with the *same* config / initial-state object) and
    `init_unchanged` (is the caller's initial-state tensor bit-for-bit what it was before the run?)."""
    import torch
    from unittest import mock
    from harness import compat
    from emu_sv.sv_backend_impl import SVBackendImpl
    import emu_sv.time_evolution as te

    data, rc = build(case, lindblad_ops=lindblad_ops)
    out = dict(log=[], status="ok", problems=[], results=None, impl=None, rec=None, rc=rc, data=data, config=None,
               init_unchanged=None)
    counter = [0]
    real_krylov = te.krylov_exp

    def counting_krylov(*a, **k):
        counter[0] += 1
        return real_krylov(*a, **k)
    try:
        if config is None:
            kw = dict(config_kw)
            st0 = initial_state(case, noisy=noisy)
            if st0 is not None:
                kw["initial_state"] = st0
            if observables is not None:
                kw["observables"] = observables
            config = compat.sv_config(**kw)
        out["config"] = config
        user_state = config.initial_state
        before = user_state.data.clone() if user_state is not None else None
        impl = SVBackendImpl(config, data)
        log = out["log"]
        rec = Recorder(impl, rc, log)
        rec.kernel_calls = counter
        impl.stepper = rec
        out["impl"], out["rec"] = impl, rec

        real_obs, real_is, real_ev = impl._apply_observables, impl._is_evaluation_time, impl._evolve_step

        def obs(idx):
            log.append(["o", idx, None])
            return real_obs(idx)

        def is_eval(observable, t, tolerance=1e-10):
            if log and log[-1][0] == "o" and log[-1][2] is None:
                log[-1][2] = float(t)
            return real_is(observable, t, tolerance)

        def evolve(dt, step_idx):
            rec.cur_idx = step_idx
            return real_ev(dt, step_idx)

        impl._apply_observables, impl._is_evaluation_time, impl._evolve_step = obs, is_eval, evolve
        try:
            with mock.patch.object(te, "krylov_exp", counting_krylov):
                out["results"] = impl._run()
        finally:
            if before is not None:
                out["init_unchanged"] = bool(before.shape == user_state.data.shape
                                             and torch.equal(before.view(torch.float64), user_state.data.view(torch.float64)))
        out["final_hist"] = rec.hist.get(id(impl.state.data), [] if not rec.calls else None)
        out["problems"] = rec.problems
    except IndexError:
        out["status"] = "err:index"
    except ZeroDivisionError:
        out["status"] = "err:zerodiv"
    return out


def impl_line(out):
    """Canonical text of what the real loop did — same format as `svloop.run`'s reply."""
    if out["status"] != "ok":
        return out["status"]
    evs, h = [], "none"
    for e in out["log"]:
        if e[0] == "o":
            evs.append(f"o:{e[1]}:{f2b(e[2]) if e[2] is not None else '?'}")
        elif e[0] == "s":
            evs.append(f"s:{e[1]}:{f2b(e[2])}:{e[3]}:{'1' if e[4] else '0'}:{f2b(e[5])}")
        else:
            h = f"h:{e[1]}:{'1' if e[2] else '0'}:{f2b(e[3])}"
    fh = out.get("final_hist")
    return f"ok {';'.join(evs)} {lst(str(r) for r in fh) if fh is not None else '?'} {h}"


def model_line(case):
    return " ".join(["svloop.run", f2b(COEFF), f2b(HALF), f2b(case["slm_end"]), lst(f2b(t) for t in case["times"]),
                     str(case["nsteps"])])


def compare_schedule(rep: Report, tag: str, cases, outs, obs0_due):
    """Batch the model, diff line by line. `obs0_due[i]` tells whether some callback was due at
    index 0 (only then does the code build the index-0 Hamiltonian)."""
    try:
        mo = Driver().batch([model_line(c) for c in cases])
    except LeanError as e:
        rep.broke("driver: " + str(e)[-800:])
        return 0
    bad = 0
    for c, o, m, due in zip(cases, outs, mo, obs0_due):
        il = impl_line(o)
        ml = m
        if m.startswith("ok ") and not due:
            ml = " ".join(m.split(" ")[:-1] + ["none"])
        if il != ml or o["problems"]:
            bad += 1
            if bad <= 3:
                rep.broke(f"correspondence {tag} Model.SvLoop vs SVBackendImpl._run: times={c['times']} nsteps={c['nsteps']} "
                          f"slm_end={c['slm_end']} problems={o['problems'][:2]} model={ml[:300]} impl={il[:300]}")
    rep.extra[f"{tag}_schedule_disagreements"] = bad
    return bad


def single_steps(rep: Report, tag: str, rng, cases, per_case=3):
    """`step(k)` called directly on a fresh real `SVBackendImpl` for arbitrary k (out of order, out of
    range) against `Model.SvLoop.step` — the statement-by-statement tie from unreachable loop states."""
    from harness import compat
    from emu_sv.sv_backend_impl import SVBackendImpl
    lines, impl_out = [], []
    for case in cases:
        for _ in range(per_case):
            k = rng.choice([0, case["nsteps"] - 1, case["nsteps"], case["nsteps"] + 1, rng.randrange(case["nsteps"] + 2)])
            data, rc = build(case)
            log = []
            try:
                impl = SVBackendImpl(compat.sv_config(krylov_tolerance=1e-8, observables=_any_obs()), data)
                rec = Recorder(impl, rc, log)
                rec.cur_idx = k
                impl.stepper = rec
                real_obs, real_is = impl._apply_observables, impl._is_evaluation_time

                def obs(idx, log=log, real_obs=real_obs):
                    log.append(["o", idx, None])
                    return real_obs(idx)

                def is_eval(observable, t, tolerance=1e-10, log=log, real_is=real_is):
                    if log and log[-1][0] == "o" and log[-1][2] is None:
                        log[-1][2] = float(t)
                    return real_is(observable, t, tolerance)
                impl._apply_observables, impl._is_evaluation_time = obs, is_eval
                impl.step(k)
                out = "ok " + ";".join(
                    (f"s:{e[1]}:{f2b(e[2])}:{e[3]}:{'1' if e[4] else '0'}:{f2b(e[5])}" if e[0] == "s"
                     else f"o:{e[1]}:{f2b(e[2]) if e[2] is not None else '?'}") for e in log if e[0] in "so")
            except IndexError:
                out = "err:index"
            except ZeroDivisionError:
                out = "err:zerodiv"
            lines.append(" ".join(["svloop.step", f2b(COEFF), f2b(case["slm_end"]), lst(f2b(t) for t in case["times"]),
                                   str(case["nsteps"]), str(k)]))
            impl_out.append(out)
    try:
        mo = Driver().batch(lines)
    except LeanError as e:
        rep.broke("driver: " + str(e)[-800:])
        return
    bad = 0
    for l, m, o in zip(lines, mo, impl_out):
        rep.case(key=("step", l), nontrivial=True)
        rep.hist(f"{tag}_single_step", o.split(" ")[0])
        if m != o:
            bad += 1
            if bad <= 3:
                rep.broke(f"correspondence {tag} Model.SvLoop.step vs SVBackendImpl.step: {l[:200]} model={m[:200]} impl={o[:200]}")
    rep.extra[f"{tag}_single_step_disagreements"] = bad


def _any_obs():
    from pulser.backend import Occupation
    return [Occupation(evaluation_times=[1.0])]


def malformed_cases(rng, k):
    """grids on which the real constructor / loop raises: too short, empty, final time 0."""
    out = []
    for _ in range(k):
        nsteps = rng.randint(1, 4)
        kind = rng.choice(["short", "short1", "empty", "zero", "negzero"])
        _, times = gen_grid(rng, nsteps)
        if kind == "short":
            times = times[: rng.randint(1, nsteps)]
            if times[-1] == 0.0:
                kind = "zero"
        elif kind == "short1":
            times = times[:nsteps]
            if times[-1] == 0.0:
                kind = "zero"
        elif kind == "empty":
            times = []
        elif kind == "zero":
            times = [-t for t in reversed(times)]
        else:
            times = [0.0] * 1
        c = gen_case(rng, nmin=1, nmax=2, max_steps=1)
        n = c["n"]
        c.update(nsteps=nsteps, times=times, omega=[[1.0 + k0] * n for k0 in range(nsteps)],
                 delta=[[0.5 + k0] * n for k0 in range(nsteps)], phi=[[0.0] * n for _ in range(nsteps)],
                 slm_end=0.0, init=None, grid_kind="malformed:" + kind)
        out.append(c)
    return out


# ------------------------------------------------------------------ dense references
SX = np.array([[0, 1], [1, 0]], dtype=complex)
SY = np.array([[0, -1j], [1j, 0]], dtype=complex)
NN = np.array([[0, 0], [0, 1]], dtype=complex)
I2 = np.eye(2, dtype=complex)


def embed(op, q, n):
    """I ⊗ … ⊗ op (atom q, atom 0 most significant) ⊗ … ⊗ I"""
    m = np.array([[1.0 + 0j]])
    for a in range(n):
        m = np.kron(m, op if a == q else I2)
    return m


def dense_h(om, de, ph, U):
    n = len(om)
    H = np.zeros((2 ** n, 2 ** n), dtype=complex)
    ns = [embed(NN, q, n) for q in range(n)]
    for q in range(n):
        H += (om[q] / 2.0) * (math.cos(ph[q]) * embed(SX, q, n) + math.sin(ph[q]) * embed(SY, q, n))
        H -= de[q] * ns[q]
    for i in range(n):
        for j in range(i + 1, n):
            if U[i][j] != 0.0:
                H += U[i][j] * (ns[i] @ ns[j])
    return H


def piecewise(case):
    """[(dt_µs, H_k)] of the piecewise-constant Hamiltonian the property defines: interval k uses
    drive row k and the interaction matrix in force at its start (masked while t_k < slm_end)."""
    out = []
    t = case["times"]
    bad = case.get("bad") or [False] * case["n"]
    z = lambda row: [0.0 if bad[q] else row[q] for q in range(case["n"])]
    for k in range(case["nsteps"]):
        U = case["masked"] if t[k] < case["slm_end"] else case["U"]
        # a badly prepared atom is not driven and does not interact (it still feels its own noise channels)
        U = [[0.0 if (bad[i] or bad[j]) else U[i][j] for j in range(case["n"])] for i in range(case["n"])]
        out.append(((t[k + 1] - t[k]) * COEFF, dense_h(z(case["omega"][k]), z(case["delta"][k]), z(case["phi"][k]), U)))
    return out


def liouvillian(H, jumps):
    """row-major vec: vec(AρB) = (A ⊗ Bᵀ) vec(ρ).  𝓛 = −i[H,·] + Σ (L·L† − ½{L†L,·})"""
    d = H.shape[0]
    I = np.eye(d, dtype=complex)
    S = -1j * (np.kron(H, I) - np.kron(I, H.T))
    for L in jumps:
        K = L.conj().T @ L
        S += np.kron(L, L.conj()) - 0.5 * (np.kron(K, I) + np.kron(I, K.T))
    return S


def ser_case(case, **extra):
    d = {k: v for k, v in case.items()}
    d.update(extra)
    return d
