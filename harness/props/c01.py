"""C01 — emu-sv noiseless runs reproduce the piecewise-constant Hamiltonian dynamics (PARTIAL).

Lean: EmuVerif.Props.C01 (schedule theorem for every grid/table/kernel/scalar; error accumulation
in any seminormed group; end-to-end bound given the Krylov contract). Correspondence: the real
`SVBackendImpl._run` on hand-built SequenceData with `stepper.apply`, `get_hamiltonian`, the
interaction callable, `_apply_observables`, `_is_evaluation_time` and `_evolve_step` wrapped (real
calls, arguments recorded) against `Model.SvLoop` line by line (dt and normalised times bit-exact).
Oracle (always on, real code): dense `scipy.linalg.expm` propagation of the same SequenceData with
a Hamiltonian built independently from the convention.
"""
from __future__ import annotations

import json

import numpy as np

from harness.common import Report, lean_stage, seeded
from harness import ideal_common as ic

REGISTRY = dict(
    text=("PARTIAL. Lean 4 theorems about Model.SvLoop (the emu-sv run loop with abstract state and abstract "
          "exponentiation kernel), for every grid, parameter table, interaction callable and scalar type: run_schedule / "
          "schedule_pointwise — the loop exponentiates exactly the sampled piecewise-constant schedule "
          "(k, (t[k+1]-t[k])*0.001, row k, U(t[k])), in order, once each, offers the state to the observables at index 0 and "
          "after every step, and fails (IndexError/ZeroDivisionError) exactly on short/empty/zero-duration grids; "
          "error_accumulation — in any seminormed group, additive norm-preserving exact steps and computed steps within "
          "eps*|x| differ by at most ((1+eps)^n-1)*|psi0| after n steps; end_to_end_partial — on EuclideanSpace C^d with "
          "the exact propagators exp(-i dt_k H_k) (unitarity proved, C28) the state at every evaluation index is within "
          "((1+eps)^k-1)*|psi0| of exact piecewise-constant evolution GIVEN the per-step Krylov contract. ASSUMED: C07 "
          "accuracy clause composed with C06 (KrylovContract), C13 observables, C21-C23 inputs, float rounding. The full "
          "statement is FullClaim (not proved). 'Agrees with Pulser's reference emulator' cannot be checked "
          "(pulser-simulation/QuTiP not installed): replaced by a dense scipy expm reference on the real code."),
    note=("Trusted: Lean kernel + propext/Classical.choice/Quot.sound; Mathlib; hand-written Model.SvLoop tied to "
          "sv_backend_impl.py by the recorded-schedule correspondence only; Krylov accuracy, operator=dense H, observables "
          "validated numerically by the dense reference (tolerance nsteps*(10*krylov_tolerance+1e-9)+1e-10), not proved."),
    technique="Lean 4 proof (list induction; normed-space induction) + exact schedule correspondence + dense expm oracle",
    design_ref="DESIGN.md §5 C01",
)

PROP_MODULE = "EmuVerif.Props.C01"
AUDIT = "Audit/C01.lean"
ROUND = 1e-10          # rounding allowance of the statement's "(plus rounding)"
STEP_ROUND = 1e-9      # per exponentiation, as in C07's oracle


def tol_of(k, kt):
    """error allowed after k steps: k · (10 · krylov_tolerance + 1e-9) — C07's per-step contract as its
    oracle states it ("ten times the tolerance relative to |v| plus rounding", rounding = 1e-9·|v| per
    exponentiation; first order of ((1+ε)^k − 1)) — plus 1e-10 for the observables' own arithmetic."""
    return k * (10.0 * kt + STEP_ROUND) + ROUND


def observables(case, with_zero=True):
    from pulser.backend import StateResult, Energy, EnergySecondMoment, Occupation
    T = case["times"][-1] if case["times"] else 0.0
    ev = [t / T for t in case["times"]] if T > 0 else [1.0]   # malformed grids: any valid list
    if not with_zero:
        ev = ev[1:]
    return [StateResult(evaluation_times=ev), Occupation(evaluation_times=ev), Energy(evaluation_times=ev),
            EnergySecondMoment(evaluation_times=ev)]


def run_case(case, config=None):
    kt = case["kt"]
    return ic.run_recorded(case, dict(krylov_tolerance=kt), observables=observables(case, case["obs0"]), config=config)


def oracle(case, out):
    """The statement of C01 on one real run: state, occupation, energy, second moment at every
    evaluation time against exact piecewise-constant evolution. Returns (msg|None, worst ratio)."""
    from scipy.linalg import expm
    res = out["results"]
    kt = case["kt"]
    T = case["times"][-1]
    n = case["n"]
    pw = ic.piecewise(case)
    psi = ic.psi0(case)
    exact = [psi]
    for dt, H in pw:
        psi = expm(-1j * dt * H) @ psi
        exact.append(psi)
    first = 0 if case["obs0"] else 1
    want_times = [t / T for t in case["times"]][first:]
    worst = 0.0
    scale = float(np.linalg.norm(exact[0]))          # 1 unless the user handed in an unnormalised vector
    state_only = abs(scale - 1.0) > 1e-12            # (accepted as is; the evolution is linear: compare the state)
    got_times = res.get_result_times("state")
    if len(got_times) != len(want_times) or any(abs(a - b) > 1e-9 for a, b in zip(got_times, want_times)):
        return f"state reported at times {got_times}, expected the grid {want_times}", worst
    nops = [np.real(np.diag(ic.embed(ic.NN, q, n))) for q in range(n)]
    for pos, k in enumerate(range(first, len(case["times"]))):
        allowed = tol_of(k, kt) * max(scale, 1.0)
        v = res.state[pos].data.numpy()
        err = float(np.linalg.norm(v - exact[k]))
        worst = max(worst, err / allowed)
        if not err <= allowed:
            return f"state at index {k} (t={case['times'][k]}) differs from exact evolution by {err:.3e} > {allowed:.3e}", worst
        if state_only:
            continue
        occ = res.occupation[pos].numpy()
        occ_ex = np.array([float(np.sum(nops[q] * np.abs(exact[k]) ** 2)) for q in range(n)])
        eo = float(np.max(np.abs(occ - occ_ex)))
        worst = max(worst, eo / (2 * allowed))
        if not eo <= 2 * allowed:
            return f"occupation at index {k} differs from exact by {eo:.3e} > {2 * allowed:.3e}", worst
        # energy observables use the Hamiltonian of the step that ended at k (index 0: row 0 and the
        # interaction matrix at the mid-point of step 0, as the code documents)
        if k == 0:
            t0, t1 = case["times"][0], case["times"][1]
            U = case["masked"] if 0.5 * (t0 + t1) < case["slm_end"] else case["U"]
            H = ic.dense_h(case["omega"][0], case["delta"][0], case["phi"][0], U)
        else:
            H = pw[k - 1][1]
        hn = max(1.0, float(np.linalg.norm(H, 2)))
        e_ex = float(np.real(np.vdot(exact[k], H @ exact[k])))
        e2_ex = float(np.real(np.vdot(exact[k], H @ (H @ exact[k]))))
        ee = abs(float(res.energy[pos]) - e_ex)
        e2 = abs(float(res.energy_second_moment[pos]) - e2_ex)
        worst = max(worst, ee / (2 * hn * allowed), e2 / (2 * hn * hn * allowed))
        if not ee <= 2 * hn * allowed:
            return f"energy at index {k} differs from exact by {ee:.3e} > {2 * hn * allowed:.3e}", worst
        if not e2 <= 2 * hn * hn * allowed:
            return f"energy second moment at index {k} differs from exact by {e2:.3e} > {2 * hn * hn * allowed:.3e}", worst
    return None, worst


KLASS = "krylov-early-accept-weak-drive"

# Witness of finding D20-C01 (see known_findings.d/ideal.json): one atom in |g>, a weak drive next to
# a large detuning (the first sample of any amplitude ramp that starts at 0), one 1 ns step.
WITNESS = dict(n=1, nsteps=1, grid_kind="witness", times=[0.0, 1.0], omega=[[0.02]], delta=[[-30.0]], phi=[[0.0]],
               pmode="zero", U=[[0.0]], masked=[[0.0]], slm_end=0.0, init=None, kt=1e-10, obs0=True)


def classify(case, msg, out=None):
    """Narrow witness class of an oracle failure. `krylov-early-accept-weak-drive` iff for some step of
    the run, started from the *exact* state, the real `krylov_exp_impl` (a) returns converged, not by
    happy breakdown, (b) is off by more than the per-step allowance (10·tol + 1e-9)·|v|, and (c) would
    NOT have accepted had its Expokit estimate used Expokit's norm |A v_{j+1}| (v_{j+1} = the newest
    Krylov vector) instead of n = |A v_j|: the estimate recomputed from the very `matrix_exp` output
    the code accepted on is >= tol. Anything else is unclassified (→ VIOLATION)."""
    import torch
    from unittest import mock
    from scipy.linalg import expm
    from emu_base.math.krylov_exp import krylov_exp_impl
    psi = ic.psi0(case)
    real_me = torch.linalg.matrix_exp
    hit, pred, exacts = False, [0.0], [psi]
    for dt, H in ic.piecewise(case):
        A = torch.tensor(-1j * dt * H)
        seen, exps = [], []

        def op(x, A=A, seen=seen):
            seen.append(x.clone())
            return A @ x

        def me(x, exps=exps):
            r = real_me(x)
            exps.append(r.clone())
            return r
        v = torch.tensor(psi)
        with mock.patch.object(torch.linalg, "matrix_exp", me):
            r = krylov_exp_impl(op, v.clone(), is_hermitian=True, exp_tolerance=case["kt"], norm_tolerance=case["kt"])
        exact = expm(-1j * dt * H) @ psi
        err = float(np.linalg.norm(r.result.numpy() - exact))
        if r.converged and not r.happy_breakdown and err > (10 * case["kt"] + 1e-9) * float(np.linalg.norm(psi)):
            j = r.iteration_count - 1
            w = A @ seen[-1]
            for u in seen:
                w = w - torch.vdot(u, w) * u
            if float(w.norm()) > 0 and exps:
                avnorm = float((A @ (w / w.norm())).norm())
                expd = exps[-1]
                err1, err2 = abs(complex(expd[j + 1, 0])), abs(complex(expd[j + 2, 0])) * avnorm
                est = err1 if err1 < err2 else err1 * err2 / (err1 - err2)
                if est >= case["kt"]:
                    hit = True
        pred.append(pred[-1] + err)
        exacts.append(exact)
        psi = exact
    if not hit:
        return None
    if out is not None and out.get("results") is not None:
        # the mechanism must also explain the *size* of what was observed (3x the summed per-step errors + allowance)
        first = 0 if case["obs0"] else 1
        scale = max(float(np.linalg.norm(exacts[0])), 1.0)
        for pos, k in enumerate(range(first, len(case["times"]))):
            v = out["results"].state[pos].data.numpy()
            if float(np.linalg.norm(v - exacts[k])) > 3.0 * pred[k] + tol_of(k, case["kt"]) * scale:
                return None
    return KLASS


# ------------------------------------------------------------------ real Pulser sequences through the real adapter
def gen_pulser(rng):
    """rydberg_global + a detuning map (DMM) with unequal weights, or + an SLM mask; constant pulses whose
    durations are multiples of the step, so that every step lies inside one pulse and the per-atom sample
    of the step is unambiguous (no interpolation convention enters the reference)."""
    n = rng.randint(2, 4)
    dt = rng.choice([10, 20])
    coords = [(7.0 * j + rng.uniform(-0.8, 0.8), rng.uniform(-1.5, 1.5)) for j in range(n)]
    pulses = [(rng.choice([20, 40, 60]), rng.uniform(3.0, 12.0), rng.uniform(-8.0, 8.0), rng.choice([0.0, rng.uniform(0.0, 6.0)]))
              for _ in range(rng.randint(1, 3))]
    kind = rng.choice(["dmm", "dmm", "slm"])
    weights = [rng.uniform(0.05, 1.0) for _ in range(n)]
    weights[0] = min(weights[0], 0.3)
    weights[-1] = max(weights[-1], 0.7)                       # atom 0 and the last atom see clearly different detunings
    masked = sorted(rng.sample(range(n), rng.randint(1, n - 1))) if kind == "slm" else []
    return dict(n=n, dt=dt, coords=coords, pulses=pulses, kind=kind, weights=weights, dmm_det=-rng.uniform(5.0, 30.0),
                slm_targets=masked, kt=rng.choice([1e-8, 1e-10]), grid_kind="pulser:" + kind)


def build_pulser(case):
    import pulser
    from pulser.devices import MockDevice
    ids = [f"q{j}" for j in range(case["n"])]
    reg = pulser.Register(dict(zip(ids, case["coords"])))
    seq = pulser.Sequence(reg, MockDevice)
    seq.declare_channel("ch", "rydberg_global")
    if case["kind"] == "dmm":
        seq.config_detuning_map(reg.define_detuning_map(dict(zip(ids, case["weights"]))), "dmm_0")
    else:
        seq.config_slm_mask([ids[j] for j in case["slm_targets"]])
    for dur, amp, det, ph in case["pulses"]:
        seq.add(pulser.Pulse.ConstantPulse(dur, amp, det, ph), "ch")
    if case["kind"] == "dmm":
        seq.add_dmm_detuning(pulser.ConstantWaveform(sum(p[0] for p in case["pulses"]), case["dmm_det"]), "dmm_0")
    return seq, ids


def run_pulser(case):
    """real Sequence -> real PulserData (adapter) -> SequenceData -> emu-sv; the reference is built from
    pulser's own per-atom samples (`to_nested_dict(all_local=True)`), the register distances and the device's
    C6 — nothing from the adapter. Returns (msg|None, worst ratio)."""
    import logging
    import warnings
    import torch
    import harness.pytest_compat  # noqa: F401  (squeezes the (1,N,N) interaction matrix of pulser-core 1.9.1)
    from harness import compat
    from pulser.backend import StateResult, Occupation
    from pulser.devices import MockDevice
    from pulser.sampler import sample
    from emu_base.pulser_adapter import PulserData
    from emu_sv import SVConfig
    from scipy.linalg import expm
    seq, ids = build_pulser(case)
    n, dt = case["n"], case["dt"]
    with warnings.catch_warnings():
        warnings.simplefilter("ignore")
        smp = sample(seq)
        T = int(smp.max_duration)
        grid = [float(t) for t in range(0, T + 1, dt)]
        ev = [t / T for t in grid]
        cfg = SVConfig(gpu=False, log_level=logging.ERROR, dt=dt, krylov_tolerance=case["kt"],
                       observables=[StateResult(evaluation_times=ev), Occupation(evaluation_times=ev)])
        data = list(PulserData(sequence=seq, config=cfg, dt=dt).get_sequences())[0]
        res = compat.run_sv(data, cfg)
        loc = smp.to_nested_dict(all_local=True, samples_type="tensor")["Local"]["ground-rydberg"]
    # the adapter's grid is the dt-grid up to its own rounding (i*dt/T*T, C21's business: 110.00000000000001)
    at = [float(t) for t in data.target_times]
    if len(at) != len(grid) or any(abs(a - b) > 1e-9 * T for a, b in zip(at, grid)):
        return f"adapter grid {at} is not the dt-grid {grid}", 0.0
    sig = {q: {k: torch.as_tensor(loc[q][k]).real.to(torch.float64).numpy() for k in ("amp", "det", "phase")} for q in ids}
    c6 = float(MockDevice.interaction_coeff)
    U = [[0.0] * n for _ in range(n)]
    # interaction matrix: C6/r^6 from the coordinates must agree with the one pulser hands over to 1e-6 relative
    # (pulser-core computes it with float32-level rounding, 4e-7 observed; C23 owns that matrix) — the reference then
    # uses pulser's values so that the comparison isolates the *drives*
    F = torch.as_tensor(data.interaction_matrix.full_matrix).to(torch.float64).numpy()
    for i in range(n):
        for j in range(i + 1, n):
            r = float(np.hypot(case["coords"][i][0] - case["coords"][j][0], case["coords"][i][1] - case["coords"][j][1]))
            if abs(F[i, j] - c6 / r ** 6) > 1e-6 * c6 / r ** 6 or F[i, j] != F[j, i]:
                return f"interaction U[{i},{j}] = {F[i, j]!r} from the adapter, C6/r^6 = {c6 / r ** 6!r}", 0.0
            U[i][j] = U[j][i] = float(F[i, j])
    slm_end = float(seq._slm_mask_time[1]) if case["kind"] == "slm" and len(seq._slm_mask_time) > 1 else 0.0
    psi = np.zeros(2 ** n, dtype=complex)
    psi[0] = 1.0
    exact = [psi]
    for k in range(len(grid) - 1):
        a, b = int(grid[k]), int(grid[k + 1])
        row = {}
        for name in ("amp", "det", "phase"):
            vals = []
            for q in ids:
                seg = sig[q][name][a:b]
                if float(seg.max() - seg.min()) != 0.0:
                    return None, -1.0            # a step straddles a pulse edge: not judged (never by construction)
                vals.append(float(seg[0]))
            row[name] = vals
        Uk = [[(0.0 if (grid[k] < slm_end and (i in case["slm_targets"] or j in case["slm_targets"])) else U[i][j])
               for j in range(n)] for i in range(n)]
        H = ic.dense_h(row["amp"], row["det"], row["phase"], Uk)
        psi = expm(-1j * (b - a) * ic.COEFF * H) @ psi
        exact.append(psi)
    worst = 0.0
    nops = [np.real(np.diag(ic.embed(ic.NN, q, n))) for q in range(n)]
    if len(res.state) != len(grid):
        return f"{len(res.state)} states reported for {len(grid)} evaluation times", worst
    for k in range(len(grid)):
        allowed = tol_of(k, case["kt"])
        v = res.state[k].data.numpy()
        err = float(np.linalg.norm(v - exact[k]))
        worst = max(worst, err / allowed)
        if not err <= allowed:
            return (f"[real Pulser sequence, {case['kind']}] state at t={grid[k]} differs from exact evolution under the per-atom "
                    f"samples by {err:.3e} > {allowed:.3e}"), worst
        occ = res.occupation[k].numpy()
        occ_ex = np.array([float(np.sum(nops[q] * np.abs(exact[k]) ** 2)) for q in range(n)])
        eo = float(np.max(np.abs(occ - occ_ex)))
        if not eo <= 2 * allowed:
            return f"[real Pulser sequence, {case['kind']}] occupation at t={grid[k]} differs from exact by {eo:.3e}", worst
    return None, worst


# ------------------------------------------------------------------ large-step leg: right, or an explicit refusal
def large_step_leg(rep: Report, rng, tier: str) -> None:
    """dt·‖H‖ too large for the Krylov space. The only acceptable outcomes are (a) the state is within the usual
    tolerance of the dense exact evolution or (b) an explicit error (RecursionError) — never a silent wrong state.
    (1) the real `krylov_exp` with its public `max_krylov_dim` reduced to 5-15 on the dense −i·dt·H of 3-6 atoms;
    (2) real emu-sv runs (fixed 100 vectors) on 7-8 atoms with 0.5-2 µs steps."""
    import torch
    from scipy.linalg import expm
    from emu_base.math.krylov_exp import krylov_exp
    from harness import compat
    from pulser.backend import StateResult
    n1, n2 = (24, 3) if tier == "quick" else (600, 40)
    for _ in range(n1):
        c = ic.gen_case(rng, nmin=3, nmax=6, max_steps=1)
        kt = rng.choice([1e-8, 1e-10])
        dt = rng.choice([0.02, 0.1, 0.5, 2.0])                    # µs: from comfortable to hopeless
        kdim = rng.choice([5, 8, 10, 15])
        H = ic.dense_h(c["omega"][0], c["delta"][0], c["phi"][0], c["U"])
        A = torch.tensor(-1j * dt * H)
        c["init"] = c["init"] or ([rng.gauss(0, 1) for _ in range(2 ** c["n"])], [rng.gauss(0, 1) for _ in range(2 ** c["n"])])
        v = ic.psi0(c)
        data = ic.ser_case(c, stream="krylov_small_dim", dt_us=dt, max_krylov_dim=kdim, kt=kt)
        rep.case(key=("kdim", c["n"], dt, kdim, c["omega"][0][0]), nontrivial=True)
        msg = krylov_small_dim_outcome(data)
        rep.hist("large_step_krylov_exp", "refused:RecursionError" if msg == "refused" else ("ok" if msg is None else "wrong"))
        if msg not in (None, "refused"):
            rep.fail(msg, data)
    for _ in range(n2):
        c = ic.gen_case(rng, nmin=7, nmax=8, max_steps=2, scale=1.0)
        c["init"], c["slm_end"], c["kt"], c["obs0"] = None, 0.0, rng.choice([1e-8, 1e-10]), True
        dt = rng.choice([500.0, 1000.0, 2000.0])
        c["times"] = [dt * k for k in range(c["nsteps"] + 1)]
        c["grid_kind"] = "large-step"
        rep.case(key=("large", c["n"], dt, c["omega"][0][0]), nontrivial=True)
        try:
            out = run_case(c)
        except RecursionError:
            rep.hist("large_step_emu_sv", "refused:RecursionError")
            continue
        except Exception as e:
            rep.fail(f"real SVBackendImpl raised {type(e).__name__}: {e}", ic.ser_case(c))
            continue
        rep.hist("large_step_emu_sv", "completed")
        msg = oracle(c, out)[0] if out["status"] == "ok" else f"run failed with {out['status']}"
        if msg:
            rep.fail("[large step, run was not refused] " + msg, ic.ser_case(c), klass=classify(c, msg, out))


def krylov_small_dim_outcome(d):
    """one direct call of the real krylov_exp with a reduced max_krylov_dim; returns None (within tolerance),
    'refused' (RecursionError) or a failure message"""
    import torch
    from scipy.linalg import expm
    from emu_base.math.krylov_exp import krylov_exp
    H = ic.dense_h(d["omega"][0], d["delta"][0], d["phi"][0], d["U"])
    A = torch.tensor(-1j * d["dt_us"] * H)
    v = ic.psi0(d)
    try:
        r = krylov_exp(lambda x: A @ x, torch.tensor(v).clone(), exp_tolerance=d["kt"], norm_tolerance=d["kt"],
                       is_hermitian=True, max_krylov_dim=d["max_krylov_dim"])
    except RecursionError:
        return "refused"
    err = float(np.linalg.norm(r.numpy() - expm(-1j * d["dt_us"] * H) @ v))
    allowed = 10.0 * d["kt"] + STEP_ROUND
    if err <= allowed:
        return None
    return (f"krylov_exp(max_krylov_dim={d['max_krylov_dim']}) returned a state off by {err:.3e} > {allowed:.3e} for dt*|H| = "
            f"{d['dt_us'] * float(np.linalg.norm(H, 2)):.1f} instead of raising")


def gen(rng, nmax, max_steps):
    c = ic.gen_case(rng, nmin=1, nmax=nmax, max_steps=max_steps)
    c["kt"] = rng.choice([1e-6, 1e-8, 1e-10, 1e-10, 1e-12])
    c["obs0"] = rng.random() < 0.75
    if c["init"] is not None and rng.random() < 0.3:
        c["init_scale"] = rng.choice([0.5, 2.0, 1.001])     # user vectors are neither rejected nor normalised
    return c


def gen_delay(rng):
    """pulse / delay / pulse: a strong pulse creates Rydberg population on 2-4 interacting atoms, then the
    lasers are off (omega = delta = phi = 0 exactly) for one or two steps, then a second pulse. During
    the delay only Σ U_ij n_i n_j acts: the state at the end of the delay must carry its phases."""
    n = rng.randint(2, 4)
    ndelay = rng.choice([1, 1, 2])
    pre, post = rng.randint(1, 2), rng.randint(1, 2)
    nsteps = pre + ndelay + post
    dts = [rng.choice([10.0, 20.0, 37.0]) for _ in range(nsteps)]
    times = [0.0]
    for d in dts:
        times.append(times[-1] + d)
    omega = [[rng.uniform(8.0, 25.0) for _ in range(n)] for _ in range(nsteps)]
    delta = [[rng.uniform(-6.0, 6.0) for _ in range(n)] for _ in range(nsteps)]
    p = rng.choice([0.0, rng.uniform(-3.0, 3.0)])
    phi = [[p] * n for _ in range(nsteps)]
    delay = list(range(pre, pre + ndelay))
    for k in delay:
        omega[k], delta[k], phi[k] = [0.0] * n, [0.0] * n, [0.0] * n
    U = [[0.0] * n for _ in range(n)]
    for i in range(n):
        for j in range(i + 1, n):
            U[i][j] = U[j][i] = rng.uniform(5.0, 40.0)
    return dict(n=n, nsteps=nsteps, grid_kind="delay", times=times, omega=omega, delta=delta, phi=phi,
                pmode="zero" if p == 0.0 else "const", U=U, masked=[r[:] for r in U], slm_end=0.0, init=None,
                delay=delay, kt=rng.choice([1e-8, 1e-10]), obs0=True)


def check(rep: Report, tier: str, seed: int) -> None:
    rep.rule = ("cases = hand-built SequenceData: 1-8 atoms, 1-6 steps, uniform/non-uniform/fractional grids, per-atom "
                "omega/delta/phi rows (pairwise distinct), random U, SLM mask ending inside a step / on a grid point / at a "
                "mid-point / after the end, laser-off steps (omega = delta = 0 exactly, U != 0) incl. a dedicated pulse/delay/pulse "
                "stream, optional random initial state (also unnormalised: accepted as is) with a second run on the same "
                "config object and a bit-for-bit check of the caller's tensor, krylov_tolerance 1e-6..1e-12; real Pulser "
                "sequences (rydberg_global + detuning map with unequal weights, or + SLM mask) through the real PulserData "
                "adapter against a reference built from pulser's per-atom samples; a large-step leg (krylov_exp with "
                "max_krylov_dim 5-15, emu-sv 7-8 atoms with 0.5-2 us steps: within tolerance or RecursionError); malformed stream: "
                "short, empty, zero-duration grids. non-trivial = at least 2 steps; distinct = distinct (grid, slm_end, n)")
    rep.assumptions = [
        "C07 accuracy clause + C06 (KrylovContract: stepper.apply returns exp(-i dt H) psi within eps*|psi|) — assumed in "
        "end_to_end_partial, validated here by the dense expm oracle",
        "C13 (observables are functions of the state / last Hamiltonian), C21-C23 (grid, rows, matrices are the sampled ones)",
        "binary64 rounding is outside the theorems; allowance 1e-10 in the oracle",
        "agreement with Pulser's QuTiP reference emulator cannot be checked (pulser-simulation not installed)",
    ]
    lean_stage(rep, PROP_MODULE, AUDIT, thorough=(tier == "thorough"))
    rng = seeded(seed * 7919 + 101)
    import torch
    torch.manual_seed(seed)
    n_cases = 66 if tier == "quick" else 3000
    cases, outs, due = [], [], []
    worst = 0.0
    n_delay = 14 if tier == "quick" else 300
    for i in range(n_cases + n_delay):
        case = gen(rng, 8 if i % 7 == 0 else 6, 6) if i < n_cases else gen_delay(rng)
        try:
            out = run_case(case)
            if out["status"] == "ok" and case["init"] is not None:
                # a second run with the SAME config / initial-state object: the caller's tensor must not have
                # been touched by the first one, and the second run must be as right as the first
                if out["init_unchanged"] is False:
                    rep.fail("the caller's initial StateVector tensor was modified in place by the run",
                             ic.ser_case(case), klass=None)
                out2 = run_case(case, config=out["config"])
                rep.count("second_runs_same_config")
                msg2 = (f"second run failed with {out2['status']}" if out2["status"] != "ok" else oracle(case, out2)[0])
                if msg2:
                    rep.fail("second run with the same config object: " + msg2, ic.ser_case(case, second_run=True),
                             klass=(classify(case, msg2, out2) if out2["status"] == "ok" and out["init_unchanged"] is not False
                                    and out2["init_unchanged"] is not False else None))
        except Exception as e:  # the real code misbehaving is a finding candidate
            rep.fail(f"real SVBackendImpl raised {type(e).__name__}: {e}", ic.ser_case(case))
            continue
        if case.get("delay"):
            rep.count("cases_with_laser_off_step")
        cases.append(case)
        outs.append(out)
        due.append(case["obs0"])
        rep.hist("atoms", case["n"])
        rep.hist("grid", case["grid_kind"])
        rep.hist("phase_mode", case["pmode"])
        rep.hist("status", out["status"])
        rep.case(key=(tuple(case["times"]), case["slm_end"], case["n"]), nontrivial=case["nsteps"] >= 2,
                 sample={"n": case["n"], "times": case["times"], "slm_end": case["slm_end"], "kt": case["kt"],
                         "init": case["init"] is not None})
        if out["status"] != "ok":
            rep.fail(f"real run failed with {out['status']} on a well-formed grid", ic.ser_case(case))
            continue
        msg, w = oracle(case, out)
        if msg:
            k = classify(case, msg, out)
            rep.hist("oracle_failure_class", k)
            rep.fail(msg, ic.ser_case(case), klass=k)
        else:
            worst = max(worst, w)
    # replay of the recorded witness of the known finding on the real code (DESIGN §2.4)
    wout = run_case(dict(WITNESS))
    wmsg = oracle(WITNESS, wout)[0] if wout["status"] == "ok" else None
    rep.extra["witness_D20_C01"] = wmsg or "no longer fails (fixed?)"
    if wmsg:
        rep.fail(wmsg, ic.ser_case(WITNESS), klass=classify(WITNESS, wmsg, wout))
    # real Pulser sequences (rydberg_global + detuning map / SLM mask) through the real adapter
    pworst = 0.0
    for _ in range(10 if tier == "quick" else 200):
        case = gen_pulser(rng)
        rep.hist("grid", case["grid_kind"])
        rep.case(key=("pulser", case["n"], case["kind"], case["pulses"][0][1]), nontrivial=True)
        try:
            msg, w = run_pulser(case)
        except Exception as e:
            rep.fail(f"real adapter / SVBackend raised {type(e).__name__}: {e}", ic.ser_case(case, stream="pulser"))
            continue
        if w < 0:
            rep.count("pulser_cases_not_judged")
        pworst = max(pworst, w)
        if msg:
            rep.fail(msg, ic.ser_case(case, stream="pulser"))
    rep.extra["pulser_stream_worst_error_over_allowed"] = round(pworst, 4)
    large_step_leg(rep, rng, tier)
    for case in ic.malformed_cases(rng, 25 if tier == "quick" else 300):
        case["kt"], case["obs0"] = 1e-10, True
        try:
            out = run_case(case)
        except Exception as e:
            out = dict(status=f"raised:{type(e).__name__}", log=[], problems=[])
        cases.append(case)
        outs.append(out)
        due.append(True)
        rep.hist("status", out["status"])
        rep.hist("grid", case["grid_kind"])
        rep.case(key=("malformed", tuple(case["times"]), case["nsteps"]), nontrivial=False)
    ic.compare_schedule(rep, "c01", cases, outs, due)
    ic.single_steps(rep, "c01", rng, [c for c, o in zip(cases, outs) if o["status"] == "ok"][: (12 if tier == "quick" else 400)])
    rep.extra["oracle_worst_error_over_allowed"] = round(worst, 4)
    if rep.broken and not rep.unknown_failing():
        search(rep, seed, 150 if tier == "quick" else 2000)


def search(rep: Report, seed: int, n: int) -> None:
    """Failing-input search on the real code only: the dense-reference oracle on longer runs with
    stronger drives and the SLM switch inside every step in turn."""
    rng = seeded(seed * 104729 + 7)
    for i in range(n):
        case = gen(rng, 5, 8)
        case["obs0"] = True
        k = i % case["nsteps"]
        t = case["times"]
        case["slm_end"] = t[k] + 0.5 * (t[k + 1] - t[k])
        nn = case["n"]
        case["masked"] = [[0.0 if (a % 2 == 0 or b % 2 == 0) else case["U"][a][b] for b in range(nn)] for a in range(nn)]
        try:
            out = run_case(case)
        except Exception as e:
            rep.fail(f"real SVBackendImpl raised {type(e).__name__}: {e}", ic.ser_case(case))
            return
        if out["status"] != "ok":
            rep.fail(f"real run failed with {out['status']}", ic.ser_case(case))
            return
        msg, _ = oracle(case, out)
        if msg:
            rep.fail(msg, ic.ser_case(case))
            return
    rep.extra["search_cases"] = n


def replay(rep: Report, path: str) -> int:
    data = json.load(open(path))
    bad = 0
    for f in data.get("failing_inputs", []):
        case = f["data"]
        if case.get("stream") == "krylov_small_dim":
            msg = krylov_small_dim_outcome(case)
            msg = None if msg == "refused" else msg
            print("replay:", msg or "property holds on this input now")
            bad += bool(msg)
            continue
        if case.get("stream") == "pulser":
            try:
                msg = run_pulser(case)[0]
            except Exception as e:
                msg = f"raised {type(e).__name__}: {e}"
            print("replay:", msg or "property holds on this input now")
            bad += bool(msg)
            continue
        try:
            try:
                out = run_case(case)
            except RecursionError:
                print("replay: refused with RecursionError (acceptable)")
                continue
            if case.get("second_run") and out["status"] == "ok":
                out = run_case(case, config=out["config"])
            msg = f"run failed with {out['status']}" if out["status"] != "ok" else oracle(case, out)[0]
            if not msg and out.get("init_unchanged") is False:
                msg = "the caller's initial StateVector tensor was modified in place by the run"
        except Exception as e:
            msg = f"raised {type(e).__name__}: {e}"
        print("replay:", msg or "property holds on this input now")
        bad += bool(msg)
    return 1 if bad else 0
