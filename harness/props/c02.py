"""C02 — emu-mps TDVP runs reproduce the Pulser Hamiltonian dynamics (PARTIAL).

Lean: EmuVerif.Props.C02 (sweep position machine of `Model.Stepper`: symmetric sequence, no assert can
fire, which drive row / interaction query is installed, permutation of drives = permutation of the
interaction matrix). Correspondence: the REAL `MPSBackendImpl` on hand-built SequenceData (2-7 atoms,
real local kernels) with `_evolve`, `new_left_bath`, `new_right_bath`, `update_H`, `make_H`, the
interaction callable wrapped — event stream (kind, indices, dt, centreRight, bath sizes, centre, drive
row, query time) equal to the model's, bit for bit; drive rows and interaction matrices handed to
`update_H`/`make_H` equal to the model's permuted ones (exact).
Oracle (always on, real code): dense reference evolution (scipy expm of the piecewise-constant
Hamiltonian built here from the docstring formula) vs every observable `run_mps` reports (occupation, correlation matrix, energy, energy variance, requested in varying sets and ORDERS), reordering
on/off, local drives, phases, XY, mixed-sign couplings, SLM mask; plus: the caller's SequenceData is not mutated by a run.
"""
from __future__ import annotations

import json
import math

from harness.common import Driver, LeanError, Report, f2b, lean_stage, seeded
from harness import compat
from harness.props.stepper_trace import Tracer, traced, classify_exception

REGISTRY = dict(
    text=("PARTIAL. Lean 4 theorems about the TDVP sweep position machine, for every N, every grid, every scalar type: "
          "for N >= 3 one time step issues exactly pair(0,dt/2,->) single(1,-dt/2) ... pair(N-2,dt,<-) ... single(1,-dt/2) "
          "pair(0,dt/2,<-) with the bath updates in between and returns to the sweep start; N = 2 corner case; from init(), "
          "for every number of progress() calls, no assert of _evolve / empty bath stack / init_baths assert / index error "
          "can fire and at every call the bath stacks and orthogonality centre are the ones the position dictates; step k "
          "is run with drive row k, the interaction matrix being queried at the mid-point for step 0 and at the step START "
          "for every later step (mirrored as written); drive columns and interaction matrix are permuted by the same map "
          "site j -> atom perm[j], and a user-supplied initial state is rewritten with that same map (the pre-4109696 variant and the "
          "inverse-map variant are refuted by kernel-checked counterexamples). ASSUMED, not "
          "proved: accuracy of two-site TDVP projector splitting, Krylov exponential and SVD truncation (DynamicsClaim kept "
          "as a Prop) — validated on every run against dense expm evolution (<= 6 atoms) within a stated tolerance."),
    note=("Trusted: Lean kernel + propext/Classical.choice/Quot.sound; hand-written Model.Stepper tied by exact event-stream "
          "correspondence (generator-bounded); local kernels (evolve_pair/evolve_single/new_*_bath/update_H/make_H) are "
          "events, their numerical accuracy is an assumption validated by the dense oracle; reference Hamiltonian built "
          "from the make_H docstring formula; compat shim for pulser-core 1.9.1."),
    technique="Lean 4 proof (closed form of the sweep + position invariant) + exact correspondence + dense-evolution oracle",
    design_ref="DESIGN.md §5 C02",
)

PROP_MODULE = "EmuVerif.Props.C02"
AUDIT = "Audit/C02.lean"
D1_CLASS = "mps-reorder-drives-not-permuted"
C6, C3 = 5420158.53, 3700.0


# ------------------------------------------------------------------ inputs
def gen_register(rng, n, shuffled=True):
    """atoms on a line in shuffled order (so that bandwidth minimisation has something to do)"""
    pos = list(range(n))
    if shuffled:
        rng.shuffle(pos)
    a = rng.uniform(6.0, 7.5)
    return [p * a + rng.uniform(-0.2, 0.2) for p in pos]


def interaction(x, xy=False):
    import torch
    n = len(x)
    U = torch.zeros(n, n, dtype=torch.float64)
    for i in range(n):
        for j in range(n):
            if i != j:
                r = abs(x[i] - x[j])
                U[i, j] = C3 / r ** 3 if xy else C6 / r ** 6
    return U


def gen_case(rng, nmax=7, dyadic=True):
    import torch
    n = rng.randint(2, nmax)
    ns = rng.randint(1, 4)
    dt = rng.choice([10.0, 5.0, 1.0, 2.5, 37.0, 0.5])
    times = [k * dt for k in range(ns + 1)]
    if rng.random() < 0.25:
        t, times = 0.0, [0.0]
        for _ in range(ns):
            t += rng.choice([1.0, 3.0, 7.5, 10.0])
            times.append(t)
    x = gen_register(rng, n)
    xy = rng.random() < 0.25
    U = interaction(x, xy)
    if rng.random() < 0.3:
        U = mix_signs(rng, U)
    lat = (lambda a, b: rng.randint(int(a * 8), int(b * 8)) / 8) if dyadic else rng.uniform
    mode = rng.choice(["local", "local", "global", "one-atom"])
    om = [[lat(0, 12) for _ in range(n)] for _ in range(ns)]
    de = [[lat(-10, 10) for _ in range(n)] for _ in range(ns)]
    ph = [[lat(-3, 3) for _ in range(n)] for _ in range(ns)]
    if mode == "global":
        om, de, ph = ([[r[0]] * n for r in m] for m in (om, de, ph))
    elif mode == "one-atom":
        a = rng.randrange(n)
        de = [[(12.0 if j == a else 0.0) for j in range(n)] for _ in range(ns)]
    slm = rng.choice([0.0, 0.0, times[rng.randrange(len(times))], times[-1] / 3])
    masked = U.clone()
    if slm > 0:
        a = rng.randrange(n)
        masked[a, :] = 0.0
        masked[:, a] = 0.0
    reorder = rng.random() < 0.75
    # the bandwidth minimiser is a kernel with the contract "returns a permutation" (C32): most cases hand the
    # constructor an arbitrary permutation through a tape, the others run the real one
    perm_tape = None
    if reorder and rng.random() < 0.88:
        perm_tape = list(range(n))
        rng.shuffle(perm_tape)
    return dict(n=n, ns=ns, times=times, x=x, xy=xy, U=U, masked=masked, slm=slm, om=om, de=de, ph=ph,
                reorder=reorder, mode=mode, perm_tape=perm_tape)


MUT_CLASS = "mps-caller-data-mutated"


def mix_signs(rng, U):
    """symmetric random signs on the couplings, at least one negative (custom interaction matrices, XY in a tilted field)"""
    import torch
    n = U.shape[0]
    if n < 2:
        return U
    S = torch.ones(n, n, dtype=torch.float64)
    for i in range(n):
        for j in range(i + 1, n):
            S[i, j] = S[j, i] = rng.choice([1.0, -1.0])
    i = rng.randrange(n - 1)
    S[i, i + 1] = S[i + 1, i] = -1.0
    return U * S


def snapshot(data):
    """clones of everything the caller handed over inside a SequenceData"""
    im = data.interaction_matrix
    return {"omega": data.omega.clone(), "delta": data.delta.clone(), "phi": data.phi.clone(),
            "interaction full_matrix": im.full_matrix.clone(), "interaction masked_matrix": im.masked_matrix.clone(),
            "target_times": list(data.target_times)}


def mutated(data, snap):
    """names of the caller's inputs that no longer equal their clone"""
    import torch
    im = data.interaction_matrix
    now = {"omega": data.omega, "delta": data.delta, "phi": data.phi, "interaction full_matrix": im.full_matrix,
           "interaction masked_matrix": im.masked_matrix}
    bad = [k for k, v in now.items() if not torch.equal(v, snap[k])]
    if list(data.target_times) != snap["target_times"]:
        bad.append("target_times")
    return bad


def make_data(c):
    return compat.make_sequence_data(c["om"], c["de"], c["ph"], c["U"], c["times"], masked_U=c["masked"],
                                     slm_end_time=c["slm"], hamiltonian_type="XY" if c["xy"] else "Rydberg",
                                     eigenstates=("u", "d") if c["xy"] else ("r", "g"))


# ------------------------------------------------------------------ real code, traced
def run_real(c, k):
    """init() + k progress() calls on the real MPSBackendImpl with the real local kernels."""
    import emu_mps.mps_backend_impl as mbi
    from pulser.backend import Occupation
    tr = Tracer(env_tape=None, stub_evolve=False)
    tr.h_mats = []
    o_uh = mbi.MPSBackendImpl.update_H
    from unittest import mock

    def w_uh(self):
        tr.h_mats.append((self._timestep_index, tr.last_query, self.current_interaction_matrix.clone()))
        return o_uh(self)
    cfg = compat.mps_config(observables=[Occupation(evaluation_times=[1.0])], optimize_qubit_ordering=c["reorder"])
    status, impl = "ok", None
    import contextlib
    import io
    import torch
    with contextlib.ExitStack() as st:
        st.enter_context(mock.patch.object(mbi.MPSBackendImpl, "update_H", w_uh))
        st.enter_context(traced(tr))
        st.enter_context(contextlib.redirect_stdout(io.StringIO()))
        if c.get("perm_tape") is not None:
            st.enter_context(mock.patch.object(mbi.optimat, "minimize_bandwidth",
                                               lambda m, *a, **k: torch.tensor(c["perm_tape"])))
        try:
            data = make_data(c)
            snap = snapshot(data)
            impl = mbi.MPSBackendImpl(cfg, data)
            impl.init()
            for _ in range(k):
                impl.progress()
            tr.mutated = mutated(data, snap)
        except Exception as e:
            status = "err:" + classify_exception(e)
            tr.exc = e
    fin = "1" if (impl is not None and status == "ok" and impl.is_finished()) else "0"
    perm = impl.qubit_permutation.tolist() if impl is not None else list(range(c["n"]))
    return status, fin, tr, perm


def rows_arg(m):
    return ";".join(",".join(f2b(float(v)) for v in row) for row in m)


def total_progress_calls(n, ns):
    return ns * (1 if n <= 2 else 2 * n - 3)



# ------------------------------------------------------------------ initial state: site-order rewrite
STATE_CLASS = "mps-initial-state-inverse-permutation"


def mps_dense(state):
    """contract an MPS to its dense amplitude vector (site 0 = most significant index, 'r' = 1)"""
    import torch
    v = state.factors[0].reshape(-1, state.factors[0].shape[-1])
    for f in state.factors[1:]:
        v = torch.tensordot(v, f, dims=([-1], [0])).reshape(-1, f.shape[-1])
    return v.reshape(-1)


def gen_state_case(rng):
    n = rng.choice([3, 4, 4, 5, 5])
    while True:
        perm = list(range(n))
        rng.shuffle(perm)
        inv = [perm.index(a) for a in range(n)]
        if rng.random() < 0.15 or inv != perm:       # mostly orders with a cycle of length >= 3
            break
    m = rng.randint(1, 4)
    strs = set()
    while len(strs) < m:
        b = "".join(rng.choice("rg") for _ in range(n))
        if len(set(b)) > 1:                            # not permutation symmetric
            strs.add(b)
    raw = [rng.choice([1, 2, 3, 5, 7]) * rng.choice([1, -1, 1j]) for _ in strs]
    norm = math.sqrt(sum(abs(a) ** 2 for a in raw))
    amps = {b: a / norm for b, a in zip(sorted(strs), raw)}
    return dict(n=n, perm=perm, amps=amps)


def real_initial_state(c):
    """what the real `init_initial_state` stores as `impl.state` for a user-supplied state (dense, site order)"""
    import contextlib
    import io
    import torch
    import emu_mps.mps_backend_impl as mbi
    from emu_mps.mps import MPS
    from pulser.backend import Occupation
    from unittest import mock
    n = c["n"]
    x = gen_register(seeded(1), n, shuffled=False)
    z = torch.zeros(1, n)
    data = compat.make_sequence_data(z, z, z, interaction(x), [0.0, 10.0])
    with contextlib.redirect_stdout(io.StringIO()):
        psi = MPS.from_state_amplitudes(eigenstates=("r", "g"), amplitudes=dict(c["amps"]))
        cfg = compat.mps_config(observables=[Occupation(evaluation_times=[1.0])], optimize_qubit_ordering=True,
                                initial_state=psi)
        with mock.patch.object(mbi.optimat, "minimize_bandwidth", lambda m, *a, **k: torch.tensor(c["perm"])):
            impl = mbi.MPSBackendImpl(cfg, data)
            impl.init()
    return mps_dense(impl.state)


def expected_dense(n, amps):
    import torch
    v = torch.zeros(2 ** n, dtype=torch.complex128)
    for b, a in amps.items():
        v[int("".join("1" if ch == "r" else "0" for ch in b), 2)] = a
    return v


def bits(b):
    return ",".join("1" if ch == "r" else "0" for ch in b)


def unbits(s):
    return "".join("r" if t == "1" else "g" for t in s.split(","))

# ------------------------------------------------------------------ dense reference (independent of the MPO code)
def dense_reference(om, de, ph, Ufun, times, xy, psi0=None):
    import numpy as np
    import scipy.linalg as sla
    ns, n = len(om), len(om[0])
    sx = np.array([[0, 0.5], [0.5, 0]], dtype=complex)
    sy = np.array([[0, -0.5j], [0.5j, 0]])
    nn = np.array([[0, 0], [0, 1]], dtype=complex)
    sp = np.array([[0, 0], [1, 0]], dtype=complex)

    def op(o, j):
        m = np.array([[1]], dtype=complex)
        for i in range(n):
            m = np.kron(m, o if i == j else np.eye(2))
        return m
    N = [op(nn, j) for j in range(n)]
    X = [op(sx, j) for j in range(n)]
    Y = [op(sy, j) for j in range(n)]
    P = [op(sp, j) for j in range(n)]

    def H(k):
        U = Ufun(0.5 * (times[k] + times[k + 1]))
        h = sum(om[k][j] * (math.cos(ph[k][j]) * X[j] + math.sin(ph[k][j]) * Y[j]) - de[k][j] * N[j] for j in range(n))
        for i in range(n):
            for j in range(i + 1, n):
                u = float(U[i, j])
                h = h + (u * (P[i] @ P[j].conj().T + P[j] @ P[i].conj().T) if xy else u * N[i] @ N[j])
        return h
    psi = np.zeros(2 ** n, dtype=complex)
    psi[0] = 1
    if psi0 is not None:
        psi = np.array(psi0, dtype=complex)
    def corr(v):
        return [[(v.conj() @ N[i] @ N[j] @ v).real for j in range(n)] for i in range(n)]

    def var(v, h):
        hv = h @ v
        return (hv.conj() @ hv).real - (v.conj() @ hv).real ** 2
    occ = [[(psi.conj() @ N[j] @ psi).real for j in range(n)]]
    en = [(psi.conj() @ H(0) @ psi).real]
    cm, ev2 = [corr(psi)], [var(psi, H(0))]
    pr = [np.abs(psi) ** 2]
    for k in range(ns):
        h = H(k)
        psi = sla.expm(-1j * h * (times[k + 1] - times[k]) * 1e-3) @ psi
        occ.append([(psi.conj() @ N[j] @ psi).real for j in range(n)])
        en.append((psi.conj() @ h @ psi).real)
        cm.append(corr(psi))
        ev2.append(var(psi, h))
        pr.append(np.abs(psi) ** 2)
    return np.array(occ), np.array(en), np.array(cm), np.array(ev2), np.array(pr)


def gen_dense(rng, nmax, force_cycle=False, force_mixed=False, force_slm=False, force_ryd=False):
    n = 5 if force_cycle else rng.randint(2, nmax)
    dt = rng.choice([10.0, 5.0, 4.0])
    ns = rng.randint(8, 16)
    times = [k * dt for k in range(ns + 1)]
    x = gen_register(rng, n, shuffled=False)     # register order = chain order (see dense_check)
    relabel = list(range(n))
    rng.shuffle(relabel)                          # second leg: atom i sits at chain position relabel[i]
    xy = rng.random() < 0.3 and not force_ryd
    if force_cycle:                               # 5 atoms, a 4-cycle: the chain order and its reversal are not self-inverse
        relabel, xy = [1, 2, 3, 0, 4], False
    U = interaction(x, xy)
    mixed = n >= 2 and (force_mixed or rng.random() < 0.4)
    if mixed:
        U = mix_signs(rng, U)      # both Rydberg-type custom matrices and XY get negative couplings
    amp = [rng.uniform(2, 12) for _ in range(n)]
    om = [[amp[j] * math.sin(math.pi * (k + 0.5) / ns + 0.3 * j) ** 2 for j in range(n)] for k in range(ns)]
    de = [[rng.uniform(-10, 10) * ((k + 0.5) / ns - 0.4) + (8.0 if j == 0 else 0.0) for j in range(n)] for k in range(ns)]
    ph = [[rng.choice([0.0, rng.uniform(-3, 3)]) for j in range(n)] for k in range(ns)]
    m = rng.randrange(ns + 1)
    if force_slm:
        m = rng.randint(2, ns - 2)
    slm = times[m] if (force_slm or rng.random() < 0.3) else 0.0      # grid aligned: mid-point and step-start sampling agree
    masked = U.clone()
    if slm > 0:
        a = rng.randrange(n)
        masked[a, :] = 0.0
        masked[:, a] = 0.0
    init = None
    if not xy and n >= 2 and (force_cycle or rng.random() < 0.5):
        # user-supplied, non permutation-symmetric initial state, amplitudes keyed by chain-order basis strings
        strs = set()
        while len(strs) < min(3, 2 ** n - 2):
            b = "".join(rng.choice("rg") for _ in range(n))
            if len(set(b)) > 1:
                strs.add(b)
        raw = [rng.choice([1, 2, 3]) * rng.choice([1, -1, 1j]) for _ in strs]
        nrm = math.sqrt(sum(abs(a) ** 2 for a in raw))
        init = {b: [(a / nrm).real, (a / nrm).imag] for b, a in zip(sorted(strs), raw)}
    names = ["occupation", "correlation_matrix", "energy", "energy_variance"] + ([] if xy else ["bitstrings"])
    r = rng.random()
    if r < 0.15 and not xy:
        obs = ["correlation_matrix", "bitstrings"] + rng.sample(["occupation", "energy"], rng.randint(0, 2))
    elif r < 0.3:
        obs = ["correlation_matrix", "occupation"] + rng.sample(["energy", "energy_variance"], rng.randint(0, 2))
    elif r < 0.45:
        obs = ["occupation", "energy"]
    else:
        obs = rng.sample(names, rng.randint(1, len(names)))
    return dict(n=n, ns=ns, times=times, x=x, xy=xy, U=U, masked=masked, slm=slm, om=om, de=de, ph=ph, dt=dt,
                relabel=relabel, init=init, obs=obs, mixed=mixed)


def dense_tolerance(c, precision):
    """occupation tolerance = truncation allowance + splitting allowance (both stated, see notes/stepper.md):
       4·nsteps·(N-1)·precision  — every two-site split discards weight <= precision; 2(N-1) splits per step, errors add,
                                    an observable of norm 1 moves by <= 2·|delta psi|;
       0.02·nsteps·(w·dt·1e-3)^3 — second-order (symmetric) projector splitting, local error ~ (w dt)^3, w = max |Omega|.
       energy tolerance = occupation tolerance × an operator-norm bound of H."""
    w = max(abs(v) for r in c["om"] for v in r)
    tol = 4 * c["ns"] * (c["n"] - 1) * precision + 0.02 * c["ns"] * (w * c["dt"] * 1e-3) ** 3
    n = c["n"]
    scale = max(sum(abs(r[j]) / 2 for j in range(n)) + sum(abs(d[j]) for j in range(n)) for r, d in zip(c["om"], c["de"]))
    scale += sum(abs(float(c["U"][i, j])) for i in range(n) for j in range(i + 1, n))
    return tol, tol * max(scale, 1.0)


def dense_check(c, precision=1e-5):
    """returns (message|None, klass, stats)"""
    import numpy as np
    import torch
    from pulser.backend import Occupation, Energy
    ev = [t / c["times"][-1] for t in c["times"]]
    Ufun = lambda t: (c["masked"] if t < c["slm"] else c["U"])
    init = c.get("init")
    amps1 = {b: complex(*a) for b, a in init.items()} if init else None
    psi0 = expected_dense(c["n"], amps1).numpy() if init else None
    rocc, ren, rcm, rvar, rprob = dense_reference(c["om"], c["de"], c["ph"], Ufun, c["times"], c["xy"], psi0)
    tol_o, tol_e = dense_tolerance(c, precision)
    # which observables are requested, and in which ORDER (callbacks at one time share the normalised state copy, so
    # the order is part of the input): default = the two the oracle always had
    order = c.get("obs") or ["occupation", "energy"]
    from pulser.backend import CorrelationMatrix, EnergyVariance, BitStrings
    mk = {"occupation": Occupation, "energy": Energy, "correlation_matrix": CorrelationMatrix, "energy_variance": EnergyVariance}
    scale = tol_e / tol_o
    # bit strings: SHOTS samples at every third grid time and the last; total-variation distance to the dense |psi|^2.
    # E[TV] <= 0.5*sqrt(2^n/SHOTS); TV is 1/SHOTS-Lipschitz in each sample, so P(TV > E + eps) <= exp(-2*SHOTS*eps^2) (McDiarmid):
    # eps = sqrt(ln(1e7)/(2*SHOTS)) gives a 1e-7 false-alarm probability per comparison; + n*tol_o for the TDVP state error.
    SHOTS = 4000
    bs_idx = sorted(set(list(range(0, len(ev), 3)) + [len(ev) - 1]))
    tol_bs = 0.5 * math.sqrt(2 ** c["n"] / SHOTS) + math.sqrt(math.log(1e7) / (2 * SHOTS)) + c["n"] * tol_o
    tols = {"occupation": tol_o, "correlation_matrix": tol_o, "energy": tol_e, "energy_variance": 3 * scale * tol_e,
            "bitstrings": tol_bs}

    def make_obs(o):
        if o == "bitstrings":
            return BitStrings(evaluation_times=[ev[i] for i in bs_idx], num_shots=SHOTS)
        return mk[o](evaluation_times=ev)
    stats = {}
    res_by = {}
    # Two legs of the same physics. Two-site TDVP is only accurate when strongly coupled atoms are neighbouring
    # sites, so: leg 1 = register already in chain order, reordering OFF; leg 2 = the atoms relabelled at random
    # (atom i at chain position relabel[i]), reordering ON (the back-end has to find the chain order itself).
    rl = c.get("relabel") or list(range(c["n"]))
    idx = torch.tensor(rl)
    c2 = dict(c, U=c["U"][idx][:, idx], masked=c["masked"][idx][:, idx],
              om=[[r[a] for a in rl] for r in c["om"]], de=[[r[a] for a in rl] for r in c["de"]],
              ph=[[r[a] for a in rl] for r in c["ph"]])
    perms, muts = [], {}
    import emu_mps.mps_backend_impl as mbi
    from emu_mps.mps import MPS
    from unittest import mock
    o_mb = mbi.optimat.minimize_bandwidth

    def rec_mb(*a, **k):
        r = o_mb(*a, **k)
        perms.append(r.tolist())
        return r
    for reorder, cc in ((False, c), (True, c2)):
        extra = {}
        if init:
            # leg 2: atom i sits at chain position rl[i], so its symbol is the chain string's symbol at rl[i]
            amps = amps1 if not reorder else {"".join(b[a] for a in rl): v for b, v in amps1.items()}
            extra["initial_state"] = MPS.from_state_amplitudes(eigenstates=("r", "g"), amplitudes=amps)
        torch.manual_seed(20260922 + int(reorder))          # fixed sampling seed: the verdict is reproducible
        cfg = compat.mps_config(observables=[make_obs(o) for o in order],
                                optimize_qubit_ordering=reorder, dt=c["dt"], precision=precision, **extra)
        try:
            import contextlib
            import io
            data = make_data(cc)
            snap = snapshot(data)
            with contextlib.redirect_stdout(io.StringIO()), mock.patch.object(mbi.optimat, "minimize_bandwidth", rec_mb):
                res = compat.run_mps(data, cfg)
        except Exception as e:
            return f"run_mps raised {type(e).__name__}: {e} (reordering {reorder})", None, stats
        muts[reorder] = mutated(data, snap)
        if reorder and perms:
            p = perms[-1]
            stats["perm"] = p
            stats["perm_self_inverse"] = [p.index(a) for a in range(len(p))] == p
        errs = {}
        for o in order:
            if o == "bitstrings":
                want_t = [ev[i] for i in bs_idx]
                if [round(t, 12) for t in res.get_result_times(o)] != [round(t, 12) for t in want_t]:
                    return f"bitstrings recorded at {res.get_result_times(o)!r}, due at {want_t!r}", None, stats
                worst_tv = 0.0
                for i, counts in zip(bs_idx, res.bitstrings):
                    tot = sum(counts.values())
                    if tot != SHOTS:
                        return f"bitstrings at t={ev[i]!r}: {tot} shots recorded, {SHOTS} requested", None, stats
                    emp = np.zeros(2 ** c["n"])
                    for key, cnt in counts.items():
                        # reordered leg: atom a of that register sits at chain position rl[a]
                        chain = list(key) if not reorder else [key[rl.index(p)] for p in range(c["n"])]
                        emp[int("".join(chain), 2)] += cnt / tot
                    worst_tv = max(worst_tv, 0.5 * float(np.abs(emp - rprob[i]).sum()))
                errs[o] = worst_tv
                continue
            if [round(t, 12) for t in res.get_result_times(o)] != [round(t, 12) for t in ev]:
                return f"{o} recorded at {res.get_result_times(o)!r}, due at {ev!r}", None, stats
            got = np.array([np.real(v.numpy() if hasattr(v, "numpy") else np.asarray(v)) for v in getattr(res, o)], dtype=float)
            if o == "occupation":
                ref = rocc if not reorder else rocc[:, rl]
            elif o == "correlation_matrix":
                ref = rcm if not reorder else rcm[:, rl][:, :, rl]
            else:
                ref = ren if o == "energy" else rvar
            errs[o] = float(np.abs(got - ref).max())
        stats[reorder] = tuple(errs[o] / tols[o] for o in order)
        res_by[reorder] = (errs, tuple(res.atom_order))
        if tuple(res.atom_order) != tuple(f"q{i}" for i in range(c["n"])):
            return f"results not in register order: {res.atom_order} (reordering {reorder})", None, stats
    bad_leg = {r: [o for o in order if res_by[r][0][o] > tols[o]] for r in (False, True)}
    for reorder in (False, True):
        if bad_leg[reorder]:
            klass = None
            if reorder and not bad_leg[False]:
                klass = "mps-reordered-run-deviates-dense"   # only the reordered run is wrong
            what = ", ".join(f"|d {o}| = {res_by[reorder][0][o]:.3e} (tol {tols[o]:.3e})" for o in order)
            if muts.get(reorder):
                what += f"; the run also mutated the caller's {muts[reorder]}"
                klass = MUT_CLASS
            return (f"run_mps deviates from dense evolution (reordering {'on' if reorder else 'off'}, observables requested "
                    f"in the order {order}): {what}"), klass, stats
    for reorder in (False, True):
        if muts.get(reorder):
            return (f"run_mps mutated the caller's {muts[reorder]} (reordering {'on' if reorder else 'off'}; compared with a clone "
                    f"taken before the run)"), MUT_CLASS, stats
    return None, None, stats


def _ser(c):
    d = {k: v for k, v in c.items() if k not in ("U", "masked")}
    d["U"] = [[float(v) for v in r] for r in c["U"]]
    d["masked"] = [[float(v) for v in r] for r in c["masked"]]
    return d


def _deser(d):
    import torch
    c = dict(d)
    if "U" not in d:
        return c
    c["U"] = torch.tensor(d["U"], dtype=torch.float64)
    c["masked"] = torch.tensor(d["masked"], dtype=torch.float64)
    return c


# ------------------------------------------------------------------ check
def check(rep: Report, tier: str, seed: int) -> None:
    import torch
    torch.set_num_threads(1)
    rep.rule = ("correspondence case = (2-7 atoms on a line in shuffled order, 1-4 steps, grid, local/global/one-atom drives on a "
                "1/8 lattice, Rydberg or XY, optional SLM mask, reordering on/off, k progress() calls incl. partial sweeps); "
                "dense case = (2-5 atoms quick / 2-6 thorough, 8-20 steps, smooth local drives, phases, XY, grid-aligned SLM), "
                "both reorderings. non-trivial = non-identity permutation with non-uniform drives, or a dense run; "
                "distinct = distinct inputs")
    rep.assumptions = [
        "two-site TDVP projector-splitting accuracy, Krylov exponential accuracy, SVD truncation error: NOT proved "
        "(DynamicsClaim is a Prop); validated against dense expm evolution with tolerance "
        "4*nsteps*(N-1)*precision + 0.02*nsteps*(max|Omega|*dt*1e-3)^3 on occupations (x operator-norm bound of H for the energy)",
        "reference Hamiltonian = make_H docstring formula (sx = sigma_x/2, sy = sigma_y/2, n = |1><1|), U sampled at step mid-points",
        "two-site TDVP is only accurate when strongly coupled atoms sit on neighbouring sites: the dense oracle's reordering-OFF leg "
        "uses a register already in chain order, its reordering-ON leg the same physics with the atoms relabelled at random; with a "
        "scrambled site order and reordering off the clean tree deviates by up to 1.5e-3 (6 atoms, dt=10) - not flagged, not claimed",
        "the qubit permutation itself (RCM) is taken from the run (C32's subject); the model is told perm",
        "binary64 rounding outside the theorems; the correspondence is exact (times, dt/2, query times bit for bit)",
    ]
    import time
    compat.install()
    t0 = time.time()
    lean_stage(rep, PROP_MODULE, AUDIT, thorough=(tier == "thorough"))
    rep.extra["t_lean_s"] = round(time.time() - t0, 1)
    rng = seeded(seed * 7919 + 2)
    quick = tier == "quick"
    t0 = time.time()

    # ---- 1. event-stream + installed-Hamiltonian correspondence
    lines, expect, meta = [], [], []
    ncase = 45 if quick else 1000
    for ci in range(ncase):
        c = gen_case(rng, nmax=7 if (not quick or ci % 3 == 0) else 5)
        full = total_progress_calls(c["n"], c["ns"])
        k = rng.choice([full, full, full + 2, rng.randint(0, full)])
        status, fin, tr, perm = run_real(c, k)
        ts = ",".join(f2b(t) for t in c["times"])
        lines.append(f"stepper.run {c['n']} {c['ns']} 0 {ts} {k}")
        expect.append(f"{status} {fin} " + (" ".join(tr.recs) or "-"))
        meta.append(("run", c, k, perm))
        nontriv = perm != list(range(c["n"])) and c["mode"] != "global"
        rep.case(key=("run", c["n"], c["ns"], tuple(c["x"]), k, c["reorder"]), nontrivial=nontriv,
                 sample={"atoms": c["n"], "steps": c["ns"], "perm": perm, "mode": c["mode"], "xy": c["xy"], "slm": c["slm"], "k": k})
        rep.hist("atoms", c["n"])
        rep.hist("perm_nontrivial", perm != list(range(c["n"])))
        rep.hist("drive_mode", c["mode"])
        if status != "ok":
            rep.fail(f"real MPSBackendImpl raised: {status}", _ser(c))
        if getattr(tr, "mutated", None):
            rep.fail(f"constructing/running MPSBackendImpl mutated the caller's {tr.mutated} (compared with a clone taken before)",
                     _ser(c), klass=MUT_CLASS)
        p = ",".join(str(a) for a in perm)
        # drive rows handed to the module-level update_H, in call order
        for kind, kk, o, d, ph in tr.drive_rows:
            for name, got, src in (("omega", o, c["om"]), ("delta", d, c["de"]), ("phi", ph, c["ph"])):
                lines.append(f"stepper.drive repaired {p} {kk} {rows_arg(src)}")
                expect.append(",".join(f2b(float(v)) for v in got.real))
                meta.append(("drive", c, (name, kk, kind), perm))
        # interaction matrices: every make_H argument, and the matrix in force at every update_H
        for q, m in tr.make_h + [(q, m) for (_, q, m) in tr.h_mats]:
            Uq = c["masked"] if q < c["slm"] else c["U"]
            lines.append(f"stepper.inter {p} {rows_arg(Uq)}")
            expect.append(rows_arg(m))
            meta.append(("inter", c, q, perm))
    # ---- 1b. user-supplied initial state: site-order rewrite under permutations with 3- and 4-cycles
    state_cases = []
    for _ in range(30 if quick else 600):
        sc = gen_state_case(rng)
        try:
            got = real_initial_state(sc)
        except Exception as e:
            rep.fail(f"init_initial_state raised {type(e).__name__}: {e}", {"state_case": True, "n": sc["n"], "perm": sc["perm"],
                                                                         "amps": {b: [a.real, a.imag] for b, a in sc["amps"].items()}})
            continue
        first = len(lines)
        p = ",".join(str(a) for a in sc["perm"])
        for b in sc["amps"]:
            for variant in ("direct", "inverse"):
                lines.append(f"stepper.statemap {variant} {p} {bits(b)}")
                expect.append(None)
                meta.append(("state", None, None, sc["perm"]))
        state_cases.append((sc, got, first))
        inv = [sc["perm"].index(a) for a in range(sc["n"])]
        rep.hist("state_perm_self_inverse", inv == sc["perm"])
    rep.extra["t_real_traced_s"] = round(time.time() - t0, 1)
    t0 = time.time()
    try:
        out = Driver().batch(lines)
    except LeanError as e:
        rep.broke("driver: " + str(e)[-800:])
        out = [None] * len(lines)
    rep.extra["t_driver_s"] = round(time.time() - t0, 1)
    rep.extra["driver_lines"] = len(lines)
    dis = {"run": 0, "drive": 0, "inter": 0}
    d1_hits = 0
    # which variant of the constructor does a mismatching drive row match? (second, small driver call)
    bad_drive = [i for i, (mo, ex, m) in enumerate(zip(out, expect, meta)) if m[0] == "drive" and mo is not None and mo != ex]
    as_found_out = {}
    if bad_drive:
        try:
            res = Driver().batch([lines[i].replace("stepper.drive repaired", "stepper.drive asFound", 1) for i in bad_drive[:200]])
            as_found_out = dict(zip(bad_drive[:200], res))
        except LeanError as e:
            rep.broke("driver: " + str(e)[-800:])
    for i, (mo, ex, (kind, c, info, perm)) in enumerate(zip(out, expect, meta)):
        if mo is None or ex is None:
            continue
        if mo == ex:
            continue
        if kind == "drive":
            as_found = as_found_out.get(i)
            if as_found == ex:
                d1_hits += 1
                if d1_hits <= 2:
                    rep.fail(f"drive columns not permuted: update_H received {info[0]} row {info[1]} in register order "
                             f"while the interaction matrix is permuted with {perm}", _ser(c), klass=D1_CLASS)
                continue
        dis[kind if kind in dis else "drive"] += 1
        if sum(dis.values()) <= 4:
            a, b = mo.split(), ex.split()
            j = next((j for j, (x, y) in enumerate(zip(a, b)) if x != y), min(len(a), len(b)))
            rep.broke(f"correspondence Model.Stepper vs MPSBackendImpl ({kind} {info if kind != 'run' else 'k=' + str(info)}, perm {perm}): "
                      f"first difference at token {j}: model={a[j:j + 2]} impl={b[j:j + 2]} case={json.dumps(_ser(c))[:300]}")
    # initial-state verdicts: the real site-order state against the model's relabelling (|<model|real>| = 1 to 1e-10)
    st_bad, st_inv = 0, 0
    for sc, got, first in state_cases:
        if out[first] is None:
            continue
        exp_d, exp_i = {}, {}
        for j, (b, a) in enumerate(sc["amps"].items()):
            exp_d[unbits(out[first + 2 * j])] = a
            exp_i[unbits(out[first + 2 * j + 1])] = a
        ov_d = abs(complex((expected_dense(sc["n"], exp_d).conj() * got).sum()))
        ov_i = abs(complex((expected_dense(sc["n"], exp_i).conj() * got).sum()))
        data = {"state_case": True, "n": sc["n"], "perm": sc["perm"],
                "amps": {b: [a.real, a.imag] for b, a in sc["amps"].items()}}
        rep.case(key=("state", tuple(sc["perm"]), tuple(sorted(sc["amps"]))), nontrivial=exp_d != exp_i,
                 sample={"state": True, "perm": sc["perm"], "strings": sorted(sc["amps"])})
        if abs(ov_d - 1.0) <= 1e-10:
            continue
        if abs(ov_i - 1.0) <= 1e-10:
            st_inv += 1
            if st_inv <= 2:
                rep.fail(f"init_initial_state rewrites the user-supplied state with the INVERSE of the site order {sc['perm']}: "
                         f"overlap with P psi0 = {ov_d:.3e}, with P^-1 psi0 = {ov_i:.12f}", data, klass=STATE_CLASS)
        else:
            st_bad += 1
            if st_bad <= 2:
                rep.broke(f"correspondence initial state: perm {sc['perm']} strings {sorted(sc['amps'])}: overlap with the model's "
                          f"relabelling {ov_d:.3e} (inverse map {ov_i:.3e})")
                rep.fail(f"init_initial_state does not produce P psi0 for site order {sc['perm']} (overlap {ov_d:.3e})", data)
    rep.extra["state_cases"] = len(state_cases)
    rep.extra["state_inverse_variant_hits"] = st_inv
    rep.extra["disagreements"] = dis
    rep.extra["d1_variant_hits"] = d1_hits

    # ---- 2. dense-evolution oracle on the real back-end (always on)
    ndense = 6 if quick else 48
    worst = 0.0
    t0 = time.time()
    for di in range(ndense):
        c = gen_dense(rng, 5 if quick else 6, force_cycle=(di % 6 == 0), force_mixed=(di % 4 == 2),
                      force_slm=(di % 6 == 3), force_ryd=(di % 6 == 4))
        if di % 6 == 4 and not c["xy"]:
            # always present: bit strings sampled right after the correlation callback (shared state copy centred on the last site)
            c["obs"] = ["correlation_matrix", "bitstrings"]
        if di % 4 == 1 and c["obs"][:2] != ["correlation_matrix", "occupation"]:
            # always present: the correlation callback first (it leaves the shared state copy centred on the last site)
            c["obs"] = ["correlation_matrix", "occupation"] + [o for o in c["obs"] if o in ("energy", "energy_variance")]
        msg, klass, stats = dense_check(c)
        if c.get("init"):
            rep.hist("dense_user_initial_state_perm_self_inverse", stats.get("perm_self_inverse"))
        rep.case(key=("dense", c["n"], c["ns"], tuple(c["x"]), c["xy"]), nontrivial=True,
                 sample={"dense": True, "atoms": c["n"], "steps": c["ns"], "dt": c["dt"], "xy": c["xy"], "slm": c["slm"]})
        rep.hist("dense_atoms", c["n"])
        for leg in (False, True):
            if leg in stats:
                worst = max(worst, *stats[leg])
        rep.hist("dense_mixed_sign_couplings", bool(c.get("mixed")))
        rep.hist("dense_observable_order", ">".join(o[:4] for o in c.get("obs", [])))
        if msg:
            rep.fail(msg, dict(_ser(c), dense=True), klass=klass)
    rep.extra["dense_worst_error_over_tolerance"] = worst
    rep.extra["t_dense_s"] = round(time.time() - t0, 1)

    if rep.broken and not rep.unknown_failing():
        search(rep, seed, 12 if quick else 80)


def search(rep: Report, seed: int, n: int) -> None:
    """Failing-input search on the real code only: more dense references (wider: up to 6 atoms, all feature
    combinations), the first deviation is recorded with its input."""
    rng = seeded(seed * 104729 + 2)
    for _ in range(n):
        c = gen_dense(rng, 6 if n > 20 else 5)
        msg, klass, _ = dense_check(c)
        if msg:
            rep.fail(msg, dict(_ser(c), dense=True), klass=klass)
            return
    rep.extra["search_cases"] = n


def replay(rep: Report, path: str) -> int:
    import torch
    torch.set_num_threads(1)
    compat.install()
    data = json.load(open(path))
    bad = 0
    for f in data.get("failing_inputs", []):
        c = _deser(f["data"])
        if c.get("dense"):
            msg, _, _ = dense_check(c)
        elif c.get("state_case"):
            sc = dict(n=c["n"], perm=c["perm"], amps={b: complex(*a) for b, a in c["amps"].items()})
            got = real_initial_state(sc)
            want = {"".join(b[a] for a in sc["perm"]): v for b, v in sc["amps"].items()}   # site k <- atom perm[k]
            ov = abs(complex((expected_dense(sc["n"], want).conj() * got).sum()))
            msg = None if abs(ov - 1.0) <= 1e-10 else f"site-order initial state has overlap {ov:.3e} with P psi0 (site order {sc['perm']})"
        else:
            full = total_progress_calls(c["n"], c["ns"])
            status, fin, tr, perm = run_real(c, full)
            msg = None if status == "ok" else status
            if msg is None and getattr(tr, "mutated", None):
                msg = f"constructing/running MPSBackendImpl mutated the caller's {tr.mutated}"
            if msg is None and perm != list(range(c["n"])):
                for kind, kk, o, d, ph in tr.drive_rows:
                    want = [c["de"][kk][a] for a in perm]
                    if [float(v) for v in d.real] != want:
                        msg = f"update_H received delta row {kk} = {[float(v) for v in d.real]}, permuted row is {want}"
                        break
        print("replay:", msg or "property holds on this input now")
        bad += bool(msg)
    return 1 if bad else 0
