"""C03 — results independent of atom labelling / internal reordering: the permutation bookkeeping
(emu_mps/optimatrix/permutations.py, `permute_results` & co. in emu_mps/mps_backend_impl.py,
`MPSConfig.check_permutable_observables`).

Lean: EmuVerif.Props.C03 (same gather, two-sided inverse, composition law, un-permuting the
site-order results returns the register-order results, reordering only with permutable
observables; `C03_full` stated, proved from solver equivariance only: PARTIAL).
Correspondence: exact — the real helper functions and the real `permute_results` on synthetic
`pulser.backend.Results` objects against Model.Perm. Oracle on the real code: the helper laws and
"un-permuting a site-order Results gives the register-order Results".
No end-to-end back-end runs yet (defects D1/D2/D3 of DESIGN §6 are being repaired): see notes/perm.md.
"""
from __future__ import annotations

import json
from types import SimpleNamespace

from harness.common import LeanError, Report, f2b, lst, lean_stage, seeded
from harness.props import perm_common as pc
from harness.props.extra_stage import ExtraLeanStage

REGISTRY = dict(
    text=("PARTIAL. Lean 4 theorems for every n, every permutation and every payload: permute_list/tuple/string/tensor are "
          "the same gather k -> x[p[k]] (matrices M[p[a]][p[b]]) and raise exactly on an out-of-range index / non-square "
          "matrix; inv_permutation is a two-sided inverse; permute(permute(x,p),q) = permute(x, permute(p,q)); permute_results "
          "applied to the site-order results (atom_order, occupations, correlation matrices, bitstring keys gathered by p) "
          "returns the register-order results exactly (atom_order = qubit_ids, values and counts unchanged, other tags "
          "untouched); the effective optimize_qubit_ordering is on only for observables that are un-permuted or whole-register "
          "scalars. The end-to-end claim (C03_full) is proved only from the assumption that the solver is equivariant under "
          "relabelling (C03_partial): solver accuracy is assumed, and end-to-end runs are not yet searched because the known "
          "defects D1/D2/D3 are being repaired. Model tied to the code by exact correspondence. For the IDEAL solver (exact "
          "matrix exponential of the piecewise-constant dense Hamiltonian of C05, any N, d, permutation, schedule; Rydberg and XY) the "
          "assumption is discharged in Props/C03Ideal.lean: siteEmb_conj / hamiltonian_relabel (P_s H(h,U) P_s^T = H(h.s, U.(s x s))), "
          "ideal_run_relabel, bitstring_prob_relabel, occupation_relabel, correlation_relabel, energy_relabel, idealRun_equivariant "
          "(Equivariant idealRun), C03_ideal (C03_full idealRun) and installed_is_reorder / C03_ideal_installed (what the C02 "
          "constructor model installs is Problem.reorder p); the site-order dependence of the real TDVP/Krylov solver (1e-8..1e-5 "
          "measured) stays an assumption validated by the end-to-end metamorphic search."),
    note=("Trusted: Lean kernel + propext/Classical.choice/Quot.sound; Mathlib; hand-written Model.Perm tied by correspondence "
          "only (n <= 30, synthetic Results); the solver (TDVP/DMRG, P H P^T conjugation, drives and dark-atom mask) is outside "
          "this check; dtype handling of torch index tensors and the float32 conversion of list-valued results are outside "
          "the model; negative indices are outside the modelled domain."),
    technique="Lean 4 proof (list lemmas, all n) + exact model/implementation correspondence",
    design_ref="DESIGN.md §5 C03",
)

PROP_MODULE = "EmuVerif.Props.C03"
AUDIT = "Audit/C03.lean"
# ideal-solver equivariance (matrix exponential: heavier Mathlib) — built, grepped and audited on every run, beside the Python side
EXTRA_STAGES = [("EmuVerif.Props.C03Ideal", "Audit/C03Ideal.lean")]


# ------------------------------------------------------------------ synthetic Results
def gen_results_case(rng, only=None):
    """A register-order results payload for n atoms + a permutation + which tags are stored and how
    (torch tensors as produced by a run, or nested lists as after deserialisation)."""
    n = rng.choice([1, 2, 3, 4, rng.randint(2, 12), rng.randint(2, 30)])
    p = rng.choice([pc.rand_perm(rng, n), pc.rand_perm(rng, n), list(range(n)), list(range(n))[::-1]])
    ids = [rng.choice(["q", "a", "atom"]) + str(i) for i in range(n)]
    if rng.random() < 0.2:
        ids = [str(i) for i in pc.rand_perm(rng, n)]            # numeric, scrambled labels
    nt = rng.randint(1, 3)
    case = dict(n=n, p=p, ids=ids, permute=rng.random() < 0.85, nt=nt, as_list=rng.random() < 0.35)
    want = (lambda tag, pr: rng.random() < pr) if only is None else (lambda tag, pr: tag in only)
    if only is not None:
        case["permute"] = True
        if n >= 3:
            case["p"] = non_involution(rng, n)
    if want("bitstrings", 0.75):
        alpha = rng.choice(["01", "01", "rg", "01x"])
        counters = []
        for t in range(nt):
            keys = []
            for _ in range(rng.randint(1, 6)):
                k = "".join(rng.choice(alpha) for _ in range(n))
                if k not in keys:
                    keys.append(k)
            counters.append([(k, rng.randint(1, 500)) for k in keys])
        case["bitstrings"] = counters
    if want("occupation", 0.8):
        # distinct, *not* float32-representable values: a float32 round trip of list-valued results shows
        case["occupation"] = [[(i + 1) / 64 + t + rng.uniform(0, 1e-3) for i in range(n)] for t in range(nt)]
    if want("correlation", 0.7):
        case["correlation"] = [[[(i * n + j) / 8 + 100 * t + rng.uniform(0, 1e-3) for j in range(n)] for i in range(n)]
                               for t in range(nt)]
    if want("energy", 0.6):
        case["energy"] = [rng.uniform(-5, 5) for _ in range(nt)]
    return case


def site_view(case):
    """Independent (plain Python) construction of what a run in site order reports: site k = atom p[k]."""
    p = case["p"]
    out = dict(ids=[case["ids"][i] for i in p])
    if "bitstrings" in case:
        out["bitstrings"] = [[("".join(k[i] for i in p), c) for k, c in ctr] for ctr in case["bitstrings"]]
    if "occupation" in case:
        out["occupation"] = [[v[i] for i in p] for v in case["occupation"]]
    if "correlation" in case:
        out["correlation"] = [[[m[i][j] for j in p] for i in p] for m in case["correlation"]]
    return out


def build_results(case, view):
    import uuid
    from collections import Counter
    import torch
    from pulser.backend.results import AggregationMethod, Results
    res = Results(atom_order=tuple(view["ids"]), total_duration=1000)
    as_list = case["as_list"]

    def store(tag, vals):
        u = uuid.uuid4()
        for t, v in enumerate(vals):
            res._store_raw(uuid=u, tag=tag, time=(t + 1) / len(vals), value=v, aggregation_method=AggregationMethod.SKIP)
    if "bitstrings" in view:
        store("bitstrings", [Counter(dict(ctr)) for ctr in view["bitstrings"]])
    if "occupation" in view:
        store("occupation", [v if as_list else torch.tensor(v, dtype=torch.float64) for v in view["occupation"]])
    if "correlation" in view:
        store("correlation_matrix", [m if as_list else torch.tensor(m, dtype=torch.float64) for m in view["correlation"]])
    if "energy" in case:
        store("energy", list(case["energy"]))
    return res


def tokv(x):
    return f2b(float(x))


def canon(ids, bitstrings, occupation, correlation):
    """the reply format of `perm.results` / `perm.site`"""
    def tag(x, enc):
        return "none" if x is None else ("|".join(enc(v) for v in x) if x else "_")
    return " ".join([
        "ok", lst(ids),
        tag(bitstrings, lambda c: ";".join(f"{k if k else '-'}:{cnt}" for k, cnt in c) if c else "_"),
        tag(occupation, lambda v: lst(tokv(x) for x in v)),
        tag(correlation, lambda m: pc.enc_rows(m, tokv)),
    ])


def extract(res):
    def get(tag):
        if tag not in res.get_result_tags():
            return None
        return res._results[res._find_uuid(tag)]
    bs = get("bitstrings")
    oc = get("occupation")
    co = get("correlation_matrix")
    tl = lambda v: v.tolist() if hasattr(v, "tolist") else v
    return (list(res.atom_order),
            None if bs is None else [list(c.items()) for c in bs],
            None if oc is None else [tl(v) for v in oc],
            None if co is None else [tl(m) for m in co],
            get("energy"))


def request_line(cmd, case, view):
    args = [pc.enc_perm(case["p"])] + (["1" if case["permute"] else "0"] if cmd == "perm.results" else [])
    c = canon(view["ids"], view.get("bitstrings"), view.get("occupation"), view.get("correlation"))
    return " ".join([cmd] + args + c.split(" ")[1:])


def results_correspondence(rep: Report, rng, ncases: int):
    """generator for pc.run_batched"""
    import torch
    from emu_mps.mps_backend_impl import MPSBackendImpl
    lines, exp, cases = [], [], []
    # every single-tag result set first (a tag handled only when another one is present would hide otherwise)
    singles = [("correlation",), ("occupation",), ("bitstrings",), ("correlation", "energy"), ("bitstrings", "correlation"),
               ("occupation", "correlation", "bitstrings", "energy")]
    for k in range(ncases):
        case = gen_results_case(rng, singles[k] if k < len(singles) else None)
        view = site_view(case)
        reg = dict(ids=case["ids"], bitstrings=case.get("bitstrings"), occupation=case.get("occupation"),
                   correlation=case.get("correlation"))
        res = build_results(case, view)
        stub = SimpleNamespace(qubit_permutation=torch.tensor(case["p"], dtype=torch.int64))
        try:
            out = MPSBackendImpl.permute_results(stub, res, case["permute"])
            ids, bs, oc, co, en = extract(out)
            got = canon(ids, bs, oc, co)
        except Exception as e:
            got = "raise"
            rep.fail(f"permute_results raised {type(e).__name__}: {e}", dict(kind="results", case=case))
            en = case.get("energy")
        # (1) model of permute_results on the same site-order input
        lines.append(request_line("perm.results", case, view)); exp.append(got); cases.append(("permute_results", case))
        # (2) the model's siteView is the harness's independent site view
        lines.append(request_line("perm.site", case, reg))
        exp.append(canon(view["ids"], view.get("bitstrings"), view.get("occupation"), view.get("correlation")))
        cases.append(("site_view", case))
        # (3) property oracle on the real code: un-permuting gives register order, other tags untouched
        if got != "raise":
            want = canon(reg["ids"], reg["bitstrings"], reg["occupation"], reg["correlation"]) if case["permute"] else \
                canon(view["ids"], view.get("bitstrings"), view.get("occupation"), view.get("correlation"))
            if got != want:
                rep.fail("permute_results does not return the register-order results" if case["permute"]
                         else "permute_results(…, False) changed the results", dict(kind="results", case=case))
            if en != case.get("energy"):
                rep.fail("permute_results changed a whole-register tag (energy)", dict(kind="results", case=case))
        rep.hist("results_n_bucket", f"{(case['n'] // 5) * 5}-{(case['n'] // 5) * 5 + 4}")
        rep.hist("results_tags", "+".join(t[:3] for t in ("bitstrings", "occupation", "correlation", "energy") if t in case) or "none")
        rep.hist("results_storage", "list" if case["as_list"] else "tensor")
        rep.hist("results_permute_flag", case["permute"])
    mo = yield lines
    if mo is None:
        return
    bad = 0
    for l, m, e, (what, case) in zip(lines, mo, exp, cases):
        rep.case(key=l, nontrivial=case["n"] >= 2 and case["p"] != list(range(case["n"])),
                 sample={"what": what, "n": case["n"], "p": case["p"][:8], "tags": [t for t in ("bitstrings", "occupation", "correlation") if t in case]})
        if m != e:
            bad += 1
            if bad <= 4:
                rep.broke(f"correspondence Model.Perm vs mps_backend_impl.py [{what}]: case={json.dumps(case)[:500]} model={m[:200]} impl={e[:200]}")
    rep.extra["results_disagreements"] = bad


# ------------------------------------------------------------------ check_permutable_observables
# tags whose value permute_results un-permutes, or that do not refer to individual atoms/sites (property text + DESIGN §5 C03)
SPEC_PERMUTABLE = {"bitstrings", "occupation", "correlation_matrix", "statistics", "energy", "energy_variance",
                   "energy_second_moment"}


def obs_oracle(requested: bool, names: list[str]):
    """build the MPSConfig; the reordering may stay on only if every observable is permutable. -> (tags, eff, msg)"""
    from harness import compat
    compat.install()
    import pulser.backend as pb
    import emu_mps
    mk = _obs_makers(pb, emu_mps)
    cfg = compat.mps_config(observables=[mk[x]() for x in names], optimize_qubit_ordering=requested)
    tags = [o._base_tag for o in cfg.observables]
    eff = bool(cfg.optimize_qubit_ordering)
    msg = None
    if eff and not set(tags) <= SPEC_PERMUTABLE:
        msg = f"optimize_qubit_ordering stays on with observables {sorted(set(tags) - SPEC_PERMUTABLE)} that are not un-permuted"
    if eff and not requested:
        msg = "optimize_qubit_ordering switched on although it was requested off"
    return tags, eff, msg


def _obs_makers(pb, emu_mps):
    return {
        "bitstrings": lambda: pb.BitStrings(evaluation_times=[1.0]),
        "occupation": lambda: pb.Occupation(evaluation_times=[1.0]),
        "correlation_matrix": lambda: pb.CorrelationMatrix(evaluation_times=[1.0]),
        "energy": lambda: pb.Energy(evaluation_times=[1.0]),
        "energy_variance": lambda: pb.EnergyVariance(evaluation_times=[1.0]),
        "energy_second_moment": lambda: pb.EnergySecondMoment(evaluation_times=[1.0]),
        "state": lambda: pb.StateResult(evaluation_times=[1.0]),
        "entanglement_entropy": lambda: emu_mps.EntanglementEntropy(mps_site=1, evaluation_times=[1.0]),
    }


def observables_correspondence(rep: Report, rng, ncases: int):
    """generator for pc.run_batched"""
    from harness import compat
    compat.install()
    import pulser.backend as pb
    import emu_mps
    mk = _obs_makers(pb, emu_mps)
    lines, exp, meta = [], [], []
    for _ in range(ncases):
        names = rng.sample(sorted(mk), rng.randint(1, 4))
        if rng.random() < 0.6:
            names = [x for x in names if x not in ("state", "entanglement_entropy")] or ["occupation"]
        requested = rng.random() < 0.8
        try:
            tags, eff, msg = obs_oracle(requested, names)
            if msg:
                rep.fail(msg, dict(kind="obs", requested=requested, names=names))
        except Exception as e:          # construction problems of third-party observables are not this property
            rep.count("observable_construction_skipped")
            rep.notes.append(f"observable construction skipped: {type(e).__name__}: {str(e)[:80]}") if len(rep.notes) < 3 else None
            continue
        lines.append(f"perm.obs {'1' if requested else '0'} {lst(tags)}")
        exp.append("1" if eff else "0")
        meta.append((requested, tags))
        rep.hist("effective_ordering", f"{requested}->{eff}")
    if not lines:
        rep.broke("check_permutable_observables: no MPSConfig could be constructed")
        return
    mo = yield lines
    if mo is None:
        return
    for l, m, e, (rq, tags) in zip(lines, mo, exp, meta):
        rep.case(key=l, nontrivial=rq, sample={"requested": rq, "tags": tags, "effective": e})
        if m != e:
            rep.broke(f"correspondence check_permutable_observables: requested={rq} tags={tags} model={m} impl={e}")


# ------------------------------------------------------------------ end-to-end metamorphic search (real back-end)
# per-atom results in [0,1]. Clean-tree spread between orders (precision=1e-10, dt=10): n=3: 5e-14; n=4 Rydberg: <= 1.2e-6
# with signed couplings (XY at n=4: 4e-5, therefore XY cases use n=3)
# (n=5: 7e-7 and 2 min per case — not run). Tolerance = max(1e-6, 1e4 x spread); a bookkeeping error (a drive, a mask
# entry or a result landing on the wrong atom) shows at the 1e-2..1 level.
def e2e_tol(n: int) -> float:
    return 1e-6 if n <= 3 else 1e-3



def non_involution(rng, n):
    """a site order p with p∘p != id (n >= 3): un-permuting twice is then visibly different from once"""
    while True:
        p = pc.rand_perm(rng, n)
        if n < 3 or [p[i] for i in p] != list(range(n)):
            return p


def gen_initial(rng, n, kind, letters):
    """user-supplied initial state in REGISTER order as [(basis string, [re, im]), …], not symmetric under
    any non-trivial permutation of the atoms (distinct per-atom weights / an asymmetric basis string)."""
    one, zero = letters
    if kind == "basis":
        while True:
            b = "".join(rng.choice(letters) for _ in range(n))
            if one in b and zero in b and b != b[::-1]:
                return [(b, [1.0, 0.0])]
    if kind == "product":
        # atom i in cos(th_i)|zero> + e^{i a_i} sin(th_i)|one> with distinct th_i
        th = [0.25 + 0.35 * i + rng.uniform(0, 0.1) for i in range(n)]
        al = [rng.uniform(0, 1.5) for _ in range(n)]
        import cmath, math, itertools
        out = []
        for bits_ in itertools.product((0, 1), repeat=n):
            amp = 1.0 + 0j
            for i, b in enumerate(bits_):
                amp *= cmath.exp(1j * al[i]) * math.sin(th[i]) if b else math.cos(th[i])
            out.append(("".join(one if b else zero for b in bits_), [amp.real, amp.imag]))
        return out
    # entangled: a few basis strings with unequal complex weights
    keys = []
    while len(keys) < 3:
        b = "".join(rng.choice(letters) for _ in range(n))
        if b not in keys:
            keys.append(b)
    ws = [0.8, 0.5, (1 - 0.64 - 0.25) ** 0.5]
    return [(b, [w * math_cos(a), w * math_sin(a)]) for b, w, a in zip(keys, ws, [0.0, rng.uniform(0.3, 2.5), rng.uniform(0.3, 2.5)])]


def math_cos(a):
    import math
    return math.cos(a)


def math_sin(a):
    import math
    return math.sin(a)


def gen_e2e(rng, nmax, sign=None, ham=None, initial=None, dark=None):
    import math
    sign = sign or rng.choice(["nonneg", "mixed", "mixed", "negative"])
    ham = ham or rng.choice(["Rydberg", "Rydberg", "XY"])
    initial = initial or rng.choice(["none", "none", "basis", "product", "entangled"])
    if ham == "XY":
        initial = "none"        # MPS.from_state_amplitudes: "Unsupported basis provided" for ("u","d")
    if dark:
        initial = "none"        # an initial state together with state-preparation errors is NotImplemented
    n = rng.randint(3, nmax)
    if dark == "one":
        n = 3
    if dark == "prefix":
        n = 5
    if ham == "XY" or initial != "none":
        # clean-tree order/solver dependence at n=4: XY 4e-5, user-supplied initial states up to 1.6e-4 — too close to
        # any useful tolerance; at n=3 everything agrees to 1e-11
        n = 3           # order-dependence of the XY solver at n=4 is ~4e-5 (clean tree): too close to any useful tolerance
    pts = [(rng.uniform(0, 8 * n), rng.uniform(0, 6)) for _ in range(n)]
    U = [[0.0] * n for _ in range(n)]
    for i in range(n):
        for j in range(i + 1, n):
            U[i][j] = U[j][i] = 5420158.53 / (math.dist(pts[i], pts[j]) + 6.0) ** 6
    for i in range(n):
        for j in range(i + 1, n):
            sg = {"nonneg": 1.0, "negative": -1.0, "mixed": rng.choice([1.0, -1.0])}[sign]
            U[i][j] = U[j][i] = sg * U[i][j]
    if sign == "mixed" and all(U[i][j] >= 0 for i in range(n) for j in range(n)):
        U[0][1] = U[1][0] = -U[0][1]
    steps = rng.randint(2, 4)
    case = dict(n=n, U=U, steps=steps, sign=sign, ham=ham, real_order=rng.random() < 0.3,
                omega=[[rng.uniform(2, 8) for _ in range(n)] for _ in range(steps)],      # per-atom drives
                delta=[[rng.uniform(-6, 6) for _ in range(n)] for _ in range(steps)],
                phi=[[rng.uniform(0, 1) for _ in range(n)] for _ in range(steps)],
                ids=[f"q{i}" for i in range(n)],
                bad=[False] * n, site_perm=non_involution(rng, n), relabel=pc.rand_perm(rng, n),
                kill_after=rng.randint(1, 3))
    case["initial_kind"] = initial
    case["initial"] = None if initial == "none" else gen_initial(rng, n, initial, ("u", "d") if ham == "XY" else ("r", "g"))
    if dark is None and rng.random() < 0.3 and case["initial"] is None:
        dark = "one"
    if dark == "one":
        # one dark atom (two when n >= 4); with a non-involutive (hence fixed-point-free at n = 3) forced site order the
        # dark pattern is not invariant under the permutation
        for i in rng.sample(range(n), 1 if n < 4 else rng.choice([1, 2])):
            case["bad"][i] = True
        while [case["bad"][i] for i in case["site_perm"]] == case["bad"]:
            case["site_perm"] = non_involution(rng, n)
        case["real_order"] = False
    if dark == "prefix":
        # exactly two good atoms; forced site order whose prefix of length #good is the identity although the order is
        # not: the good atoms sit in the moved part, so that permuting the interaction matrix matters
        case["site_perm"] = [0, 1, 3, 4, 2]
        good = rng.choice([(2, 3), (3, 4), (2, 4), (1, 3), (0, 4)])
        case["bad"] = [i not in good for i in range(n)]
        case["real_order"] = False
        # strong drives (both good atoms get excited) and …
        case["omega"] = [[rng.uniform(15, 30) for _ in range(n)] for _ in range(case["steps"])]
        # … strong, pairwise distinct couplings: which pair of atoms interacts must be visible within 20-40 ns
        for i in range(n):
            for j in range(i + 1, n):
                sg = -1.0 if case["U"][i][j] < 0 else 1.0
                case["U"][i][j] = case["U"][j][i] = sg * (8.0 + 9.0 * i + 5.0 * j)
    case["dark"] = dark or "none"
    return case


class InputMutated(Exception):
    pass


class NoResumePoint(Exception):
    pass


def _killed_and_resumed(data, cfg, forced, k):
    """first k progress() calls of a fresh run (every call autosaves: the fake clock jumps 100 s per reading),
    then the process 'dies' (the impl object is dropped) and `MPSBackend.resume(copy of the autosave)` finishes."""
    import shutil
    from unittest import mock
    from harness import autosave_util as U
    import emu_mps.mps_backend_impl as impl_mod
    from emu_mps.mps_backend import MPSBackend

    class Ticking(U.FakeClock):
        def time(self):
            self.now += 100.0
            return self.now
    with U.workdir() as tmp, U.fake_time(Ticking(0.0), also_backend=True):
        with mock.patch.object(impl_mod.optimat, "minimize_bandwidth", forced):
            impl = impl_mod.create_impl(data, cfg)
            impl.init()
        done, copy = 0, tmp / "snapshot.dat"
        have = False
        while done < k and not impl.is_finished():
            impl.progress()
            done += 1
            if not impl.is_finished() and impl.autosave_file.is_file():
                shutil.copy(impl.autosave_file, copy)       # the latest point at which the run could still be killed
                have = True
        if not have:
            # very short runs (two well-prepared atoms, two steps) finish within the first progress calls
            raise NoResumePoint(f"run finished after {done} progress calls")
        del impl
        return MPSBackend.resume(copy)


def run_backend(case, order, site_perm, optimise, resume_after=None):
    """emu-mps on the atoms listed in `order` (a relabelling of the register), with the internal site
    order forced to `site_perm` when the optimisation is on (any permutation is a legal optimiser answer).
    `resume_after=k`: the run is killed after k `progress()` calls (an autosave is forced at every call by a
    fake clock) and finished by `MPSBackend.resume` from a copy of the autosave file.
    -> {atom id: occupation}, {(id, id): correlation}, energy"""
    import torch
    from unittest import mock
    from harness import compat
    import pulser.backend as pb
    import emu_mps.mps_backend_impl as impl_mod
    g = lambda rows: [[r[i] for i in order] for r in rows]
    U = [[case["U"][i][j] for j in order] for i in order]
    ids = [case["ids"][i] for i in order]
    tt = [10.0 * k for k in range(case["steps"] + 1)]
    xy = case.get("ham") == "XY"
    data = compat.make_sequence_data(g(case["omega"]), g(case["delta"]), g(case["phi"]), U, tt, qubit_ids=ids,
                                     bad_atoms=[case["bad"][i] for i in order],
                                     state_prep_error=0.1 if any(case["bad"]) else 0.0,   # the mask is honoured only then
                                     eigenstates=("u", "d") if xy else ("r", "g"), hamiltonian_type="XY" if xy else "Rydberg")
    probe_times = [0.0, 0.5 * tt[-1], tt[-1]]
    before = [data.interaction_matrix(t).detach().clone().view(torch.int64) for t in probe_times]
    ev = E2E_TIMES
    letters = ("u", "d") if xy else ("r", "g")
    extra = {}
    if case.get("initial"):
        from emu_mps import MPS
        # the same physical state written for the atoms in `order`: position k of the label is atom order[k]
        extra["initial_state"] = MPS.from_state_amplitudes(
            eigenstates=letters, amplitudes={"".join(b[i] for i in order): complex(*a) for b, a in case["initial"]})
    obs = [pb.Occupation(evaluation_times=ev), pb.CorrelationMatrix(evaluation_times=ev), pb.Energy(evaluation_times=ev)]
    if case.get("initial_kind") == "basis":
        obs.append(pb.BitStrings(evaluation_times=[0.0], num_shots=20))
    cfg = compat.mps_config(observables=obs, optimize_qubit_ordering=optimise, dt=10, precision=1e-10,
                            **({"autosave_dt": 11} if resume_after is not None else {}), **extra)
    real_mb = impl_mod.optimat.minimize_bandwidth
    use_real = case.get("real_order") and resume_after is None

    def forced(M):
        # the real optimiser runs on the very tensor the back-end hands it (its side effects are part of
        # the run); only its *answer* is replaced by the forced order unless the case asks for the real one
        ans = real_mb(M, samples=3) if not use_real else real_mb(M)
        return ans if use_real else torch.tensor(site_perm, dtype=torch.int64)
    if resume_after is None:
        with mock.patch.object(impl_mod.optimat, "minimize_bandwidth", forced):
            r = compat.run_mps(data, cfg)
    else:
        r = _killed_and_resumed(data, cfg, forced, resume_after)
    after = [data.interaction_matrix(t).detach().clone().view(torch.int64) for t in probe_times]
    if not all(torch.equal(a, b) for a, b in zip(before, after)):
        raise InputMutated("SequenceData.interaction_matrix(t) is not bit-identical after the run "
                           f"(optimize_qubit_ordering={optimise}): the run modified its input in place")
    return collect(case, r)


E2E_TIMES = [0.0, 1.0]


def collect(case, r):
    """per-atom values keyed by atom *identifier* (so that runs in different orders are comparable):
    ({key: float}, atom_order, {register-order bitstring: count} at t=0 or None)"""
    import torch
    ao = list(r.atom_order)
    vals = {}
    for t in E2E_TIMES:
        occ = torch.as_tensor(r.get_result("occupation", t)).real.tolist()
        cor = torch.as_tensor(r.get_result("correlation_matrix", t)).real.tolist()
        for k, a in enumerate(ao):
            vals[("occupation", t, a)] = occ[k]
            for l, b in enumerate(ao):
                vals[("correlation", t, a, b)] = cor[k][l]
        vals[("energy", t)] = float(r.get_result("energy", t))
    bits0 = None
    if "bitstrings" in r.get_result_tags():
        pos = {a: k for k, a in enumerate(ao)}
        bits0 = {}
        for b, c in r.get_result("bitstrings", 0.0).items():
            key = "".join(b[pos[a]] for a in case["ids"])          # rewritten in the case's register order
            bits0[key] = bits0.get(key, 0) + c
    return vals, ao, bits0


def dense_reference(case):
    """(a) t = 0 straight from the amplitudes (definition of occupation / <n_i n_j>); (b) Rydberg without dark
    atoms: the dense state-vector back-end emu-sv on the same SequenceData and the same initial state."""
    import torch
    from harness import compat
    import pulser.backend as pb
    n, ids = case["n"], case["ids"]
    ref = {}
    if case["ham"] != "XY" and not any(case["bad"]):
        amps = case["initial"] or [("g" * n, [1.0, 0.0])]
        norm = sum(a[0] ** 2 + a[1] ** 2 for _, a in amps)
        for i, a in enumerate(ids):
            ref[("occupation", 0.0, a)] = sum(x[0] ** 2 + x[1] ** 2 for b, x in amps if b[i] == "r") / norm
            for j, b_ in enumerate(ids):
                ref[("correlation", 0.0, a, b_)] = sum(x[0] ** 2 + x[1] ** 2 for b, x in amps if b[i] == "r" and b[j] == "r") / norm
        tt = [10.0 * k for k in range(case["steps"] + 1)]
        data = compat.make_sequence_data(case["omega"], case["delta"], case["phi"], case["U"], tt, qubit_ids=ids)
        extra = {}
        if case["initial"]:
            from emu_sv import StateVector
            extra["initial_state"] = StateVector.from_state_amplitudes(
                eigenstates=("r", "g"), amplitudes={b: complex(*a) for b, a in case["initial"]})
        ev = E2E_TIMES
        cfg = compat.sv_config(observables=[pb.Occupation(evaluation_times=ev), pb.CorrelationMatrix(evaluation_times=ev),
                                            pb.Energy(evaluation_times=ev)], dt=10, **extra)
        sv = collect(case, compat.run_sv(data, cfg))[0]
        for k, v in sv.items():
            if k[1] == 1.0 or k[0] == "energy":
                ref[k] = v
    return ref


def _dist(got, ref):
    """largest deviation over the keys of `ref` (energies relative to 1+|E|), and where"""
    worst, where = 0.0, None
    for k, v in ref.items():
        d = abs(got[k] - v) / (1 + abs(v)) if k[0] == "energy" else abs(got[k] - v)
        if not d <= worst:
            worst, where = d, k
    return worst, where


def e2e_oracle(case, full=True):
    """C03 on one problem (full=False: without the combined relabelled+reordered leg): reordering on/off, relabelling and kill+resume give the same per-atom results, at t = 0
    and at the end, for the default and for user-supplied initial states; and they are the dense reference's.
    Failure string or None."""
    n = case["n"]
    ident = list(range(n))
    tol = e2e_tol(n - sum(case["bad"]))          # only the well-prepared atoms are simulated
    worst = 0.0
    base, base_ao, base_bits = run_backend(case, ident, ident, False)
    for k, v in base.items():
        if k[0] != "energy" and any(case["bad"][case["ids"].index(a)] for a in k[2:]) and v != 0.0:
            return f"ordering off: {k} = {v!r} although a badly prepared (dark) atom is involved", worst
    ref = dense_reference(case)
    if ref:
        d, where = _dist(base, ref)
        worst = max(worst, d)
        if not d <= tol:
            return f"ordering off: {where} differs from the dense reference by {d:.3e} > {tol}", worst
    legs = (("optimize_qubit_ordering on", ident, case["site_perm"], True, None),
            ("relabelled register", case["relabel"], ident, False, None),
            ("relabelled register + ordering on", case["relabel"], case["site_perm"], True, None) if full else None,
            (f"ordering on, killed after {case.get('kill_after', 2)} progress calls and resumed",
             ident, case["site_perm"], True, case.get("kill_after", 2)))
    for name, order, sp, opt, res in (l for l in legs if l):
        try:
            got, ao, bits0 = run_backend(case, order, sp, opt, res)
        except InputMutated as e:
            return f"{name}: {e}", worst
        except NoResumePoint:
            case["resume_leg"] = "skipped (run too short)"
            continue
        if ao != [case["ids"][i] for i in order]:
            return f"{name}: atom_order {ao} is not the register order", worst
        d, where = _dist(got, base)
        worst = max(worst, d)
        if not d <= tol:
            return f"{name}: {where} differs from the run with ordering off by {d:.3e} > {tol}", worst
        if ref:
            d, where = _dist(got, ref)
            if not d <= tol:
                return f"{name}: {where} differs from the dense reference by {d:.3e} > {tol}", worst
        if base_bits is not None and bits0 != base_bits:
            return f"{name}: bitstrings of the basis state at t=0 are {bits0}, with ordering off {base_bits}", worst
    if base_bits is not None and list(base_bits) != [case["initial"][0][0].replace("r", "1").replace("g", "0")]:
        return f"ordering off: a run started in basis state {case['initial'][0][0]} samples {base_bits} at t=0", worst
    return None, worst


def e2e_search(rep: Report, rng, ncases: int, nmax: int, full: bool = True) -> None:
    worst = 0.0
    for k in range(ncases):
        # the first cases always carry mixed-sign couplings (a signed user matrix, XY) and the three kinds of
        # user-supplied initial states
        # (quick tier: only the first four, without the combined relabelled+reordered leg)
        # and the two dark-atom patterns (one dark atom under a fixed-point-free site order; two good atoms under a
        # site order with an identity prefix)
        fixed = (("mixed", "Rydberg", "entangled", None), ("mixed", "XY", "none", None), ("nonneg", "Rydberg", "none", "one"),
                 ("mixed", "Rydberg", "none", "prefix"), ("nonneg", "Rydberg", "product", None), ("negative", "Rydberg", "basis", None),
                 ("mixed", "XY", "none", "one"))
        case = gen_e2e(rng, nmax, *(fixed[k] if k < len(fixed) else (None, None, None, None)))
        try:
            msg, w = e2e_oracle(case, full)
        except Exception as e:
            msg, w = f"back-end raised {type(e).__name__}: {str(e)[:160]}", 0.0
        worst = max(worst, w)
        if msg:
            rep.fail(msg, dict(kind="e2e", case=case))
        rep.case(key=("e2e", json.dumps(case["site_perm"] + case["relabel"]), case["n"], case["steps"]),
                 nontrivial=case["site_perm"] != list(range(case["n"])), trace=False,
                 sample={"what": "e2e", "n": case["n"], "site_perm": case["site_perm"], "relabel": case["relabel"], "bad": case["bad"]})
        rep.hist("e2e_n", case["n"])
        rep.hist("e2e_dark_atoms", f"{case.get('dark', 'none')}:{sum(case['bad'])}of{case['n']}")
        rep.hist("e2e_interaction_sign", case["sign"])
        rep.hist("e2e_hamiltonian", case["ham"])
        rep.hist("e2e_order", "real optimiser" if case["real_order"] else "forced")
        rep.hist("e2e_initial_state", case["initial_kind"])
        rep.hist("e2e_resume_leg", case.get("resume_leg", "run"))
    rep.extra["e2e_worst_difference"] = worst
    rep.extra["e2e_tolerance"] = "1e-6 (n=3), 1e-3 (n=4)"


# ------------------------------------------------------------------ check
def laws(rep, rng, n_cases):
    for _ in range(n_cases):
        n = rng.randint(0, 30)
        p, q = pc.rand_perm(rng, n), pc.rand_perm(rng, n)
        labels = [f"q{i}" for i in range(n)]
        s = "".join(rng.choice("01") for _ in range(n))
        try:
            msg = pc.helper_laws(p, q, labels, s)
        except Exception as e:
            msg = f"permutation helper raised {type(e).__name__}: {e}"
        if msg:
            rep.fail(msg, dict(kind="helpers", p=p, q=q, s=s))
        rep.case(key=("laws", tuple(p), tuple(q)), nontrivial=n >= 2, trace=False)


def check(rep: Report, tier: str, seed: int) -> None:
    rep.rule = ("cases = one call of a permutation helper (index lists: permutations of 0..n-1, n <= 30, identity/reverse, legal "
                "non-permutation gathers, out-of-range indices; payloads: labels with repeats, strings over 5 alphabets incl. "
                "non-ASCII, int/float tensors, square and non-square matrices), one call of permute_results on a synthetic Results "
                "(random subset of bitstrings/occupation/correlation_matrix/energy, 1-3 evaluation times, tensors or lists, flag "
                "on/off), or one MPSConfig construction with a random observable set. non-trivial = n >= 2 and a non-identity "
                "permutation; distinct = distinct request lines")
    rep.assumptions = [
        "PARTIAL: solver equivariance under relabelling (Equivariant) is assumed, not proved; end-to-end runs are not searched yet "
        "(D1/D2/D3 of DESIGN §6 are being repaired)",
        "Props/C03Ideal.lean proves Equivariant / C03_full for the IDEAL solver only (exact exp(-i t_k H_k) of the dense Hamiltonian, "
        "every N, permutation, schedule); the real TDVP/Krylov/truncation solver is not the ideal exponential: its site-order "
        "dependence (1e-8..1e-5 measured, notes/perm.md) is assumed small and validated by the metamorphic end-to-end search",
        "Results are synthetic (built with pulser's Results._store_raw), not produced by a back-end run",
    ]
    lean_stage(rep, PROP_MODULE, AUDIT, thorough=(tier == "thorough"))
    extra = ExtraLeanStage(rep, EXTRA_STAGES, thorough=(tier == "thorough"))     # concurrent with the Python side
    extra.start()
    rng = seeded(seed * 7919 + 3)
    quick = tier == "quick"
    pc.run_batched(rep, [pc.helper_correspondence_gen(rep, rng, 200 if quick else 8000),
                         results_correspondence(rep, rng, 60 if quick else 2000),
                         observables_correspondence(rep, rng, 25 if quick else 200)], k=1 if quick else 8)
    laws(rep, rng, 150 if quick else 5000)
    probe_list_precision(rep)
    probe_tag_suffix(rep)
    e2e_search(rep, rng, 4 if quick else 30, 3 if quick else 4, full=not quick)
    extra.merge()
    if rep.broken and not rep.unknown_failing():
        search(rep, seed, 400 if quick else 5000)


SUFFIX_CLASS = "permute_results-tag-suffix"


def tag_suffix_probe(site_perm):
    """real 3-atom run with per-atom drives, the same observables once with the plain tag and once with a
    `tag_suffix`: with reordering on, the suffixed results must be in register order too (= the plain ones)."""
    import torch
    from unittest import mock
    from harness import compat
    import pulser.backend as pb
    import emu_mps.mps_backend_impl as impl_mod
    U = [[0, 3.0, 1.0], [3.0, 0, 2.0], [1.0, 2.0, 0]]
    steps = 2
    tt = [10.0 * k for k in range(steps + 1)]
    om, de, ph = [[4.0, 6.0, 8.0]] * steps, [[1.0, -2.0, 3.0]] * steps, [[0.0, 0.0, 0.0]] * steps
    ev = [1.0]
    obs = [pb.Occupation(evaluation_times=ev), pb.Occupation(evaluation_times=ev, tag_suffix="x"),
           pb.CorrelationMatrix(evaluation_times=ev), pb.CorrelationMatrix(evaluation_times=ev, tag_suffix="y")]
    cfg = compat.mps_config(observables=obs, optimize_qubit_ordering=True, dt=10, precision=1e-10)
    with mock.patch.object(impl_mod.optimat, "minimize_bandwidth", lambda M: torch.tensor(site_perm, dtype=torch.int64)):
        r = compat.run_mps(compat.make_sequence_data(om, de, ph, U, tt), cfg)
    occ, occx = (torch.as_tensor(r.get_result(t, 1.0)).real for t in ("occupation", "occupation_x"))
    cor, cory = (torch.as_tensor(r.get_result(t, 1.0)).real for t in ("correlation_matrix", "correlation_matrix_y"))
    if float((occ - occx).abs().max()) > 1e-9:
        return (f"with optimize_qubit_ordering on, Occupation(tag_suffix='x') is reported in site order: "
                f"occupation={[round(x, 6) for x in occ.tolist()]} occupation_x={[round(x, 6) for x in occx.tolist()]}")
    if float((cor - cory).abs().max()) > 1e-9:
        return "with optimize_qubit_ordering on, CorrelationMatrix(tag_suffix='y') is reported in site order"
    return None


def probe_tag_suffix(rep: Report) -> None:
    p = [1, 2, 0]
    try:
        msg = tag_suffix_probe(p)
    except Exception as e:
        msg = f"back-end raised {type(e).__name__}: {str(e)[:160]}"
    if msg:
        rep.fail(msg, dict(kind="tag_suffix", site_perm=p), klass=SUFFIX_CLASS)
    rep.case(key=("tag_suffix", tuple(p)), nontrivial=True, trace=False)


F32_CLASS = "permute_results-list-valued-float32"


def list_precision_probe(p, occ):
    """`permute_results` on *list-valued* occupations that are not float32-representable (the branch for
    deserialised results): must return the same numbers. Failure string or None."""
    import torch
    from emu_mps.mps_backend_impl import MPSBackendImpl
    case = dict(n=len(p), p=p, ids=[f"q{i}" for i in range(len(p))], permute=True, nt=1, as_list=True, occupation=[occ])
    res = build_results(case, site_view(case))
    stub = SimpleNamespace(qubit_permutation=torch.tensor(p, dtype=torch.int64))
    _, _, oc, _, _ = extract(MPSBackendImpl.permute_results(stub, res, True))
    got = [float(x) for x in oc[0]]
    if got != occ:
        return (f"permute_results changed list-valued occupations {occ} into {got} "
                "(torch.tensor(list) is float32)")
    return None


def probe_list_precision(rep: Report) -> None:
    for p, occ in (([2, 0, 1], [0.1, 0.7, 0.3]), ([1, 0], [1 / 3, 2 / 3])):
        try:
            msg = list_precision_probe(p, occ)
        except Exception as e:
            msg = f"permute_results raised {type(e).__name__}: {e}"
        if msg:
            rep.fail(msg, dict(kind="list_f32", p=p, occ=occ), klass=F32_CLASS)
        rep.case(key=("list_f32", tuple(p)), nontrivial=True, trace=False)


def search(rep: Report, seed: int, n: int) -> None:
    """Failing-input search on the real code only: helper laws on many more permutations (all
    permutations for n <= 5), permute_results oracle on many more synthetic Results."""
    import itertools
    rng = seeded(seed * 104729 + 3)
    for k in range(0, 6):
        for p in itertools.permutations(range(k)):
            q = pc.rand_perm(rng, k)
            msg = pc.helper_laws(list(p), q, [f"q{i}" for i in range(k)], "".join(rng.choice("01") for _ in range(k)))
            if msg:
                rep.fail(msg, dict(kind="helpers", p=list(p), q=q, s="0" * k))
                return
    laws(rep, rng, n)
    if rep.failing:
        return
    sub = Report(rep.prop, rep.tier, rep.seed)
    pc.run_batched(sub, [results_correspondence(sub, rng, n)])
    rep.failing += sub.failing
    if not rep.unknown_failing():
        e2e_search(rep, rng, max(4, n // 100), 4)
    rep.extra["search_cases"] = n


def replay(rep: Report, path: str) -> int:
    import torch
    from emu_mps.mps_backend_impl import MPSBackendImpl
    data = json.load(open(path))
    bad = 0
    for f in data.get("failing_inputs", []):
        d = f["data"]
        msg = None
        try:
            if d["kind"] == "helpers":
                msg = pc.helper_laws(d["p"], d["q"], [f"q{i}" for i in range(len(d["p"]))], d["s"])
            elif d["kind"] == "tag_suffix":
                msg = tag_suffix_probe(d["site_perm"])
            elif d["kind"] == "list_f32":
                msg = list_precision_probe(d["p"], d["occ"])
            elif d["kind"] == "e2e":
                msg = e2e_oracle(d["case"], True)[0]
            elif d["kind"] == "obs":
                msg = obs_oracle(d["requested"], d["names"])[2]
            elif d["kind"] == "results":
                case = d["case"]
                for k in ("bitstrings",):
                    if k in case:
                        case[k] = [[tuple(kv) for kv in ctr] for ctr in case[k]]
                view = site_view(case)
                res = build_results(case, view)
                stub = SimpleNamespace(qubit_permutation=torch.tensor(case["p"], dtype=torch.int64))
                ids, bs, oc, co, en = extract(MPSBackendImpl.permute_results(stub, res, case["permute"]))
                got = canon(ids, bs, oc, co)
                src = dict(ids=case["ids"], bitstrings=case.get("bitstrings"), occupation=case.get("occupation"),
                           correlation=case.get("correlation")) if case["permute"] else view
                want = canon(src["ids"], src.get("bitstrings"), src.get("occupation"), src.get("correlation"))
                if got != want:
                    msg = "permute_results does not return the expected results"
                elif en != case.get("energy"):
                    msg = "permute_results changed a whole-register tag (energy)"
            else:
                msg = f"cannot replay kind {d['kind']}"
        except Exception as e:
            msg = f"raised {type(e).__name__}: {e}"
        print("replay:", msg or "property holds on this input now")
        bad += bool(msg)
    return 1 if bad else 0
