"""C04 — back-ends reject what they cannot emulate instead of returning wrong results.

Lean: EmuVerif.Props.C04 (576-cell feature table, x2 with the 'interaction matrix changes mid-run' axis,
checked cell by cell by the kernel, lifted to
every SequenceData by the abstraction lemma; whole-pipeline soundness; emu-sv rejects XY / any
level count but 2; digital-basis sequences never emulated). Correspondence: EXHAUSTIVE — every cell
of the table is realised by a concrete hand-built SequenceData + config and run through the real
`<Backend>._run_from_sequence_data`; random concrete variations inside the cells check that only
the abstracted features matter; the adapter stage (`PulserData.__init__`,
`_get_all_lindblad_noise_operators`, `_extract_omega_delta_phi`) is compared on real and
duck-typed noise models and on real Pulser sequences end to end. Oracle: a back-end that returns
Results for something it does not implement is a violation, whatever the model says.
"""
from __future__ import annotations

import itertools
import json
import time

from harness.common import Driver, LeanError, Report, lean_stage, seeded
from harness import config_lib as L

REGISTRY = dict(
    text=("Lean 4 theorems about the model of the accept/reject logic (PulserData.__init__ basis detection, "
          "get_lindblad_operators rejections, _extract_omega_delta_phi, SVBackend._run_from_sequence_data guard, "
          "create_impl, DMRGBackendImpl/MPSBackendImpl constructors, NoisyMPSBackendImpl.init, MPS.make): the full "
          "feature table (backend x Hamiltonian type x level-count class x Lindblad-operator class x atom class x "
          "solver x configured noise = 576 cells) is checked cell by cell by the kernel and lifted to every "
          "SequenceData by a proved abstraction lemma: whenever Results are returned the emulated Hamiltonian is the "
          "one Pulser defines for that interaction type and level count and the back-end/solver implements it; "
          "everything else raises (no result); emu-sv raises for XY, unknown interaction types and every level count "
          "but 2; create_impl returns the implementation of the requested solver; from the channel bases, only pure "
          "ground-rydberg / pure XY sequences are emulated, digital never. Kernel-checked counterexamples for the tree "
          "before the two fixes. With the Hamiltonian kind recorded per time step (extra table axis: the interaction "
          "matrix changes mid-run, i.e. an SLM mask ends inside the sequence and emu-mps rebuilds its MPO): every step of "
          "a run that returns results uses the same, right Hamiltonian (run_kind_constant, runTable_sound; "
          "counterexample for a rebuild that defaults to Rydberg). Tied to the code by exhaustive cell-by-cell runs of "
          "the real back-ends plus random variations per cell; the operator family actually built and used at every "
          "step is observed by wrapping the MPO factor classes / make_H / update_H / the emu-sv operator constructors, "
          "and tiny dense references check the returned occupations."),
    note=("Trusted: Lean kernel + propext/Quot.sound; Mathlib tactics; hand-written Model.Config tied by correspondence "
          "only; that the operators built (RydbergHamiltonian, make_H) are Pulser's Hamiltonians is C01/C05/C06, not "
          "this property; Pulser's own basis report (interaction_type, dim) is a specification table validated against "
          "the installed pulser-core; emu-sv 'emulate' is identified with its single operator family."),
    technique="Lean 4 proof (kernel-checked finite table + abstraction lemma) + exhaustive cell-by-cell model/implementation correspondence",
    design_ref="DESIGN.md §5 C04",
)

PROP_MODULE = "EmuVerif.Props.C04"
AUDIT = "Audit/C04.lean"

# last coordinate: the interaction matrix changes inside the run (an SLM mask ends mid-sequence); it needs two
# atoms, so the 192 combinations "fewer than two atoms + changing matrix" do not exist
CELLS = [c for c in itertools.product(("sv", "mps"), ("rydberg", "xy"), ("d2", "d3", "other"),
                                      ("none", "ok", "uniformWrong", "mixed"), ("tooFew", "oneGood", "enough"),
                                      ("tdvp", "dmrg"), (False, True), (False, True))
         if not (c[4] == "tooFew" and c[7])]


def _ops_for(oc, dim, rng=None):
    if oc == "none":
        return []
    if rng is None:
        return {"ok": [dim], "uniformWrong": [dim + 1], "mixed": [dim, dim + 1]}[oc]
    k = rng.randint(1, 3)
    if oc == "ok":
        return [dim] * k
    if oc == "uniformWrong":
        w = rng.choice([d for d in (dim - 1, dim + 1, dim + 2) if d >= 1])
        return [w] * k
    other = rng.choice([d for d in (dim - 1, dim + 1, dim + 2) if d >= 1])
    ops = [dim] * rng.randint(0, 2) + [other] * rng.randint(1, 2) + [rng.choice([dim, other + 1])]
    rng.shuffle(ops)
    return ops if len(set(ops)) > 1 else ops + [ops[0] + 1]


def cell_spec(cell, rng=None):
    """Concrete (data spec, config spec) in `cell`: the representative (`rng=None`, = `rep` of
    Proofs/Config.lean) or a random variation."""
    b, ham, dc, oc, ac, s, cn, slm = cell
    hamn = "Rydberg" if ham == "rydberg" else "XY"
    if rng is None:
        dim = {"d2": 2, "d3": 3, "other": 4}[dc]
        n, bad, spe = {"tooFew": (1, [False], 0.0), "oneGood": (2, [True, False], 0.1),
                       "enough": (2, [False, False], 0.0)}[ac]
        return (dict(ham=hamn, eig=L.eigenstates(hamn, dim), op_dims=_ops_for(oc, dim), n=n, bad=bad, spe=spe,
                     slm=slm),
                dict(backend=b, solver=s, noise={"relaxation_rate": 0.1} if cn else {}))
    dim = {"d2": 2, "d3": 3}.get(dc) or rng.choice([1, 4, 5])
    eig = L.eigenstates(hamn, dim)
    if dim == 2 and rng.random() < 0.4:
        eig = rng.choice([["g", "h"], ["0", "1"], ["u", "d"], ["r", "g"], ["a", "b"]])
    if ac == "tooFew":
        n, bad, spe = 1, [rng.random() < 0.5], rng.choice([0.0, 0.2])
    elif ac == "oneGood":
        n = rng.choice([2, 3, 4])
        good = rng.choice([0, 1])
        bad = [True] * n
        for i in rng.sample(range(n), good):
            bad[i] = False
        spe = rng.choice([0.05, 0.3])
    else:
        n = rng.choice([2, 3])
        if rng.random() < 0.5:
            bad, spe = [rng.random() < 0.5 for _ in range(n)], 0.0       # flags ignored without SPAM
        else:
            n = rng.choice([3, 4])
            bad = [False] * n
            for i in rng.sample(range(n), rng.randint(0, n - 2)):
                bad[i] = True
            spe = 0.1
    noises = [z for z in L.NOISE_SPECS if z and L.try_noise_model(z) is not None]
    # BitStrings only on 2-level bases: `MPS.sample` has its own rejection (dim > 2 with p_false_pos > 0 →
    # NotImplementedError while the observable is computed), which is outside the modelled features
    obs = [["Occupation", None]] + ([["BitStrings", None]] if dim == 2 and rng.random() < 0.3 else [])
    nsteps = rng.choice([2, 3, 4])
    return (dict(ham=hamn, eig=eig, op_dims=_ops_for(oc, dim, rng), n=n, bad=bad, spe=spe,
                 nsteps=nsteps, numseed=rng.randint(1, 10 ** 9), slm=slm, slm_end_step=rng.randint(1, nsteps - 1)),
            dict(backend=b, solver=s, noise=rng.choice(noises) if cn else {}, obs=obs,
                 precision=rng.choice([1e-5, 1e-8]), solver_form=rng.choice(L.SOLVER_FORMS)))


def run_case(rep: Report, dspec, cspec, cell, lines, sink, origin):
    data, cfg = L.build_data(dspec), L.build_config(cspec)
    feat = L.features(cspec["backend"], data, cfg, cspec["solver"])
    if cell is not None and L.cell_of(feat) != tuple(cell):
        raise AssertionError(f"harness: built case is in cell {L.cell_of(feat)}, wanted {cell}")
    out, info = L.run_real(cspec["backend"], data, cfg)
    bad = L.oracle_run(cspec["backend"], data, cfg, out, info)
    if bad:
        rep.fail(bad[0], dict(kind="seq", data=dspec, cfg=cspec), klass=bad[1])
    lines.append(L.run_line(feat))
    sink.append(("seq:" + origin, dict(data=dspec, cfg=cspec, cell=list(L.cell_of(feat)), exc=info.get("exc"),
                                      steps=L.collapse(info.get("steps", []))), out))
    lines.append(L.run_line(feat, variant="asfound"))
    sink.append(("asfound", None, out))
    lines.append(L.run_line(feat, rebuild="default"))
    sink.append(("rebuild-default", None, out))
    if cspec["backend"] == "mps":
        lines.append(L.impl_line(feat))
        impl_out = L.impl_real(L.build_data(dspec), cfg)
        sink.append(("impl", dict(data=dspec, cfg=cspec), impl_out))
        lines.append(L.impl_line(feat, test="identity"))
        sink.append(("impl-identity", None, impl_out))
    rep.hist("outcome", out)
    return out


KIND_TYPES = ["relaxation", "dephasing", "depolarizing", "eff_noise", "leakage", "SPAM", "doppler", "amplitude",
              "detuning", "register", "dmm_sigma", "bogus", "Relaxation"]


def check_lind(rep: Report, rng, n_random, lines, sink):
    """`_get_all_lindblad_noise_operators` on real and on duck-typed noise models."""
    from emu_base.pulser_adapter import _get_all_lindblad_noise_operators as f
    cases = []
    for z in L.NOISE_SPECS:
        nm = L.try_noise_model(z)
        if nm is not None:
            for dim in (2, 3, 4):
                cases.append((nm, dim, dict(noise=z, dim=dim)))
    for _ in range(n_random):
        ts = sorted(rng.sample(KIND_TYPES, rng.randint(0, 5)))
        hf = rng.choice([0.0, 0.0, 0.3])
        eff = [rng.choice([2, 2, 3, 4]) for _ in range(rng.randint(0, 3))]
        dim = rng.choice([2, 3, 4])
        cases.append((L.fake_noise_model(ts, hf, eff), dim, dict(types=ts, hyperfine=hf, eff=eff, dim=dim)))
    for nm, dim, spec in cases:
        try:
            ops = f(nm, dim=dim, interact_type=rng.choice(["ising", "XY"]))
            bad = [tuple(o.shape) for o in ops if tuple(o.shape) != (dim, dim)]
            out = f"other:shapes{bad}" if bad else f"ok {len(ops)}"
        except Exception as e:
            out = "raise " + L.canon_exc(e)
        lines.append(f"config.lind {dim} " + (",".join(L.kinds_of(nm)) or "-"))
        sink.append(("lind", spec, out))
        rep.hist("lind_outcome", out if out.startswith("raise") else "ok")


def oracle_noise(nm, dim, out):
    """Noise the repository says it cannot emulate must never come with Results."""
    if not out.startswith("emulate"):
        return None
    if "dephasing" in nm.noise_types and nm.hyperfine_dephasing_rate != 0.0:
        return "Results returned with hyperfine_dephasing_rate != 0 (digital-basis-only noise)", \
            "emulates-hyperfine-dephasing"
    if "eff_noise" in nm.noise_types and any(len(op) != dim for op in nm.eff_noise_opers):
        return f"Results returned with effective-noise operators that are not {dim} x {dim}", \
            "emulates-misshapen-eff-noise"
    return None


def check_pipeline(rep: Report, rng, n_random, lines, sink, exhaustive_dims=(2, 3)):
    noises = [z for z in L.NOISE_SPECS if L.try_noise_model(z) is not None]
    cases = [(b, it, dim, z, s) for b in ("sv", "mps") for it in ("ising", "XY", "foo") for dim in exhaustive_dims
             for z in noises for s in ("tdvp", "dmrg") if not (b == "sv" and s == "dmrg")]
    cases += [(rng.choice(["sv", "mps"]), rng.choice(["ising", "XY", "xy", "", "Ising"]), rng.choice([2, 3, 4, 5]),
               rng.choice(noises), rng.choice(["tdvp", "dmrg"])) for _ in range(n_random)]
    for b, it, dim, z, s in cases:
        form = rng.choice(L.SOLVER_FORMS)
        out, data, cfg, info = L.pipeline_real(b, it, dim, z, s, solver_form=form)
        if data is not None:
            bad = L.oracle_run(b, data, cfg, out, info)
            if bad:
                rep.fail(bad[0], dict(kind="pipeline", backend=b, it=it, dim=dim, noise=z, solver=s, form=form), klass=bad[1])
        bad = oracle_noise(L.noise_model(z), dim, out)
        if bad:
            rep.fail(bad[0], dict(kind="pipeline", backend=b, it=it, dim=dim, noise=z, solver=s), klass=bad[1])
        if out.startswith("emulate") and (it not in ("ising", "XY") or (b == "sv" and (it != "ising" or dim != 2))):
            rep.fail(f"{b} returned Results for interaction type {it!r} with {dim} levels",
                     dict(kind="pipeline", backend=b, it=it, dim=dim, noise=z, solver=s),
                     klass="emulates-unsupported-interaction-type")
        lines.append(" ".join(["config.accept", "repaired", b, L.it_token(it), str(dim),
                               ",".join(L.kinds_of(L.noise_model(z))) or "-", s]))
        sink.append(("pipeline", dict(backend=b, it=it, dim=dim, noise=z, solver=s), out))
        rep.hist("pipeline_outcome", out)


SEQ_COMBOS = [(d, p) for d, ps in (("gr", ("gr", "")), ("dig", ("dig", "")), ("xy", ("xy", "")),
                                   ("dig,gr", ("dig,gr", "dig", "gr", "")), ("gr,xy", ("gr", "xy")))
              for p in ps]
SMALL_NOISES = [{}, {"relaxation_rate": 0.1}, {"with_leakage": True, "eff": [3]}]


def sequence_verdict(b, declared, pulsed, z, s, form="enum"):
    """One real Pulser sequence (channels of the bases in `declared`, pulses only on `pulsed`) through
    the real run(). → (out, basis, data, cfg, info, failures)"""
    out, basis, data, cfg, info = L.sequence_real(b, declared, z, s, pulsed=pulsed, solver_form=form)
    fails = []
    if out == "pulser-refused":
        return out, basis, data, cfg, info, fails
    if data is not None:
        bad = L.oracle_run(b, data, cfg, out, info)
        if bad:
            fails.append(bad)
    bad = oracle_noise(L.noise_model(z), basis[1], out) if basis is not None else None
    if bad:
        fails.append(bad)
    if out.startswith("emulate") and "dig" in pulsed.split(","):
        fails.append((f"{b} returned Results for a sequence that PULSES the digital (raman) basis "
                      f"(declared channels: {declared}; pulsed: {pulsed}) — a basis it does not implement",
                      "emulates-unsupported-pulsed-basis"))
    return out, basis, data, cfg, info, fails


def check_sequences(rep: Report, lines, sink, rng=None):
    """Real Pulser sequences end to end: every set of declared channel bases Pulser accepts
    (ground-rydberg, digital, both, XY; XY + anything is refused by Pulser) x which of them are
    actually pulsed (all, one, none — the others only get a delay)."""
    from emu_base.pulser_adapter import _extract_omega_delta_phi, PulserData
    noises = [z for z in L.NOISE_SPECS if L.try_noise_model(z) is not None]
    for declared, pulsed in SEQ_COMBOS:
        spec0 = dict(declared=declared, pulsed=pulsed)
        # the extraction step alone, on the real samples
        try:
            pd = PulserData(sequence=L.pulser_sequence(declared, pulsed=pulsed),
                            config=L.build_config(dict(backend="sv", solver="tdvp")), dt=10.0)
        except Exception as e:      # Pulser refuses the combination / could not sample it
            rep.count("extract_skipped_" + type(e).__name__)
            pd = None
        if pd is not None:
            try:
                _extract_omega_delta_phi(next(iter(pd.hamiltonian.noisy_samples)).samples, pd.qubit_ids, pd.target_times)
                out = "ok"
            except Exception as e:
                out = "raise " + L.canon_exc(e)
            for g in ("declared", "used"):
                lines.append(f"config.extractg {g} {declared} {pulsed or '-'}")
                sink.append(("extract" if g == "declared" else "extract-used", spec0, out))
        # nothing pulsed: no leakage noise — pulser-core 1.9.1 then appends "x" to a module-level default eigenbasis and
        # every later sequence in the process is reported with 3 levels (third-party state leak, not the repository's)
        for z in (noises if pulsed == declared else (SMALL_NOISES if pulsed else SMALL_NOISES[:2])):
            leak = bool(z.get("with_leakage"))
            for b, s, form in (("sv", "tdvp", "enum"), ("mps", "tdvp", "enum"), ("mps", "dmrg", "enum"),
                               ("mps", "dmrg", "str"), ("mps", "tdvp", "repr")):
                out, basis, data, cfg, info, fails = sequence_verdict(b, declared, pulsed, z, s, form)
                spec = dict(kind="sequence", backend=b, bases=declared, pulsed=pulsed, noise=z, solver=s, form=form)
                if basis is not None:
                    lines.append(f"config.basis {declared} {pulsed or '-'} {'1' if leak else '0'}")
                    sink.append(("basis", dict(declared=declared, pulsed=pulsed, leak=leak),
                                 f"some {L.it_token(basis[0])} {basis[1]}"))
                if out == "pulser-refused":
                    rep.count("sequence_pulser_refused")
                    continue
                for msg, klass in fails:
                    rep.fail(msg, spec, klass=klass)
                if data is not None:
                    # the back-end stage on the adapter's own SequenceData, classified by what it is
                    feat = L.features(b, data, cfg, s)
                    lines.append(L.seq_line(feat))
                    sink.append(("seq:sequence", dict(spec, cell=list(L.cell_of(feat))), out))
                    if feat["good"] < feat["n"]:
                        # Pulser drew badly prepared atoms (SPAM): `acceptSequence` is stated for a fully
                        # prepared register; the run is judged by the `config.seq` line above only
                        rep.count("sequence_with_badly_prepared_atoms")
                        continue
                kinds = ",".join(L.kinds_of(L.noise_model(z))) or "-"
                for fixed in ("0", "1"):     # tree before / after the D22 fix (C33) in run()
                    lines.append(" ".join(["config.sequence", "declared", "repaired", fixed, b, declared, pulsed or "-",
                                           "1" if leak else "0", kinds, s]))
                    sink.append(("sequence" if fixed == "0" else "sequence-fixed", spec, out))
                lines.append(" ".join(["config.sequence", "used", "repaired", "1", b, declared, pulsed or "-",
                                       "1" if leak else "0", kinds, s]))
                sink.append(("sequence-used", spec, out))
                rep.hist("sequence_outcome", f"declared={declared} pulsed={pulsed or 'none'}: {out}")


def dense_specs(rng, n_random):
    out = [dict(backend=b, ham=ham, n=n, slm=slm, nsteps=3, slm_end_step=1, numseed=7 + n)
           for b, ham in (("mps", "XY"), ("mps", "Rydberg"), ("sv", "Rydberg")) for slm in (False, True) for n in (2, 3)]
    for _ in range(n_random):
        b, ham = rng.choice([("mps", "XY"), ("mps", "XY"), ("mps", "Rydberg"), ("sv", "Rydberg")])
        nsteps = rng.choice([2, 3, 4])
        out.append(dict(backend=b, ham=ham, n=rng.choice([2, 3]), slm=rng.random() < 0.7, nsteps=nsteps,
                        slm_end_step=rng.randint(1, nsteps - 1), numseed=rng.randint(1, 10 ** 9)))
    return out


def dense_verdict(spec):
    out, err, info, data, cfg = L.dense_real(spec)
    bad = L.oracle_run(spec["backend"], data, cfg, out, info)
    if bad and not (err is not None and not err <= L.DENSE_TOL):
        return out, err, bad
    if not out.startswith("emulate"):
        return out, err, (f"{spec['backend']} raised for a supported 2-level {spec['ham']} sequence: "
                          f"{info.get('exc')}", "rejects-supported-sequence")
    if err is not None and not err <= L.DENSE_TOL:
        return out, err, (f"{spec['backend']} occupations {[round(x, 6) for x in info['occupation']]} differ from the dense "
                          f"{spec['ham']} reference {[round(x, 6) for x in info['reference']]} by {err:.3g} "
                          f"(> {L.DENSE_TOL}); hamiltonians in use: {L.collapse(info.get('steps', []))}",
                          "results-differ-from-dense-reference")
    return out, err, None


def check_dense(rep: Report, rng, n_random):
    """Tiny dense references (2-3 atoms, 2-4 steps, SLM mask ending after a step): the returned
    occupations must be those of the Hamiltonian Pulser defines, over the whole run."""
    worst = 0.0
    for spec in dense_specs(rng, n_random):
        out, err, bad = dense_verdict(spec)
        if bad:
            rep.fail(bad[0], dict(kind="dense", spec=spec), klass=bad[1])
        worst = max(worst, err or 0.0)
        rep.case(key=("dense", L.jd(spec)), nontrivial=bool(spec["slm"]),
                 sample=dict(kind="dense", spec=spec, outcome=out, max_abs_err=err))
        rep.hist("dense_case", f"{spec['backend']} {spec['ham']} slm={spec['slm']}")
    rep.extra["dense_reference_max_abs_err"] = worst
    rep.extra["dense_reference_tolerance"] = L.DENSE_TOL


def check(rep: Report, tier: str, seed: int) -> None:
    rep.rule = ("exhaustive: all 960 realisable cells of 576 x {interaction matrix constant, changes mid-run (SLM mask "
                "ends after a step)} (backend x ham type x {2,3,other} levels x {no, dim x dim, uniformly wrong, "
                "mixed} Lindblad operators x {<2 atoms, <=1 well prepared, enough} x solver x configured noise), each "
                "realised by its representative SequenceData/config (2 atoms, 2 steps) on the real back-end; + random "
                "variations inside randomly chosen cells (atom count 1-4, level count 1/4/5, operator counts/sizes/"
                "entries, eigenstate names, drives, interactions, step count, SPAM flags, noise model, observables, "
                "precision); + _get_all_lindblad_noise_operators on every constructible NoiseModel x dim 2-4 and on "
                "duck-typed noise-type lists (incl. unknown names); + PulserData.__init__ with a stubbed Pulser basis "
                "report x back-end (interaction type x dim x noise model x solver); + real Pulser sequences "
                "(ground-rydberg, digital, both, XY) x noise model x back-end end to end. "
                "non-trivial = every case (each is a distinct decision path); distinct = distinct driver lines")
    rep.assumptions = [
        "the Hamiltonian in use is observed, step by step, by harness-side wrappers: emu-mps = which MPO factor class "
        "(Rydberg/XY, dim) make_H instantiated for the MPO that update_H is about to fill; emu-sv = its "
        "RydbergHamiltonian/RydbergLindbladian constructions (its only operator family)",
        "dense reference: matrix exponential per step of the Hamiltonian Pulser defines (phi = 0, 2 levels, noiseless); "
        "tolerance 1e-6 on occupations (>= 1e4 x the clean-tree spread, << the 0.05-0.25 XY/Rydberg difference)",
        "Pulser's basis report (interaction_type, dim per channel-basis set, +1 with leakage) is a specification table "
        "(Model.Config.pulserBasis) validated against the installed pulser-core on every run",
        "sequences Pulser itself refuses (e.g. XY + relaxation) never reach the repository and are skipped (counted)",
        "real Pulser sequences: the (k,N,N) interaction tensor of pulser-core 1.9.1 is reduced to its first slice "
        "before the back-end runs (environment shim, see harness/compat.py)",
    ]
    t0 = time.time()
    lean_stage(rep, PROP_MODULE, AUDIT, thorough=(tier == "thorough"))
    rep.extra["t_lean_stage_s"] = round(time.time() - t0, 1)
    L.compat.install()
    rng = seeded(seed * 7919 + 4)
    quick = tier == "quick"
    lines: list = []
    sink: list = []
    for cell in CELLS:
        # how the solver is requested is a further axis of the mps cells: the Solver member, the documented string,
        # a config round-tripped through its abstract representation
        for form in (("enum", "str", "repr") if cell[0] == "mps" else ("enum",)):
            dspec, cspec = cell_spec(cell)
            cspec["solver_form"] = form
            run_case(rep, dspec, cspec, cell, lines, sink, "cell")
    rep.extra["cells_enumerated"] = len(CELLS)
    rep.extra["cells_not_realisable"] = "192 (fewer than two atoms x changing interaction matrix)"
    nvar = 500 if quick else len(CELLS) * 8
    for i in range(nvar):
        cell = CELLS[i % len(CELLS)] if not quick else rng.choice(CELLS)
        dspec, cspec = cell_spec(cell, rng)
        run_case(rep, dspec, cspec, cell, lines, sink, "variation")
    if not quick:       # reordering on: the permutation search must not change the decision
        for cell in [c for c in CELLS if c[0] == "mps" and c[4] == "enough"][::12]:
            dspec, cspec = cell_spec(cell, rng)
            cspec["reorder"] = True
            run_case(rep, dspec, cspec, cell, lines, sink, "variation-reorder")
    check_dense(rep, rng, 24 if quick else 600)
    check_lind(rep, rng, 300 if quick else 20000, lines, sink)
    check_pipeline(rep, rng, 40 if quick else 2000, lines, sink)
    check_sequences(rep, lines, sink)
    rep.extra["t_real_code_s"] = round(time.time() - t0 - rep.extra["t_lean_stage_s"], 1)
    try:
        model = Driver().batch(lines)
    except LeanError as e:
        rep.broke("driver: " + str(e)[-800:])
        model = [None] * len(lines)
    dis, asfound_hits, rebuild_hits, used_hits, identity_hits = 0, 0, 0, 0, 0
    last_seq = (None, None)
    prev = pending = None
    d20 = {"asFound": 0, "repaired": 0}
    for line, (kind, spec, out), mo in zip(lines, sink, model):
        if kind == "impl-identity":
            # variant resolution: solver tested by identity (`is Solver.DMRG`, t09-C33)?
            pline, (pk, pspec, pout), pmo = prev
            if pk == "impl" and pmo is not None and pmo != pout and mo == pout:
                identity_hits += 1
            continue
        if kind in ("sequence-used", "extract-used"):
            # variant resolution: the single-basis guard counting only bases with non-zero samples (t11-C04)
            if mo is not None and last_seq[0] is not None and last_seq[0] != last_seq[1] and mo == last_seq[1]:
                used_hits += 1
            continue
        if kind == "extract":
            last_seq = (mo, out)
        if kind == "sequence":
            pending = mo
            continue
        if kind == "sequence-fixed":
            # the real run() must match the model before or after the D22 fix in run()
            if mo is not None and pending != mo and out in (pending, mo):
                d20[("asFound" if out == pending else "repaired")] += 1
            mo = pending if out == pending else mo
            kind = "sequence"
            last_seq = (mo, out)
        if kind == "rebuild-default":
            pline, (pk, pspec, pout), pmo = prev
            if pmo is not None and pmo != pout and mo == pout:
                rebuild_hits += 1
            continue
        if kind == "asfound":
            # variant resolution: does the real code behave like the tree *before* the fixes here?
            pline, (pk, pspec, pout), pmo = prev
            if pmo is not None and pmo != pout and mo == pout:
                asfound_hits += 1
            continue
        prev = (line, (kind, spec, out), mo)
        rep.case(key=line, nontrivial=True, sample=dict(kind=kind, spec=spec, outcome=out))
        if mo is not None and mo != out:
            dis += 1
            if dis <= 6:
                rep.broke(f"correspondence Model.Config vs real code ({kind}): spec={L.jd(spec)[:500]} "
                          f"model={mo} impl={out}")
    rep.extra["correspondence_disagreements"] = dis
    rep.extra["run_dmrg_effective_noise_check_variant_matches"] = d20
    rep.extra["cases_matching_the_pre_fix_variant_only"] = asfound_hits
    rep.extra["cases_matching_solver_tested_by_identity_only"] = identity_hits
    if identity_hits:
        rep.broke(f"{identity_hits} create_impl case(s) behave like SolverTest.byIdentity (`is Solver.DMRG`: a solver "
                  "requested as the string 'dmrg' or round-tripped through the abstract repr is not recognised), for "
                  "which Props/C04 proves solver_identity_counterexample")
    rep.extra["cases_matching_the_used_bases_extract_guard_only"] = used_hits
    if used_hits:
        rep.broke(f"{used_hits} sequence/extract case(s) behave like ExtractGuard.used (the single-basis guard of "
                  "_extract_omega_delta_phi counts only bases with non-zero samples while the selection looks at the "
                  "declared ones), for which Props/C04 proves extract_guard_used_counterexample")
    rep.extra["cases_matching_the_default_rydberg_rebuild_variant_only"] = rebuild_hits
    if rebuild_hits:
        rep.broke(f"{rebuild_hits} case(s) behave like Rebuild.defaultRydberg (the MPO rebuilt at the end of an SLM "
                  "mask is a Rydberg one whatever the basis), for which Props/C04 proves "
                  "run_kind_defaultRydberg_counterexample")
    if asfound_hits:
        rep.broke(f"{asfound_hits} case(s) have the outcome Variant.asFound predicts (the tree before the emu-sv basis "
                  "guard / create_impl solver-first fixes; other variants listed here may predict the same outcome), "
                  "for which Props/C04 proves counterexamples")
    if rep.broken and not rep.unknown_failing():
        search(rep, seed, 3000 if quick else 40000)


def search(rep: Report, seed: int, n: int) -> None:
    """Failing-input search on the real code only: random variations in every cell with the
    property oracle (no model involved), then the pipeline and sequence streams."""
    rng = seeded(seed * 104729 + 4)
    lines, sink = [], []
    for i in range(n):
        cell = CELLS[i % len(CELLS)]
        dspec, cspec = cell_spec(cell, rng)
        run_case(rep, dspec, cspec, cell, lines, sink, "search")
        if rep.failing:
            return
    check_dense(rep, rng, n // 20)
    if not rep.unknown_failing():
        check_pipeline(rep, rng, n // 10, lines, sink, exhaustive_dims=(2, 3, 4))
    if not rep.unknown_failing():
        check_sequences(rep, lines, sink)
    rep.extra["search_cases"] = n


def replay(rep: Report, path: str) -> int:
    L.compat.install()
    data = json.load(open(path))
    bad = 0
    for f in data.get("failing_inputs", []):
        d = f["data"]
        if d["kind"] == "dense":
            out, err, bad = dense_verdict(d["spec"])
            msg = bad[0] if bad else None
        elif d["kind"] == "seq":
            dd, cc = L.build_data(d["data"]), L.build_config(d["cfg"])
            out, info = L.run_real(d["cfg"]["backend"], dd, cc)
            msg = L.oracle_run(d["cfg"]["backend"], dd, cc, out, info)
            msg = msg[0] if msg else None
        elif d["kind"] == "pipeline":
            out, dd, cc, info = L.pipeline_real(d["backend"], d["it"], d["dim"], d["noise"], d["solver"],
                                                d.get("form", "enum"))
            msg = L.oracle_run(d["backend"], dd, cc, out, info) if dd is not None else None
            msg = msg[0] if msg else None
            if not msg:
                msg = oracle_noise(L.noise_model(d["noise"]), d["dim"], out)
                msg = msg[0] if msg else None
            if not msg and out.startswith("emulate") and (d["it"] not in ("ising", "XY") or (
                    d["backend"] == "sv" and (d["it"] != "ising" or d["dim"] != 2))):
                msg = f"Results for interaction type {d['it']!r} with {d['dim']} levels"
        else:
            out, basis, dd, cc, info, fails = sequence_verdict(d["backend"], d["bases"], d.get("pulsed", d["bases"]),
                                                               d["noise"], d["solver"], d.get("form", "enum"))
            msg = fails[0][0] if fails else None
        print(f"replay[{d['kind']}]: outcome={out}:", msg or "property holds on this input now")
        bad += bool(msg)
    return 1 if bad else 0
