"""C05 — the emu-mps MPO Hamiltonian equals the dense neutral-atom Hamiltonian
(emu_mps/hamiltonian.py: Rydberg/XY factor classes, make_H, update_H).

Lean: EmuVerif.Props.C05 (left-to-right contraction of the model's factors = dense Hamiltonian, every
N >= 2, every symmetric U, Rydberg/XY, any local operators; update_H clauses).
Correspondence: the factor tensors of the real classes against `Model.HamMPO` run at exact
rationals, ENTRY BY ENTRY (shapes included), for every interaction sparsity pattern of small N.
Oracle/search: the real factors contracted to a dense matrix against an independent dense builder.
"""
from __future__ import annotations

import contextlib
import io
import itertools
import json
import math
import time
from fractions import Fraction
from unittest import mock

from harness.common import Driver, LeanError, Report, lean_stage, seeded

REGISTRY = dict(
    text=("Lean 4 theorem for every N>=2, every symmetric interaction matrix over any commutative ring (every sparsity "
          "pattern and sign), Rydberg (1 channel kind, n) and XY (2 kinds sx,sy, factor 2), any local operator algebra "
          "(so dim 2 and 3, any drive and any complex noise block as the single-site term h_k), any unital linear site "
          "embeddings emb_k into any algebra R: the left-to-right contraction of the model's MPO factors is "
          "sum_k emb_k(h_k) + sum_{i<j} c U_ij sum_kinds emb_i(op) emb_j(op); the bond label lists of neighbouring "
          "factors agree (order included); update_H applied to the factors gives exactly the factors with the new "
          "single-site terms, for ANY finite sequence of in-place updates on one MPO (all-zero steps included; the result is "
          "the Hamiltonian of the last step), touches only the slots "
          "[0][0,:,:,0], [i][1,:,:,0] and last write wins. FULL. Model tied to the code by exact entry-by-entry "
          "comparison of every factor tensor (shapes included) on all 2^(N(N-1)/2) sparsity patterns for N<=5 "
          "(thorough: N<=6, N=7 sampled, dim 3, noise), and after every call of 2-3 update_H sequences on one MPO (zero / "
          "noise-only / one-atom / negative steps); non-symmetric matrices included at factor level."),
    note=("Trusted: Lean kernel + propext/Classical.choice/Quot.sound; Mathlib; hand-written Model.HamMPO tied by the "
          "exact correspondence only (generator-bounded: N<=7); complex128 rounding and torch indexing/einsum outside the "
          "theorem; cos/sin are inputs of the model (the code's omega*cos(phi), omega*sin(phi) products are taken as given)."),
    technique="Lean 4 proof (induction over sites, label-indexed bond invariant) + exact entry-by-entry model/implementation correspondence",
    design_ref="DESIGN.md §5 C05",
)

PROP_MODULE = "EmuVerif.Props.C05"
AUDIT = "Audit/C05.lean"
TOL = 1e-10   # property text: "equals the dense Hamiltonian"; allowance = 1e-10 * max(1, max|H|) for complex128 rounding


# ------------------------------------------------------------------ exact formatting
def shq(x) -> str:
    q = Fraction(x)
    return str(q.numerator) if q.denominator == 1 else f"{q.numerator}/{q.denominator}"


def fmt_factor(t, dim) -> str:
    """sparse exact dump of a (dl, d, d, dr) torch tensor, same format as Drv.HamMPO.showFactor"""
    if t.ndim != 4 or t.shape[1] != dim or t.shape[2] != dim:
        return f"BADSHAPE {tuple(t.shape)}"
    nzi = t.nonzero().tolist()           # lexicographic (a, p, q, b)
    ents = []
    for a, p, q, b in nzi:
        z = complex(t[a, p, q, b])
        ents.append(f"{a}.{p}.{q}.{b}={shq(z.real)}_{shq(z.imag)}")
    return f"{t.shape[0]} {t.shape[3]} " + (",".join(ents) if ents else "-")


def fmt_factors(fs, dim) -> str:
    return " | ".join(fmt_factor(f, dim) for f in fs)


def qlist(xs) -> str:
    xs = [shq(x) for x in xs]
    return ",".join(xs) if xs else "-"


# ------------------------------------------------------------------ real code
def impl_factor_list(typ, dim, U):
    """the factor tensors straight from the factor classes (no MPO constructor: works for any U)"""
    import torch
    from emu_mps.hamiltonian import RydbergHamiltonianMPOFactors, XYHamiltonianMPOFactors
    cls = RydbergHamiltonianMPOFactors if typ == "ryd" else XYHamiltonianMPOFactors
    with contextlib.redirect_stdout(io.StringIO()):
        return list(cls(torch.tensor(U, dtype=torch.float64), dim=dim))


def impl_make(typ, dim, U):
    import torch
    from emu_mps.hamiltonian import make_H
    from emu_base import HamiltonianType
    ht = HamiltonianType.Rydberg if typ == "ryd" else HamiltonianType.XY
    with contextlib.redirect_stdout(io.StringIO()):
        return make_H(interaction_matrix=torch.tensor(U, dtype=torch.float64), hamiltonian_type=ht, dim=dim,
                      num_gpus_to_use=0)


def impl_update(ham, omega, delta, phi, noise, cos_sin=None):
    """update_H; with `cos_sin=(c, s)` torch.cos/torch.sin are replaced by the given tapes (exact runs)."""
    import torch
    from emu_mps.hamiltonian import update_H
    om = torch.tensor(omega, dtype=torch.complex128)
    de = torch.tensor(delta, dtype=torch.complex128)
    ph = torch.tensor(phi, dtype=torch.float64)
    nz = torch.tensor(noise, dtype=torch.complex128)
    if cos_sin is None:
        update_H(ham, om, de, ph, nz)
    else:
        c = torch.tensor(cos_sin[0], dtype=torch.float64)
        s = torch.tensor(cos_sin[1], dtype=torch.float64)
        with mock.patch.object(torch, "cos", lambda x: c), mock.patch.object(torch, "sin", lambda x: s):
            update_H(ham, om, de, ph, nz)


def contract_dense(factors, dim):
    """real factors -> dense matrix (site 0 = most significant), plain numpy"""
    import numpy as np
    acc = None
    for f in factors:
        t = f.detach().cpu().numpy()
        if acc is None:
            acc = t
        else:
            dl, a, b, _ = acc.shape
            acc = np.einsum("xabr,rpqs->xapbqs", acc, t).reshape(dl, a * t.shape[1], b * t.shape[2], t.shape[3])
    assert acc.shape[0] == 1 and acc.shape[3] == 1
    return acc[0, :, :, 0]


def dense_reference(typ, dim, U, omega, delta, phi, noise):
    """independent dense Hamiltonian, Pulser convention, basis index 0 = g/'0', 1 = r/'1', (2 = x):
    sum_k [Om_k/2 (e^{-i phi_k}|0><1| + e^{+i phi_k}|1><0|) - delta_k |1><1| + noise]_k
    + sum_{i<j} U_ij n_i n_j                  (Rydberg)
    + sum_{i<j} U_ij (s+_i s-_j + s-_i s+_j)  (XY)"""
    import numpy as np
    n = len(U)

    def ket_bra(a, b):
        m = np.zeros((dim, dim), dtype=complex)
        m[a, b] = 1.0
        return m

    def at(ops):
        # I ⊗ … ⊗ op_k ⊗ … ⊗ I, identities between the given sites merged into one block each
        out = np.ones((1, 1), dtype=complex)
        prev = -1
        for k in sorted(ops):
            out = np.kron(np.kron(out, np.eye(dim ** (k - prev - 1), dtype=complex)), ops[k])
            prev = k
        return np.kron(out, np.eye(dim ** (n - prev - 1), dtype=complex))

    H = np.zeros((dim ** n, dim ** n), dtype=complex)
    nz = np.array(noise, dtype=complex)
    for k in range(n):
        hk = (omega[k] / 2) * (np.exp(-1j * phi[k]) * ket_bra(0, 1) + np.exp(1j * phi[k]) * ket_bra(1, 0)) \
            - delta[k] * ket_bra(1, 1) + nz
        H += at({k: hk})
    for i in range(n):
        for j in range(i + 1, n):
            if U[i][j] == 0:
                continue
            if typ == "ryd":
                H += U[i][j] * at({i: ket_bra(1, 1), j: ket_bra(1, 1)})
            else:
                H += U[i][j] * (at({i: ket_bra(0, 1), j: ket_bra(1, 0)}) + at({i: ket_bra(1, 0), j: ket_bra(0, 1)}))
    return H


# ------------------------------------------------------------------ generators
PAIR_VALUES = [Fraction(k, 4) for k in list(range(-12, 0)) + list(range(1, 13))]


def pattern_U(n, bits, rng):
    """symmetric matrix with the given sparsity pattern (bit per pair i<j) and random non-zero dyadic values"""
    U = [[Fraction(0)] * n for _ in range(n)]
    for b, (i, j) in zip(bits, itertools.combinations(range(n), 2)):
        if b:
            U[i][j] = U[j][i] = rng.choice(PAIR_VALUES)
    return U


def all_patterns(n):
    return itertools.product((0, 1), repeat=n * (n - 1) // 2)


def random_pattern(n, rng):
    p = rng.choice([0.15, 0.3, 0.5, 0.7, 0.9])
    return tuple(int(rng.random() < p) for _ in range(n * (n - 1) // 2))


def nonsym_U(n, rng):
    """any square matrix (diagonal included: the constructor zeroes it), sparse, dyadic"""
    p = rng.choice([0.2, 0.4, 0.7])
    return [[(rng.choice(PAIR_VALUES) if rng.random() < p else Fraction(0)) for _ in range(n)] for _ in range(n)]


def dyadic(rng, den=8, lo=-24, hi=24):
    return Fraction(rng.randint(lo, hi), den)


STEP_KINDS = ("generic", "zero", "noise_only", "one_atom", "drive_only", "negative")
SEQ_TEMPLATES = [("generic", "zero"), ("generic", "zero", "generic"), ("noise_only", "zero"), ("negative", "zero", "one_atom"),
                 ("generic", "noise_only", "one_atom"), ("one_atom", "zero", "noise_only"), ("zero", "generic"),
                 ("drive_only", "zero", "drive_only"), ("generic", "one_atom"), ("zero", "zero", "negative"),
                 ("generic", "negative", "zero")]


def gen_single(rng, n, dim, noisy, kind="generic"):
    """exact single-site inputs: omega, delta complex dyadic, cos/sin tapes dyadic, noise dyadic complex.
    kind: generic | zero (omega = delta = 0 for every atom, noise = 0) | noise_only (zero drive, non-zero noise) |
    one_atom (zero noise, exactly one atom with a non-zero omega or delta) | drive_only (no noise) |
    negative (all omega, delta, noise entries <= 0, some < 0)"""
    cplx = rng.random() < 0.3
    om = [complex(dyadic(rng), dyadic(rng) if cplx else 0) for _ in range(n)]
    de = [complex(dyadic(rng), dyadic(rng) if cplx else 0) for _ in range(n)]
    cs = [float(dyadic(rng, 4, -4, 4)) for _ in range(n)]
    sn = [float(dyadic(rng, 4, -4, 4)) for _ in range(n)]
    if noisy:
        noise = [[complex(dyadic(rng), dyadic(rng)) if rng.random() < 0.8 else 0j for _ in range(dim)] for _ in range(dim)]
    else:
        noise = [[0j] * dim for _ in range(dim)]
    zn = [[0j] * dim for _ in range(dim)]
    if kind == "zero":
        om, de, noise = [0j] * n, [0j] * n, zn
    elif kind == "noise_only":
        om, de = [0j] * n, [0j] * n
        noise = [[complex(dyadic(rng), dyadic(rng)) for _ in range(dim)] for _ in range(dim)]
        noise[rng.randrange(dim)][rng.randrange(dim)] = complex(1.5, -0.25)
    elif kind == "one_atom":
        k = rng.randrange(n)
        v = complex(rng.choice([-1, 1]) * Fraction(rng.randint(1, 24), 8), 0)
        om, de, noise = [0j] * n, [0j] * n, zn
        if rng.random() < 0.5:
            om[k] = v
            cs[k] = cs[k] or 1.0
        else:
            de[k] = v
    elif kind == "drive_only":
        noise = zn
    elif kind == "negative":
        om = [complex(-abs(o.real) - 0.125, 0) for o in om]
        de = [complex(-abs(d.real), 0) for d in de]
        noise = [[complex(-abs(z.real), -abs(z.imag)) for z in r] for r in noise]
    return om, de, cs, sn, noise


def single_args(om, de, cs, sn, noise):
    sites = []
    for o, d, c, s in zip(om, de, cs, sn):
        oc, os_ = o * c, o * s           # exact: dyadic * dyadic
        sites += [oc.real, oc.imag, os_.real, os_.imag, d.real, d.imag]
    nz = []
    for row in noise:
        for z in row:
            nz += [z.real, z.imag]
    return qlist(sites), qlist(nz)


def line(typ, dim, U, mode="make", sites="-", noise="-"):
    n = len(U)
    return " ".join(["hammpo.factors", typ, str(dim), str(n), qlist(x for r in U for x in r), mode, sites, noise])


def seq_line(typ, dim, U, steps):
    """`hammpo.updseq`: steps = list of (sites, noise) argument strings, applied in sequence on one factor list"""
    n = len(U)
    return " ".join(["hammpo.updseq", typ, str(dim), str(n), qlist(x for r in U for x in r),
                     ";".join(st[0] for st in steps), ";".join(st[1] for st in steps)])


def batch_parallel(lines, k):
    """the batch split into k contiguous chunks, one driver process each (order preserved)"""
    from concurrent.futures import ThreadPoolExecutor
    if not lines:
        return []
    k = max(1, min(k, len(lines)))
    step = (len(lines) + k - 1) // k
    chunks = [lines[i:i + step] for i in range(0, len(lines), step)]
    with ThreadPoolExecutor(max_workers=len(chunks)) as ex:
        res = list(ex.map(lambda c: Driver().batch(c), chunks))
    return [x for r in res for x in r]


# ------------------------------------------------------------------ oracle on the real code
def oracle_case(typ, dim, U, steps):
    """The statement of C05 on one input of the real code. Returns a failure string or None.
    `steps` = the update_H calls made IN SEQUENCE on the same MPO (dicts omega, delta, phi, noise).
    Checks: make_H contracts to the interaction part; after EVERY update_H the MPO contracts to the full
    Hamiltonian of THAT step (an all-zero step must remove the previous drive/noise terms), the factor
    tensors are the same objects (in place) and only the single-site slots differ from make_H; finally
    update_H(first step) followed by update_H(last step) again leaves bit-identical tensors (last write wins)."""
    import numpy as np
    import torch
    n = len(U)
    Uf = [[float(x) for x in r] for r in U]
    zero = [0.0] * n
    zn = [[0j] * dim for _ in range(dim)]
    ham = impl_make(typ, dim, Uf)
    ids = [id(f) for f in ham.factors]
    before = [f.clone() for f in ham.factors]
    ref0 = dense_reference(typ, dim, Uf, zero, zero, zero, zn)
    scale = max(1.0, float(np.abs(ref0).max()))
    got0 = contract_dense(ham.factors, dim)
    if got0.shape != ref0.shape or not np.abs(got0 - ref0).max() <= TOL * scale:
        return f"make_H does not contract to the interaction Hamiltonian (max err {np.abs(got0 - ref0).max():.3e})"
    for k, st in enumerate(steps):
        impl_update(ham, st["omega"], st["delta"], st["phi"], st["noise"])
        ref = dense_reference(typ, dim, Uf, st["omega"], st["delta"], st["phi"], st["noise"])
        scale = max(1.0, float(np.abs(ref).max()))
        got = contract_dense(ham.factors, dim)
        if not np.abs(got - ref).max() <= TOL * scale:
            return (f"after update_H #{k + 1} of {len(steps)} (kind {st.get('kind', '?')}) the MPO differs from the dense "
                    f"Hamiltonian of that step (max err {np.abs(got - ref).max():.3e})")
        if [id(f) for f in ham.factors] != ids:
            return f"update_H #{k + 1} replaced factor tensors (not in place)"
        for i, (f, b) in enumerate(zip(ham.factors, before)):
            g = f.clone()
            g[0 if i == 0 else 1, :, :, 0] = b[0 if i == 0 else 1, :, :, 0]
            if not torch.equal(g, b):
                return f"update_H #{k + 1} changed entries of factor {i} outside the single-site slot"
    snap = [f.clone() for f in ham.factors]
    first, last = steps[0], steps[-1]
    other = first if len(steps) > 1 else dict(omega=[1.25 - x for x in first["omega"]], delta=[x + 0.5 for x in first["delta"]],
                                              phi=[x * 0.5 + 0.1 for x in first["phi"]],
                                              noise=[[z * (0.5 - 1j) + 0.25 for z in r] for r in first["noise"]])
    impl_update(ham, other["omega"], other["delta"], other["phi"], other["noise"])
    impl_update(ham, last["omega"], last["delta"], last["phi"], last["noise"])
    for i, (f, sn) in enumerate(zip(ham.factors, snap)):
        if not torch.equal(f, sn):
            return f"update_H is not last-write-wins on factor {i}"
    return None


def gen_step(rng, n, dim, kind):
    """one random real-valued update step of the given kind (see STEP_KINDS)"""
    omega = [rng.uniform(0, 12) for _ in range(n)]
    delta = [rng.uniform(-15, 15) for _ in range(n)]
    phi = [rng.uniform(-math.pi, 2 * math.pi) for _ in range(n)]
    noise = [[complex(rng.uniform(-2, 2), rng.uniform(-2, 2)) for _ in range(dim)] for _ in range(dim)]
    zn = [[0j] * dim for _ in range(dim)]
    if kind == "generic" and rng.random() < 0.4:
        noise = zn
    elif kind == "zero":
        omega, delta, noise = [0.0] * n, [0.0] * n, zn
    elif kind == "noise_only":
        omega, delta = [0.0] * n, [0.0] * n
    elif kind == "one_atom":
        k = rng.randrange(n)
        v = rng.choice([-1, 1]) * rng.uniform(0.1, 10)
        omega, delta, noise = [0.0] * n, [0.0] * n, zn
        if rng.random() < 0.5:
            omega[k] = abs(v)
        else:
            delta[k] = v
    elif kind == "drive_only":
        noise = zn
    elif kind == "negative":
        omega = [-x for x in omega]          # a negative amplitude is still a valid coefficient of the formula
        delta = [-abs(x) for x in delta]
        noise = [[complex(-abs(z.real), -abs(z.imag)) for z in r] for r in noise]
    return dict(kind=kind, omega=omega, delta=delta, phi=phi, noise=noise)


def gen_oracle_case(rng, n, dim, typ, bits=None):
    bits = bits if bits is not None else random_pattern(n, rng)
    U = [[0.0] * n for _ in range(n)]
    cancel = rng.random() < 0.25        # couplings of equal magnitude and mixed sign (row sums cancel exactly)
    for b, (i, j) in zip(bits, itertools.combinations(range(n), 2)):
        if b:
            U[i][j] = U[j][i] = rng.choice([-1, 1]) * (0.75 if cancel else rng.uniform(0.05, 12.0))
    kinds = rng.choice(SEQ_TEMPLATES)
    return dict(typ=typ, dim=dim, U=U, steps=[gen_step(rng, n, dim, k) for k in kinds])


def _ser_step(st):
    d = dict(st)
    d["noise"] = [[[z.real, z.imag] for z in r] for r in st["noise"]]
    return d


def _ser(c):
    return dict(typ=c["typ"], dim=c["dim"], U=[[float(x) for x in r] for r in c["U"]], steps=[_ser_step(st) for st in c["steps"]])


def _deser(d):
    def step(x):
        st = dict(x)
        st["noise"] = [[complex(a, b) for a, b in r] for r in x["noise"]]
        return st
    steps = d["steps"] if "steps" in d else [dict(omega=d["omega"], delta=d["delta"], phi=d["phi"], noise=d["noise"])]
    return dict(typ=d["typ"], dim=d["dim"], U=d["U"], steps=[step(x) for x in steps])


def exact_case(typ, dim, U, steps):
    """serialisable form of an exact (dyadic, cos/sin taped to phi=0 products) update sequence, for replays:
    omega*cos, omega*sin cannot be reproduced through phi, so the replay uses omega := |oc| etc. only as a witness
    of the shape; the dense oracle is re-run on it."""
    return dict(typ=typ, dim=dim, U=[[float(x) for x in r] for r in U],
                steps=[dict(kind=k, omega=[float(abs(o)) for o in om], delta=[float(d.real) for d in de], phi=[0.0] * len(om),
                            noise=[[[float(z.real), float(z.imag)] for z in r] for r in nz]) for k, om, de, nz in steps])


def run_oracle(rep: Report, c) -> bool:
    try:
        msg = oracle_case(c["typ"], c["dim"], c["U"], c["steps"])
    except Exception as e:   # the real code misbehaving is a candidate finding
        msg = f"real make_H/update_H raised {type(e).__name__}: {e}"
    if msg:
        rep.fail(msg, _ser(c))
        return True
    return False


# ------------------------------------------------------------------ check
def check(rep: Report, tier: str, seed: int) -> None:
    thorough = tier == "thorough"
    rep.rule = ("correspondence cases = (type, dim, U[, single-site inputs]); U = every sparsity pattern over the pairs "
                "i<j for N<=5 (thorough N<=6, N=7 sampled) with random non-zero dyadic values of both signs, plus "
                "non-symmetric dyadic matrices at factor level, plus update_H with dyadic drives/cos-sin tapes/noise, plus "
                "sequences of 2-3 update_H calls on one MPO compared after every call (all-zero steps, noise only, one atom, "
                "negative values); "
                "non-trivial = at least one non-zero coupling; distinct = distinct (type, dim, U, mode) lines")
    rep.assumptions = [
        "complex128 rounding is outside the theorem (exact-arithmetic statement; the code's tensors are compared exactly "
        "on dyadic inputs and to 1e-10*max|H| on random real inputs)",
        "cos(phi), sin(phi) enter the model as given numbers (oc = omega*cos(phi), os = omega*sin(phi))",
    ]
    t0 = time.time()
    lean_stage(rep, PROP_MODULE, AUDIT, thorough=thorough)
    rep.extra["t_lean_s"] = round(time.time() - t0, 1)
    t0 = time.time()
    rng = seeded(seed * 7919 + 5)

    lines, expect, meta = [], [], []

    def add(typ, dim, U, mode, impl_str, sites="-", noise="-", tag=""):
        lines.append(line(typ, dim, U, mode, sites, noise))
        expect.append(impl_str)
        meta.append((typ, dim, len(U), mode, tag, U))

    # (1) every sparsity pattern, symmetric U, make_H-level factors
    maxn_all = 6 if thorough else 5
    for n in range(2, maxn_all + 1):
        for bits in all_patterns(n):
            U = pattern_U(n, bits, rng)
            Uf = [[float(x) for x in r] for r in U]
            for typ in ("ryd", "xy"):
                dims = (2, 3) if (thorough and n <= 5) else (2,)
                for dim in dims:
                    try:
                        s = fmt_factors(impl_factor_list(typ, dim, Uf), dim)
                    except Exception as e:
                        rep.fail(f"factor class raised {type(e).__name__}: {e}",
                                 exact_case(typ, dim, Uf, [("zero", [0j] * n, [0j] * n, [[0j] * dim] * dim)]))
                        continue
                    add(typ, dim, U, "make", s, tag="pattern")
            rep.hist("patterns_N", n)
    # (2) sampled larger N / dim 3
    extra = [(7, 2, 6000)] if thorough else [(6, 2, 80), (7, 2, 40), (4, 3, 30), (5, 3, 30)]
    for n, dim, cnt in extra:
        for _ in range(cnt):
            U = pattern_U(n, random_pattern(n, rng), rng)
            Uf = [[float(x) for x in r] for r in U]
            typ = rng.choice(["ryd", "xy"])
            add(typ, dim, U, "make", fmt_factors(impl_factor_list(typ, dim, Uf), dim), tag="sampled")
    # (3) non-symmetric matrices, factor level (which triangle each mask / coefficient reads)
    for _ in range(4000 if thorough else 200):
        n = rng.randint(2, 6)
        U = nonsym_U(n, rng)
        Uf = [[float(x) for x in r] for r in U]
        typ = rng.choice(["ryd", "xy"])
        dim = rng.choice([2, 3])
        Uz = [[(0 if i == j else U[i][j]) for j in range(n)] for i in range(n)]   # fill_diagonal_(0)
        add(typ, dim, Uz, "make", fmt_factors(impl_factor_list(typ, dim, Uf), dim), tag="nonsym")
    # (4) update_H, exact: dyadic drives, cos/sin tapes, complex noise block; modes direct / upd / upd2
    for _ in range(3000 if thorough else 90):
        n = rng.randint(2, 6)
        dim = rng.choice([2, 3])
        typ = rng.choice(["ryd", "xy"])
        U = pattern_U(n, random_pattern(n, rng), rng)
        Uf = [[float(x) for x in r] for r in U]
        om, de, cs, sn, noise = gen_single(rng, n, dim, noisy=rng.random() < 0.7)
        try:
            ham = impl_make(typ, dim, Uf)
            mode = rng.choice(["direct", "upd", "upd2"])
            if mode == "upd2":
                om0, de0, cs0, sn0, noise0 = gen_single(rng, n, dim, noisy=True)
                impl_update(ham, om0, de0, [0.0] * n, noise0, cos_sin=(cs0, sn0))
            impl_update(ham, om, de, [0.0] * n, noise, cos_sin=(cs, sn))
            s = fmt_factors(ham.factors, dim)
        except Exception as e:
            rep.fail(f"make_H/update_H raised {type(e).__name__}: {e}", exact_case(typ, dim, Uf, [("generic", om, de, noise)]))
            continue
        sites, nz = single_args(om, de, cs, sn, noise)
        add(typ, dim, U, mode, s, sites, nz, tag="update")
    # (4b) update SEQUENCES on one MPO (2-3 update_H calls), compared after EVERY update with `updateH` folded in the
    # model: all-zero steps after driven/noisy ones, zero drive + noise, one non-zero atom, negative values
    for ci in range(2500 if thorough else 130):
        n = rng.randint(2, 6)
        dim = rng.choice([2, 3])
        typ = rng.choice(["ryd", "xy"])
        U = pattern_U(n, random_pattern(n, rng), rng)
        Uf = [[float(x) for x in r] for r in U]
        kinds = SEQ_TEMPLATES[ci % len(SEQ_TEMPLATES)] if ci < 4 * len(SEQ_TEMPLATES) else tuple(
            rng.choice(STEP_KINDS) for _ in range(rng.randint(2, 3)))
        done_steps, done_args = [], []
        try:
            ham = impl_make(typ, dim, Uf)
            for kind in kinds:
                om, de, cs, sn, noise = gen_single(rng, n, dim, noisy=rng.random() < 0.7, kind=kind)
                done_steps.append((kind, om, de, noise))
                done_args.append(single_args(om, de, cs, sn, noise))
                impl_update(ham, om, de, [0.0] * n, noise, cos_sin=(cs, sn))
                lines.append(seq_line(typ, dim, U, done_args))
                expect.append(fmt_factors(ham.factors, dim))
                meta.append((typ, dim, n, "seq:" + ">".join(k for k, *_ in done_steps), "updseq", U))
                rep.hist("seq_step_kind", kind)
        except Exception as e:
            rep.fail(f"make_H/update_H raised {type(e).__name__}: {e}", exact_case(typ, dim, Uf, done_steps))
            continue
    rep.extra["t_impl_factors_s"] = round(time.time() - t0, 1)
    t0 = time.time()
    try:
        out = batch_parallel(lines, 12 if thorough else 3)
    except LeanError as e:
        rep.broke("driver: " + str(e)[-800:])
        out = [None] * len(lines)
    rep.extra["t_driver_s"] = round(time.time() - t0, 1)
    t0 = time.time()
    dis = 0
    for l, m, e, (typ, dim, n, mode, tag, U) in zip(lines, out, expect, meta):
        nontriv = any(x != 0 for r in U for x in r)
        rep.case(key=l, nontrivial=nontriv,
                 sample={"type": typ, "dim": dim, "N": n, "mode": mode, "stream": tag, "factors": e[:160]})
        rep.hist("stream", tag)
        rep.hist("type_dim", f"{typ}{dim}")
        if m is not None and m != e:
            if tag == "nonsym":
                # informational only: interaction matrices are symmetric by construction and C05 is about those;
                # a change in which triangle a mask/coefficient reads is not a violation (recorded in the evidence)
                rep.count("nonsym_disagreements")
                continue
            dis += 1
            if tag == "updseq":
                rep.count("updseq_disagreements")
            if dis <= 5:
                rep.broke(f"correspondence Model.HamMPO vs hamiltonian.py [{tag}] typ={typ} dim={dim} N={n} mode={mode} "
                          f"U={[[str(x) for x in r] for r in U]} model={m[:400]} impl={e[:400]}")
    if rep.extra.get("nonsym_disagreements"):
        rep.notes.append("the factor classes read other triangles of a NON-symmetric matrix than Model.HamMPO does "
                         f"({rep.extra['nonsym_disagreements']} cases); irrelevant for symmetric matrices, model comment outdated")
    rep.extra["correspondence_disagreements"] = dis

    # (5) always-on oracle on the real code: contraction vs independent dense builder
    orng = seeded(seed * 104729 + 5)
    ncase = 0
    plan = []
    for n in range(2, 5):
        for bits in all_patterns(n):
            for typ in ("ryd", "xy"):
                plan.append((n, 2, typ, bits))
    for n, dim, cnt in ([(5, 2, 100), (6, 2, 30), (7, 2, 16), (2, 3, 6), (3, 3, 16), (4, 3, 16), (5, 3, 8)] if not thorough
                        else [(5, 2, 2048), (6, 2, 3000), (7, 2, 2000), (2, 3, 40), (3, 3, 200), (4, 3, 400), (5, 3, 400), (6, 3, 60)]):
        for _ in range(cnt):
            plan.append((n, dim, orng.choice(["ryd", "xy"]), None))
    for n, dim, typ, bits in plan:
        c = gen_oracle_case(orng, n, dim, typ, bits)
        ncase += 1
        rep.hist("oracle_N_dim", f"{n}/{dim}")
        if run_oracle(rep, c) and len(rep.failing) >= 10:
            break
    rep.extra["oracle_cases"] = ncase
    rep.extra["t_oracle_s"] = round(time.time() - t0, 1)
    if rep.broken and not rep.unknown_failing():
        search(rep, seed, thorough)


def search(rep: Report, seed: int, thorough: bool) -> None:
    """Failing-input search on the real code only (used when a proof or the correspondence broke):
    the dense oracle over EVERY sparsity pattern (N<=5; thorough N<=6), both types, dim 2 and 3
    (dim 3 up to N=4), then sampled N=6,7. The pattern space is where the bookkeeping can break, and it
    is enumerated, not sampled."""
    rng = seeded(seed * 15485863 + 5)
    cnt = 0
    for n in range(2, (6 if thorough else 5) + 1):
        for bits in all_patterns(n):
            for typ in ("ryd", "xy"):
                for dim in ((2, 3) if n <= 4 else (2,)):
                    cnt += 1
                    if run_oracle(rep, gen_oracle_case(rng, n, dim, typ, bits)):
                        return
    for n in (6, 7):
        for _ in range(400 if not thorough else 5000):
            cnt += 1
            if run_oracle(rep, gen_oracle_case(rng, n, 2, rng.choice(["ryd", "xy"]))):
                return
    rep.extra["search_cases"] = cnt


def replay(rep: Report, path: str) -> int:
    data = json.load(open(path))
    bad = 0
    for f in data.get("failing_inputs", []):
        c = _deser(f["data"])
        try:
            msg = oracle_case(c["typ"], c["dim"], c["U"], c["steps"])
        except Exception as e:
            msg = f"real make_H/update_H raised {type(e).__name__}: {e}"
        print("replay:", msg or "property holds on this input now")
        bad += bool(msg)
    return 1 if bad else 0
