"""C06 — emu-sv operators apply exactly the Hamiltonian and Lindbladian they represent; CPU and batched
matmul paths agree (emu_sv/hamiltonian.py, emu_sv/lindblad_operator.py, emu_base/math/matmul.py).

Lean: EmuVerif.Props.C06 over Model.SvOps/TreeVec. Correspondence: the real operators vs the model run at
Gaussian rationals on dyadic inputs — exact; phases through an exact (cos, sin) table patched into
torch.exp/cos/sin, plus an unpatched stream with the implementation's own cos/sin fed to the model (1e-12).
Oracle (always on): independent numpy Kronecker references vs the real operators on random complex inputs.
"""
from __future__ import annotations

import json
import math
from fractions import Fraction
from unittest import mock

from harness.common import Driver, LeanError, Report, lean_stage, seeded

REGISTRY = dict(
    text=("Lean 4 theorems for every qubit number n, all parameters and all inputs, over every commutative star ring with "
          "I^2=-1, 1/2+1/2=1 (C and the Gaussian rationals the model is executed with): a 2x2 operator applied on the "
          "(2^k,2,-1) view equals (I x..x m x..x I) times the tensor; matmul_2x2_with_batched equals the plain batched "
          "matmul; RydbergHamiltonian.__mul__ (diagonal built by _create_diagonal + real or complex sigma loop) equals "
          "denseH*v with denseH = sum_k I x..x h_k x..x I + sum_{i<j} U_ij n_i n_j, h_k entry-wise with no hypothesis and "
          "h_k = (Omega_k/2)(cos phi_k sx + sin phi_k sy) - delta_k n for real drives; the real path equals the complex "
          "path when all phases are zero; RydbergLindbladian.__matmul__ equals Heff R - R^dag Heff^dag + i sum_q sum_L "
          "L_q R L_q^dag on every matrix, hence the dense generator Heff rho - rho Heff^dag + i sum L rho L^dag on "
          "Hermitian rho (Heff = H - (i/2) sum L^dag L, S^dag=-S proved); CPU and batched paths agree on every input. "
          "Kernel-checked remark: on a non-Hermitian matrix the X - X^dag shortcut is not the commutator (outside the "
          "property's quantifier). cos/sin/exp enter as a tape (contract exp(i phi)=cos+i sin, cos 0=1, sin 0=0 "
          "validated numerically). Model tied to the code by exact rational correspondence (n<=8 Hamiltonian, n<=5/6 "
          "Lindbladian) and the dense specs to an independent numpy kron construction."),
    note=("Trusted: Lean kernel + propext/Classical.choice/Quot.sound; Mathlib; hand-written Model.SvOps tied by "
          "correspondence only; binary64 rounding and torch/BLAS kernels outside the theorems (exact on the dyadic inputs "
          "compared, 1e-10 on the random-input oracle); the batched branch is reached on this CPU-only host by patching "
          "Tensor.is_cpu in the harness; expansion of Heff^dag for Hermitian H into the textbook form is validated "
          "against numpy, not proved."),
    technique="Lean 4 proof (induction on the qubit tree) + exact model/implementation correspondence + dense numpy oracle",
    design_ref="DESIGN.md §5 C06",
)

PROP_MODULE = "EmuVerif.Props.C06"
AUDIT = "Audit/C06.lean"
RTOL_TAPE = 1e-12      # unpatched-phase stream: model fed with the implementation's cos/sin
RTOL_ORACLE = 1e-10    # dense numpy reference on random complex inputs (property text)


def _imports():
    import numpy as np
    import torch
    from harness import treevec_io as tio
    from emu_sv.hamiltonian import RydbergHamiltonian
    from emu_sv.lindblad_operator import RydbergLindbladian
    from emu_base.math.matmul import matmul_2x2_with_batched
    return np, torch, tio, RydbergHamiltonian, RydbergLindbladian, matmul_2x2_with_batched


# ------------------------------------------------------------------ generators
def gen_params(rng, n, phase_mode, complex_amp=False, complex_trig=False):
    """dyadic drive parameters; phases are tags φ_k = k+1 (or 0) with an exact (cos, sin) table"""
    _, _, tio, *_ = _imports()
    om = [tio.cdyad(rng, 2, 4, real=not complex_amp) for _ in range(n)]
    de = [tio.cdyad(rng, 2, 4, real=not complex_amp) for _ in range(n)]
    U = [[0.0] * n for _ in range(n)]
    sym = rng.random() < 0.8
    for i in range(n):
        for j in range(n):
            if i < j:
                U[i][j] = tio.dyad(rng, 2, 4)
            elif i > j:
                U[i][j] = U[j][i] if sym else tio.dyad(rng, 2, 4)
    if phase_mode == "zero":
        phis = [0.0] * n
    else:
        phis = [float(k + 1) if rng.random() < 0.6 else 0.0 for k in range(n)]
        if phase_mode == "tape" and not any(phis):
            phis[rng.randrange(n)] = float(n + 1)
    table = {p: (tio.cdyad(rng, 1, 2, real=not complex_trig), tio.cdyad(rng, 1, 2, real=not complex_trig))
             for p in phis if p != 0.0}
    if table and rng.random() < 0.35:
        # "multiples of pi": every tabled phase has sin = 0 exactly and cos = -1 (or another value != 1): H is a real matrix,
        # yet the phases are non-zero and the sigma-x coefficient is Omega/2 * cos(phi), not Omega/2
        for p in table:
            table[p] = (rng.choice([-1.0 + 0j, -1.0 + 0j, 1.0 + 0j, tio.cdyad(rng, 1, 2, real=True)]), 0.0 + 0j)
        if all(complex(c) == 1 for c, _ in table.values()):
            table[next(iter(table))] = (-1.0 + 0j, 0.0 + 0j)
    return dict(n=n, om=om, de=de, U=U, phis=phis, table=table)


STRUCTURES = ["global", "equal-om-de/distinct-phi", "equal-om-de/distinct-phi", "equal-om/distinct-de", "one-zero-om",
              "one-zero-de", "one-zero-phi", "all-zero-om", "all-zero-de", "all-zero-phi"]


def apply_structure(rng, P, exact):
    """structured drive rows (what real sequences look like): global pulses, equal amplitudes and detunings with distinct per-atom
    phases, equal amplitudes with distinct detunings, one atom exactly zero in Omega / delta / phi, all-zero rows.
    `exact`: phases are tags with an exact (cos, sin) table (C06 correspondence); otherwise real angles (numpy oracle)."""
    n = P["n"]
    kind = rng.choice(STRUCTURES)
    om, de, ph = list(P["om"]), list(P["de"]), list(P["phis"])

    def fresh_phase(k):
        return float(20 + k) if exact else rng.uniform(0.2, 3.0) * rng.choice([1, -1])

    def ensure_table():
        if exact:
            from harness import treevec_io as tio
            for p_ in ph:
                if p_ != 0.0 and p_ not in P["table"]:
                    P["table"][p_] = (tio.cdyad(rng, 1, 2, real=True), tio.cdyad(rng, 1, 2, real=True))
    nz = lambda z: z if z != 0 else 1.5 + 0j
    if kind == "global":
        om, de = [nz(om[0])] * n, [de[0]] * n
        ph = [rng.choice([0.0, fresh_phase(0)])] * n
    elif kind == "equal-om-de/distinct-phi":
        om, de = [nz(om[0])] * n, [de[0]] * n
        ph = [fresh_phase(k) for k in range(n)]
        if n > 1 and rng.random() < 0.3:
            ph[rng.randrange(1, n)] = 0.0            # qubit 0 keeps a non-zero phase, another one is exactly zero
    elif kind == "equal-om/distinct-de":
        om = [nz(om[0])] * n
    elif kind.startswith("one-zero"):
        k = rng.randrange(n)
        if kind.endswith("om"):
            om[k] = 0j
        elif kind.endswith("de"):
            de[k] = 0j
        else:
            ph = [p_ if p_ != 0.0 else fresh_phase(j) for j, p_ in enumerate(ph)]
            ph[k] = 0.0
    else:
        if kind.endswith("om"):
            om = [0j] * n
        elif kind.endswith("de"):
            de = [0j] * n
        else:
            ph = [0.0] * n
    P["om"], P["de"], P["phis"] = om, de, ph
    ensure_table()
    P["structure"] = kind
    return P


def pi_phases(rng, n):
    """phases that are integer multiples of pi with at least one odd multiple (global pi pulse, [pi, 0, pi], echo 0/pi), sometimes
    mixed with one generic phase: H is real (or nearly) but cos(phi) = -1 on some atoms"""
    mult = [rng.choice([0, 1, -1, 2, 3, -3, 1, 1]) for _ in range(n)]
    if not any(m % 2 for m in mult):
        mult[rng.randrange(n)] = rng.choice([1, -1, 3])
    if rng.random() < 0.3:
        mult = [mult[0] if mult[0] % 2 else 1] * n                 # a global pi pulse
    ph = [m * math.pi for m in mult]
    if rng.random() < 0.25 and n > 1:
        ph[rng.randrange(n)] = rng.uniform(-3, 3)
    return ph


def half_pi_phases(rng, n):
    """phases that are integer multiples of pi/2 with at least one odd multiple (cos(phi) = 6e-17: a purely sigma-y drive), sometimes
    mixed with one generic phase"""
    mult = [rng.choice([1, -1, 3, 1, 0, 2, 5]) for _ in range(n)]
    if not any(m % 2 for m in mult):
        mult[rng.randrange(n)] = rng.choice([1, -1, 3])
    ph = [m * math.pi / 2 for m in mult]
    if rng.random() < 0.25 and n > 1:
        ph[rng.randrange(n)] = rng.uniform(-3, 3)
    return ph


def enc_phases(tio, phis, table):
    out = []
    for p in phis:
        c, s = table.get(p, (1.0 + 0j, 0.0 + 0j))
        out.append(f"{1 if p != 0 else 0};{tio.cs(c)};{tio.cs(s)}")
    return ",".join(out)


def enc_common(tio, torch, P):
    return (f"{tio.clist(P['om'])} {tio.clist(P['de'])} {enc_phases(tio, P['phis'], P['table'])} "
            f"{tio.tlist(torch.tensor(P['U'], dtype=torch.float64))}")


def build_h(P, exact=True):
    np, torch, tio, RH, RL, _ = _imports()
    args = (torch.tensor(P["om"], dtype=tio.C128), torch.tensor(P["de"], dtype=tio.C128),
            torch.tensor(P["phis"], dtype=tio.C128), torch.tensor(P["U"], dtype=torch.float64), torch.device("cpu"))
    return RH(*args)


def build_l(P, Ls):
    np, torch, tio, RH, RL, _ = _imports()
    return RL(torch.tensor(P["om"], dtype=tio.C128), torch.tensor(P["de"], dtype=tio.C128),
              torch.tensor(P["phis"], dtype=tio.C128), Ls, torch.tensor(P["U"], dtype=torch.float64), torch.device("cpu"))


def ser(P, **extra):
    d = dict(n=P["n"], om=[[z.real, z.imag] for z in map(complex, P["om"])],
             de=[[z.real, z.imag] for z in map(complex, P["de"])], U=P["U"], phis=P["phis"],
             table={str(k): [[complex(c).real, complex(c).imag], [complex(s).real, complex(s).imag]]
                    for k, (c, s) in P["table"].items()})
    d.update(extra)
    return d


def tens_ser(t):
    return [[float(z.real), float(z.imag)] for z in t.reshape(-1).tolist()]


# ------------------------------------------------------------------ correspondence
def correspondence(rep: Report, rng, tier: str) -> None:
    np, torch, tio, RH, RL, bmm = _imports()
    quick = tier == "quick"
    lines, expect, meta = [], [], []      # expect: ("exact"|"tol", tensor) | ("raise",)

    def add(line, kind, value, m):
        lines.append(line)
        expect.append((kind, value))
        meta.append(m)

    # --- Hamiltonian: exact, n = 1..8
    n_h = 70 if quick else 600
    for i in range(n_h):
        n = rng.choice([1, 2, 2, 3, 3, 4, 4, 5, 6, 7, 8]) if quick else rng.randint(1, 8)
        mode = rng.choice(["zero", "tape", "tape", "mixed", "forced"])
        P = gen_params(rng, n, "zero" if mode == "forced" else mode,
                       complex_amp=rng.random() < 0.25, complex_trig=rng.random() < 0.25)
        if mode != "forced" and i % 2:
            P = apply_structure(rng, P, exact=True)
            rep.hist("ham_structure", P["structure"])
        v = torch.tensor([tio.cdyad(rng, 1, 2) for _ in range(2 ** n)], dtype=tio.C128)
        bad_len = rng.random() < 0.04
        if bad_len:
            v = v[:-1] if n > 0 and rng.random() < 0.5 else torch.cat([v, v[:1]])
        forced = "a"
        try:
            with tio.exact_trig(P["table"]):
                H = build_h(P)
                if mode == "forced":
                    H.complex = torch.tensor(True)      # all phases zero, complex loop forced
                    forced = "1"
                r = H * v
            kind, val = "exact", r
        except (RuntimeError, ValueError, TypeError) as e:
            kind, val = "raise", None
        add(f"tv.ham {forced} {n} {enc_common(tio, torch, P)} {tio.tlist(v)}", kind, val,
            dict(what="RydbergHamiltonian.__mul__", mode=mode, **ser(P, vec=tens_ser(v))))
        rep.hist("ham_n", n)
        rep.hist("ham_mode", mode + ("+badlen" if bad_len else ""))
        if not bad_len and i % 5 == 0:
            add(f"tv.diag 1 {n} {tio.clist(P['de'])} {tio.tlist(torch.tensor(P['U'], dtype=torch.float64))}", "exact", H.diag,
                dict(what="RydbergHamiltonian._create_diagonal", **ser(P)))

    # --- Hamiltonian with the implementation's own cos/sin (tolerance)
    for i in range(16 if quick else 100):
        n = rng.randint(1, 6)
        P = gen_params(rng, n, "zero")
        P["phis"] = (pi_phases(rng, n) if i % 4 == 1 else half_pi_phases(rng, n)) if i % 2 else \
            [rng.uniform(-3.2, 3.2) if rng.random() < 0.7 else 0.0 for _ in range(n)]
        ph_t = torch.tensor(P["phis"], dtype=tio.C128)
        cosv, sinv, expv = torch.cos(ph_t), torch.sin(ph_t), torch.exp(1j * ph_t)
        # contract of the tape: exp(iφ) = cos φ + i sin φ, cos 0 = 1, sin 0 = 0
        dev = float((expv - (cosv + 1j * sinv)).abs().max())
        rep.extra["trig_contract_max_dev"] = max(rep.extra.get("trig_contract_max_dev", 0.0), dev)
        if dev > 4e-16 or any(p == 0.0 and (complex(c) != 1 or complex(s) != 0)
                              for p, c, s in zip(P["phis"], cosv.tolist(), sinv.tolist())):
            rep.broke(f"tape contract exp(i phi)=cos+i sin violated by torch: dev={dev}")
        P["table"] = {p: (complex(c), complex(s)) for p, c, s in zip(P["phis"], cosv.tolist(), sinv.tolist()) if p != 0.0}
        v = torch.tensor([tio.cdyad(rng, 1, 2) for _ in range(2 ** n)], dtype=tio.C128)
        r = build_h(P) * v
        add(f"tv.ham a {n} {enc_common(tio, torch, P)} {tio.tlist(v)}", "tol", r,
            dict(what="RydbergHamiltonian.__mul__ (true cos/sin)", **ser(P, vec=tens_ser(v))))
        rep.hist("ham_mode", "true-trig")

    # --- batched 2x2 matmul vs plain
    for i in range(30 if quick else 300):
        n = rng.randint(1, 6)
        k = rng.randrange(n)
        left = tio.rand_m2(rng, "dense")
        x = torch.tensor([tio.cdyad(rng, 1, 2) for _ in range(2 ** n)], dtype=tio.C128)
        xv = x.view(2 ** k, 2, -1)
        add(f"tv.bmm 1 {k} {n} {tio.tlist(left)} {tio.tlist(x)}", "exact", bmm(left, xv),
            dict(what="matmul_2x2_with_batched", n=n, k=k, left=tens_ser(left), x=tens_ser(x)))
        add(f"tv.bmm 0 {k} {n} {tio.tlist(left)} {tio.tlist(x)}", "exact", left @ xv,
            dict(what="local_op @ view", n=n, k=k, left=tens_ser(left), x=tens_ser(x)))

    # --- Lindbladian: exact, CPU and batched
    n_l = 36 if quick else 400
    nmax = 5 if quick else 6
    calls = {"batched": 0}
    real_bmm = bmm

    def counting(left, right):
        calls["batched"] += 1
        return real_bmm(left, right)

    for i in range(n_l):
        n = rng.choice([1, 1, 2, 2, 3, 3, 4, nmax]) if quick else rng.randint(1, nmax)
        nl = rng.randint(0, 6) if n <= 4 else rng.randint(0, 3)
        P = gen_params(rng, n, rng.choice(["zero", "tape", "mixed"]), complex_trig=rng.random() < 0.2)
        if i % 3 != 0:
            P = apply_structure(rng, P, exact=True)
            rep.hist("lind_structure", P["structure"])
        Ls = [tio.rand_m2(rng) for _ in range(nl)]
        herm = rng.random() < 0.75
        rho = tio.hermitian_dyadic(rng, 2 ** n) if herm else torch.tensor(
            [[tio.cdyad(rng, 1, 2) for _ in range(2 ** n)] for _ in range(2 ** n)], dtype=tio.C128)
        batched = i % 2
        with tio.exact_trig(P["table"]):
            L = build_l(P, Ls)
            if batched:
                with tio.force_not_cpu(), mock.patch("emu_sv.lindblad_operator.matmul_2x2_with_batched", counting):
                    r = L @ rho
            else:
                r = L @ rho
        lsl = tio.clist([z for M in Ls for z in M.reshape(-1).tolist()])
        add(f"tv.lind {batched} {n} {enc_common(tio, torch, P)} {lsl} {tio.tlist(rho)}", "exact", r,
            dict(what="RydbergLindbladian.__matmul__", batched=batched, hermitian=herm,
                 **ser(P, Ls=[tens_ser(M) for M in Ls], rho=tens_ser(rho))))
        if i % 6 == 0:
            add(f"tv.diag 0 {n} {tio.clist(P['de'])} {tio.tlist(torch.tensor(P['U'], dtype=torch.float64))}", "exact", L.diag,
                dict(what="RydbergLindbladian._create_diagonal", **ser(P)))
        rep.hist("lind_n", n)
        rep.hist("lind_jump_ops", nl)
        rep.hist("lind_path", "batched" if batched else "cpu")
        rep.hist("lind_input", "hermitian" if herm else "general")
    rep.extra["batched_calls_observed"] = calls["batched"]
    if calls["batched"] == 0:
        rep.broke("harness: the batched branch was never reached (is_cpu patch ineffective)")

    # --- the Lean dense references against an independent numpy kron build (exact)
    for i in range(12 if quick else 80):
        n = rng.randint(1, 3 if quick else 4)
        P = gen_params(rng, n, rng.choice(["zero", "tape"]))
        cosv = [complex(P["table"].get(p, (1, 0))[0]) for p in P["phis"]]
        sinv = [complex(P["table"].get(p, (1, 0))[1]) for p in P["phis"]]
        Hn = tio.np_dense_h([complex(z) for z in P["om"]], [complex(z) for z in P["de"]], cosv, sinv, P["U"], n)
        add(f"tv.denseH {n} {enc_common(tio, torch, P)}", "exact", torch.from_numpy(Hn),
            dict(what="Lean denseH vs numpy kron", **ser(P)))
        if n <= 3:
            Ls = [tio.rand_m2(rng) for _ in range(rng.randint(0, 3))]
            rho = tio.hermitian_dyadic(rng, 2 ** n)
            ref = tio.np_lindblad(Hn, [M.numpy() for M in Ls], rho.numpy(), n)
            lsl = tio.clist([z for M in Ls for z in M.reshape(-1).tolist()])
            add(f"tv.denseLind 0 {n} {enc_common(tio, torch, P)} {lsl} {tio.tlist(rho)}", "exact", torch.from_numpy(ref),
                dict(what="Lean denseLind vs numpy textbook generator", **ser(P, Ls=[tens_ser(M) for M in Ls], rho=tens_ser(rho))))

    try:
        out = Driver().batch(lines)
    except LeanError as e:
        rep.broke("driver: " + str(e)[-800:])
        return
    dis = 0
    worst = 0.0
    for line, reply, (kind, val), m in zip(lines, out, expect, meta):
        key = hash(line)
        rep.case(key=key, nontrivial=kind != "raise",
                 sample={"what": m["what"], "n": m.get("n"), "cmd": line.split()[0]})
        if kind == "raise":
            bad = None if reply == "err" else f"implementation raised, model replied {reply[:30]!r}"
        elif kind == "exact":
            bad = tio.compare_exact(reply, val)
        else:
            bad, err = tio.compare_tol(reply, val, RTOL_TAPE)
            worst = max(worst, err)
        if bad:
            dis += 1
            if dis <= 4:
                rep.broke(f"correspondence {m['what']}: {bad}; input={json.dumps(m)[:700]}")
    rep.extra["correspondence_cases"] = len(lines)
    rep.extra["correspondence_disagreements"] = dis
    rep.extra["true_trig_stream_max_rel_err"] = worst


# ------------------------------------------------------------------ oracle on the real code
def oracle_case(rng, n, kind, nl=0):
    """one random-input comparison of the real operator with the numpy Kronecker reference;
    returns (relative error, serialised input, description)"""
    np, torch, tio, RH, RL, bmm = _imports()
    g = lambda: rng.gauss(0, 1)
    P = dict(n=n, om=[complex(rng.uniform(0, 12), 0) for _ in range(n)], de=[complex(rng.uniform(-20, 20), 0) for _ in range(n)],
             U=[[0.0] * n for _ in range(n)], table={})
    for i in range(n):
        for j in range(i + 1, n):
            P["U"][i][j] = P["U"][j][i] = rng.uniform(0, 30) * rng.choice([1.0, 1.0, 0.0, 0.01])
    pm = rng.choice(["zero", "nonzero", "mixed", "pi-multiples", "pi-multiples", "half-pi", "half-pi"])
    if pm == "pi-multiples":
        P["phis"] = pi_phases(rng, n)
    elif pm == "half-pi":
        P["phis"] = half_pi_phases(rng, n)
    else:
        P["phis"] = [0.0 if pm == "zero" or (pm == "mixed" and rng.random() < 0.5) else rng.uniform(-math.pi, math.pi) for _ in range(n)]
    if rng.random() < 0.6:
        P = apply_structure(rng, P, exact=False)
    cosv = [math.cos(p) for p in P["phis"]]
    sinv = [math.sin(p) for p in P["phis"]]
    Hn = tio.np_dense_h([z.real for z in P["om"]], [z.real for z in P["de"]], cosv, sinv, P["U"], n)
    if kind.startswith("ham"):
        v = torch.tensor([complex(g(), g()) for _ in range(2 ** n)], dtype=tio.C128)
        H = build_h(P)
        if kind == "ham-forced-complex":
            H.complex = torch.tensor(True)
        r = (H * v).numpy()
        ref = Hn @ v.numpy()
        d = ser(P, vec=tens_ser(v), kind=kind)
    else:
        def jump():
            kind_l = rng.choice(["dense", "dense", "diag-complex", "diag-complex", "lower", "upper", "diag-real"])
            z = lambda: complex(g(), g()) * 0.5
            if kind_l == "dense":
                m = [[z(), z()], [z(), z()]]
            elif kind_l == "diag-complex":      # exactly diagonal with non-real entries, e.g. diag(0.5, 0.5i)
                m = rng.choice([[[0.5, 0], [0, 0.5j]], [[z(), 0], [0, z()]], [[1j * g(), 0], [0, g()]]])
            elif kind_l == "diag-real":
                m = [[g(), 0], [0, g()]]
            elif kind_l == "lower":
                m = [[0, 0], [z(), 0]]
            else:
                m = [[0, z()], [0, 0]]
            return torch.tensor(m, dtype=tio.C128)
        Ls = [jump() for _ in range(nl)]
        a = torch.tensor([[complex(g(), g()) for _ in range(2 ** n)] for _ in range(2 ** n)], dtype=tio.C128)
        rho = a + a.conj().T
        L = build_l(P, Ls)
        if kind == "lind-batched":
            with tio.force_not_cpu():
                r = (L @ rho).numpy()
        else:
            r = (L @ rho).numpy()
        ref = tio.np_lindblad(Hn, [M.numpy() for M in Ls], rho.numpy(), n)
        d = ser(P, Ls=[tens_ser(M) for M in Ls], rho=tens_ser(rho), kind=kind)
    scale = float(abs(ref).max()) + 1.0
    return float(abs(r - ref).max()) / scale, d


def oracle(rep: Report, rng, count: int, nmax_l: int) -> None:
    worst = 0.0
    for i in range(count):
        kind = rng.choice(["ham", "ham", "ham-forced-complex", "lind-cpu", "lind-batched"])
        if kind.startswith("ham"):
            n = rng.choice([1, 2, rng.randint(1, 8), rng.randint(1, 8)])
            nl = 0
        else:
            n = rng.choice([1, 2, rng.randint(1, nmax_l), rng.randint(1, nmax_l)])
            nl = rng.randint(0, 6)
        try:
            err, d = oracle_case(rng, n, kind, nl)
        except Exception as e:      # the real operator misbehaving is a finding candidate
            rep.fail(f"real operator raised {type(e).__name__}: {e}", dict(kind=kind, n=n), klass=None)
            continue
        worst = max(worst, err)
        rep.case(key=("oracle", kind, n, i), nontrivial=True, trace=False)
        rep.hist("oracle_kind", kind)
        if err > RTOL_ORACLE:
            rep.fail(f"{kind}: real operator differs from the dense Kronecker reference by {err:.3e} (rel) > {RTOL_ORACLE:.0e}", d)
    rep.extra["oracle_max_rel_err"] = max(worst, rep.extra.get("oracle_max_rel_err", 0.0))


# ------------------------------------------------------------------ check
def check(rep: Report, tier: str, seed: int) -> None:
    import torch
    torch.manual_seed(seed)
    rep.rule = ("cases = (n, drive parameters, phase tape, interaction matrix, jump operators, input) from one PRNG; "
                "correspondence inputs dyadic (k/2^b), n=1..8 Hamiltonian / 1..5 (thorough 6) Lindbladian, 0-6 random 2x2 "
                "jump operators, phases zero / exact (cos,sin) table / forced complex flag / implementation cos-sin, "
                "Hermitian and general matrices, CPU and batched paths, wrong-length vectors; oracle inputs gaussian complex, "
                "n=1..8 / 1..6; non-trivial = the implementation did not raise; distinct = distinct driver lines")
    rep.assumptions = [
        "tape contract: torch.exp(1j*phi) = cos(phi) + i sin(phi) to 4e-16, cos(0)=1, sin(0)=0 (validated on every run)",
        "binary64 rounding and the torch/BLAS kernels are outside the theorems; exact on the dyadic inputs compared",
        "the textbook expansion Heff^dag = H + (i/2) sum L^dag L for Hermitian H is validated against numpy (exact), not proved "
        "beyond S^dag = -S",
    ]
    import time
    t0 = time.time()
    lean_stage(rep, PROP_MODULE, AUDIT, thorough=(tier == "thorough"))
    rep.extra["t_lean_stage_s"] = round(time.time() - t0, 1)
    rng = seeded(seed * 7919 + 6)
    correspondence(rep, rng, tier)
    oracle(rep, seeded(seed * 104729 + 6), 90 if tier == "quick" else 1500, 6 if tier == "quick" else 7)
    rep.extra["t_total_s"] = round(time.time() - t0, 1)
    if rep.broken and not rep.unknown_failing():
        search(rep, seed, 400 if tier == "quick" else 4000)


def search(rep: Report, seed: int, count: int) -> None:
    """deeper run of the dense-reference oracle on the real code (used when a proof or the correspondence broke)"""
    oracle(rep, seeded(seed * 15485863 + 6), count, 6)
    rep.extra["search_cases"] = count


def replay(rep: Report, path: str) -> int:
    np, torch, tio, RH, RL, bmm = _imports()
    data = json.load(open(path))
    bad = 0
    for f in data.get("failing_inputs", []):
        d = f["data"]
        if "om" not in d:
            print("replay: no stored input for", f["what"])
            continue
        n = d["n"]
        P = dict(n=n, om=[complex(*z) for z in d["om"]], de=[complex(*z) for z in d["de"]], U=d["U"], phis=d["phis"], table={})
        Hn = tio.np_dense_h([z.real for z in P["om"]], [z.real for z in P["de"]], [math.cos(p) for p in P["phis"]],
                            [math.sin(p) for p in P["phis"]], P["U"], n)
        kind = d.get("kind", "ham")
        if kind.startswith("ham"):
            v = torch.tensor([complex(*z) for z in d["vec"]], dtype=tio.C128)
            H = build_h(P)
            if kind == "ham-forced-complex":
                H.complex = torch.tensor(True)
            r, ref = (H * v).numpy(), Hn @ v.numpy()
        else:
            Ls = [torch.tensor([complex(*z) for z in M], dtype=tio.C128).reshape(2, 2) for M in d["Ls"]]
            rho = torch.tensor([complex(*z) for z in d["rho"]], dtype=tio.C128).reshape(2 ** n, 2 ** n)
            L = build_l(P, Ls)
            if kind == "lind-batched":
                with tio.force_not_cpu():
                    r = (L @ rho).numpy()
            else:
                r = (L @ rho).numpy()
            ref = tio.np_lindblad(Hn, [M.numpy() for M in Ls], rho.numpy(), n)
        err = float(abs(r - ref).max()) / (float(abs(ref).max()) + 1.0)
        print(f"replay: {kind} n={n} rel err {err:.3e}", "FAILS" if err > RTOL_ORACLE else "holds now")
        bad += err > RTOL_ORACLE
    return 1 if bad else 0
