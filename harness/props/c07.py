"""C07 — Krylov exponentiation is accurate and honest about convergence (emu_base/math/krylov_exp.py).

Lean: EmuVerif.Props.C07 (flag honesty / iteration bound / op-count / public wrapper for every
operator and every `matrix_exp` oracle; Arnoldi relation and orthonormality in exact arithmetic).
PARTIAL: the accuracy clause is Expokit's heuristic, not a theorem; it is validated here against
scipy.linalg.expm. Correspondence: the *same* Lean definitions run (a) on a tape of the real run's
`norm`/`tensordot`/`matrix_exp` answers and (b) on dense binary64 vectors.
"""
from __future__ import annotations

import json
import math

import numpy as np
import scipy.linalg
import torch

from harness.common import Driver, LeanError, Report, f2b, b2f, lean_stage, seeded, unlst
from harness.props.extra_stage import ExtraLeanStage
from harness.props.kry_common import LeanStageThread, Recorder, cx, uncx, l1, l2, mat_line, rel_close

REGISTRY = dict(
    text=("Lean 4 theorems about the model of krylov_exp_impl/krylov_exp over an abstract tensor algebra, for every "
          "operator, start vector and every matrix_exp oracle: converged=true iff at some iteration j<max_krylov_dim "
          "reached by the loop either n2<norm_tolerance (happy breakdown) or err<exp_tolerance; the first such j gives "
          "iteration_count=j+1, otherwise iteration_count=max_krylov_dim; op is evaluated exactly iteration_count times; "
          "happy_breakdown implies converged; krylov_exp returns iff converged and raises RecursionError otherwise. In "
          "any inner-product space (exact arithmetic): the Arnoldi/Lanczos relation op q_j = sum_k T_kj q_k + n2 q_{j+1} "
          "holds by construction, the Arnoldi branch builds orthonormal vectors, the Lanczos branch does so when "
          "op^dagger = c*op. PARTIAL: 'converged => |result-exp(A)v| <= 10*tol*|v|' (Expokit error estimate) is stated "
          "as a Prop, NOT proved; it is validated against scipy.linalg.expm on the three operator classes of the "
          "property (threshold 10*tol*|v| + 1e-9*max(1,|exp A|)*|v|). Breakdown exactness (residual exactly 0 => result "
          "= exp(op)v) is PROVED: its algebraic core in Props/C07Breakdown.lean (audited on every run) for every Krylov "
          "dimension and every complete complex normed space - exp_intertwine (A Q = Q T => exp(A) Q = Q exp(T), Q any "
          "rectangular matrix), exp_krylov_relation (A q_k = sum_i T_ik q_i for all k => exp(A) q_k = sum_i exp(T)_ik q_i), "
          "krylov_breakdown_exact (v = beta q_0 => exp(A) v = beta sum_i exp(T)_i0 q_i, the vector returned on the happy "
          "exit), relation_of_arnoldi_steps / breakdown_exact_of_arnoldi_steps (from the per-iteration Arnoldi relation with "
          "an exactly vanishing last residual); Props/C07BreakdownModel.lean (audited on every run) proves the loop invariant on "
          "the local T (tInv_reach: columns < j satisfy A q_k = sum_i T_ik q_i and are zero below the sub-diagonal, both "
          "branches, any op), the list/array plumbing of `combine` (happy_exit_result) and C07.BreakdownExact itself "
          "(breakdownExact_holds: for the exact matrix_exp oracle, a run that ends in iteration j with n2 = 0 returns exp(A)v). "
          "FINDING D20-C07 (open, class krylov-early-accept-avnorm): the unchanged code "
          "violates the accuracy clause inside the quantifier when the start vector is nearly an eigenvector of the "
          "dominant part (err2 uses |op v_j| instead of Expokit's |op v_{j+1}|): kernel-checked exact model run "
          "(early_accept_witness) + replay on the real code against scipy on every run. FINDING D21-C07 (open, class "
          "krylov-accept-err1-ignores-err2): err = err1 whenever err1 < err2 lets a vanishing err1 (exp(alpha) ~ 1) override "
          "err2 >= tol; witness replayed on every run. FINDING D23-C07 (open, class krylov-orthogonality-loss): single-pass "
          "Gram-Schmidt loses orthogonality (measured > 1e-6 on the real run's vectors) for large |A| with small sub-diagonals. "
          "FINDING D22-C07 (open, class krylov-estimate-not-shift-invariant): for "
          "A = -i(a*1+K) with |a| >> |K| both estimates shrink like 1/|a| while the error does not. The public krylov_exp is modelled with its own parameter list and "
          "driven with distinct tolerances in both orders (public_krylov_exp_uses_callers_tolerances)."),
    note=("Trusted: Lean kernel + propext/Classical.choice/Quot.sound; Mathlib; hand-written Model.Krylov tied to the "
          "code by the tape-driven and dense correspondence of each run; torch.linalg.matrix_exp, Tensor.norm, "
          "tensordot and binary64 rounding are outside the theorems; the accuracy clause rests on differential "
          "testing only."),
    technique="Lean 4 proof (induction over the Krylov loop, all oracle tapes) + tape-driven model/implementation "
              "correspondence + scipy.linalg.expm oracle for the unprovable accuracy clause",
    design_ref="DESIGN.md §5 C07",
)

PROP_MODULE = "EmuVerif.Props.C07"
AUDIT = "Audit/C07.lean"
# BreakdownExact: Props/C07Breakdown.lean (algebraic core) and Props/C07BreakdownModel.lean (loop invariant on T, plumbing,
# `breakdownExact_holds`; imports the core and Props/C07). One stage on every run: Audit/C07BreakdownModel.lean lists the theorems
# of BOTH modules (one Mathlib load; Audit/C07Breakdown.lean = the core alone).
EXTRA_STAGES = [("EmuVerif.Props.C07BreakdownModel", "Audit/C07BreakdownModel.lean")]
TIE = 1e-9          # decisions closer than this (relative) to their threshold are not compared
TREL = 1e-12        # tolerance on T entries / result where the model does its own arithmetic (dense run)


# ------------------------------------------------------------------ generators
def _herm(g, n, kind):
    if kind == "gue":
        m = g.normal(size=(n, n)) + 1j * g.normal(size=(n, n))
        return (m + m.conj().T) / 2
    if kind == "chain":         # diagonal detunings + nearest-neighbour couplings (Rydberg-like)
        h = np.diag(g.normal(size=n)).astype(complex)
        for i in range(n - 1):
            h[i, i + 1] = h[i + 1, i] = g.normal()
        return h
    if kind in ("clustered", "degenerate"):
        k = int(g.integers(1, min(n, 5) + 1))
        lam = g.normal(size=k)
        ev = lam[g.integers(0, k, size=n)]
        if kind == "clustered":
            ev = ev + 1e-6 * g.normal(size=n)
        q, _ = np.linalg.qr(g.normal(size=(n, n)) + 1j * g.normal(size=(n, n)))
        return (q * ev) @ q.conj().T
    if kind == "zero":
        return np.zeros((n, n), dtype=complex)
    if kind == "identity":
        return np.eye(n, dtype=complex) * g.normal()
    raise ValueError(kind)


def _lindblad(g, d):
    h = _herm(g, d, "gue")
    eye = np.eye(d)
    sup = -1j * (np.kron(h, eye) - np.kron(eye, h.T))
    for _ in range(int(g.integers(1, 4))):
        l = (g.normal(size=(d, d)) + 1j * g.normal(size=(d, d))) * g.uniform(0.1, 1.0)
        if g.random() < 0.5:      # sparse jump operator (lowering-like)
            l = np.triu(l, 1)
        ll = l.conj().T @ l
        sup = sup + np.kron(l, l.conj()) - 0.5 * np.kron(ll, eye) - 0.5 * np.kron(eye, ll.T)
    return sup


def gen_case(rng, tier, small=False):
    """One operator of the three classes of the property + start vector + configuration."""
    g = np.random.default_rng(rng.getrandbits(48))
    cls = rng.choice(["herm", "herm", "nonherm", "lindblad"])
    big = rng.random() < (0.3 if tier == "thorough" else 0.08)
    nmax = 9 if small else (256 if big else 48)
    if cls == "lindblad":
        d = rng.randint(1, max(1, int(math.isqrt(nmax))))
        n = d * d
        a = _lindblad(g, d)
        herm = False
        sub = "lindblad"
    else:
        n = rng.randint(1, nmax)
        sub = rng.choice(["gue", "gue", "chain", "clustered", "degenerate", "zero", "identity", "block"])
        if sub == "block":
            k = rng.randint(1, n)
            h = np.zeros((n, n), dtype=complex)
            h[:k, :k] = _herm(g, k, "gue")
            if k < n:
                h[k:, k:] = _herm(g, n - k, "gue")
        else:
            h = _herm(g, n, sub)
        if cls == "herm":
            a = -1j * h
            herm = rng.random() < 0.8      # Arnoldi on an anti-Hermitian operator is allowed too
        else:
            b = (g.normal(size=(n, rng.randint(1, n))) + 1j * g.normal(size=(n, 1))) * g.uniform(0, 1)
            a = -1j * (h - 0.5j * (b @ b.conj().T))
            herm = False
    nrm = np.linalg.norm(a, 2) if n > 0 else 0.0
    target = 10 ** rng.uniform(-2, 1.5)
    if nrm > 0:
        a = a * (target / nrm)
    v = g.normal(size=n) + 1j * g.normal(size=n)
    if sub == "block" and rng.random() < 0.7:
        v[k:] = 0                           # start vector inside an invariant subspace
    if rng.random() < 0.1:
        v = np.zeros(n, dtype=complex)
        v[rng.randrange(n)] = 1.0           # basis vector
    v = v * 10 ** rng.uniform(-3, 3)
    shape = (n,)
    if cls == "lindblad" and rng.random() < 0.5:
        shape = (d, d)
    elif rng.random() < 0.2:
        shape = (n, 1)
    tol = 10 ** rng.uniform(-12, -4)
    md = rng.choice([1, 2, 3, 5, 8, 10, 20, 30, 50, 80, 100, rng.randint(1, 100), rng.randint(1, 100)])
    if small:
        md = rng.randint(1, 8)
        if sub in ("gue", "chain", "lindblad") and n > 2:
            md = rng.randint(1, n - 1)      # dense stream: stay short of the invariant subspace (noise-level n2)
    return dict(cls=cls, sub=sub, n=n, a=a, v=v, shape=shape, herm=herm, tol=tol, norm_tol=tol, md=md)


def gen_weak_case(rng):
    """Start vector = eigenvector of the dominant (diagonal) part, weak coupling: |A v_0| << |A v_1|
    (an atom in |g> under weak drive and large detuning). In class (-i*dt*H, H Hermitian)."""
    g = np.random.default_rng(rng.getrandbits(48))
    n = rng.randint(2, 24)
    d = np.diag(g.normal(size=n) * 10 ** rng.uniform(0, 1.5)).astype(complex)
    k = rng.randrange(n)
    if rng.random() < 0.5:
        d[k, k] = 0.0
    m = g.normal(size=(n, n)) + 1j * g.normal(size=(n, n))
    h = d + 10 ** rng.uniform(-4, -1.5) * (m + m.conj().T) / 2
    a = -1j * 10 ** rng.uniform(-3.5, -1.5) * h
    v = np.zeros(n, dtype=complex)
    v[k] = 1.0
    tol = 10 ** rng.uniform(-12, -7)
    return dict(cls="herm", sub="weakstart", n=n, a=a, v=v, shape=(n,), herm=rng.random() < 0.7, tol=tol, norm_tol=tol,
                md=rng.choice([20, 50, 100]))


KNOWN_CLASS = "krylov-early-accept-avnorm"
KNOWN_CLASS_ERR1 = "krylov-accept-err1-ignores-err2"
KNOWN_CLASS_SHIFT = "krylov-estimate-not-shift-invariant"
KNOWN_CLASS_ORTH = "krylov-orthogonality-loss"


def witness_case_err1():
    """D21-C07: uniform energy offset with E*dt = 2*pi -> err1 = n2*|phi_1| vanishes, err2 is ignored."""
    a = -1j * (2 * np.pi * np.eye(4) + 1e-4 * np.diag([1.0, -1.0, 2.0, -2.0]))
    return dict(cls="herm", sub="witness-phase-2pi", n=4, a=a.astype(complex), v=np.array([1, 1, 1, 1], dtype=complex) / 2,
                shape=(4,), herm=True, tol=1e-9, norm_tol=1e-9, md=100)


def gen_phase_case(rng):
    """-i*(E*I + eps*V) with E = 2*pi*k (k = 1, 2): a uniform offset times dt on a multiple of 2*pi."""
    g = np.random.default_rng(rng.getrandbits(48))
    n = rng.randint(2, 24)
    m = g.normal(size=(n, n)) + 1j * g.normal(size=(n, n))
    k = rng.choice([1, 1, 2])
    off = 2 * np.pi * k * (1 + rng.choice([0.0, 0.0, 1e-9, 1e-6, 1e-3]))
    a = -1j * (off * np.eye(n) + 10 ** rng.uniform(-6, -3) * (m + m.conj().T) / 2)
    v = g.normal(size=n) + 1j * g.normal(size=n)
    tol = 10 ** rng.uniform(-12, -7)
    return dict(cls="herm", sub="phase2pi", n=n, a=a, v=v, shape=(n,), herm=rng.random() < 0.7, tol=tol, norm_tol=tol,
                md=rng.choice([20, 50, 100]))


def witness_case():
    """D20-C07 (found by the C01 check): 1 atom in |g>, Omega=0.02, delta=-30 rad/us, dt=1 ns, tol=1e-10."""
    h = np.array([[0, 0.01], [0.01, 30.0]], dtype=complex)
    return dict(cls="herm", sub="witness-1atom", n=2, a=-1j * 0.001 * h, v=np.array([1, 0], dtype=complex), shape=(2,),
                herm=True, tol=1e-10, norm_tol=1e-10, md=100)


def classify(case, r, its):
    """A converged-but-inaccurate run is the known finding iff the error estimate of the accepting
    iteration j, recomputed with Expokit's avnorm |op(v_{j+1})| in place of the code's |op(v_j)|,
    would NOT have accepted. |op(v_{j+1})| is read off a second real run that is forbidden to accept."""
    if r is None or not r.converged or r.happy_breakdown:
        return None
    j = r.iteration_count - 1
    col0 = its[j]["mexp"][1][:, 0]
    e1_, e2_ = abs(col0[j + 1]), abs(col0[j + 2] * its[j]["n"])
    if e1_ < e2_ and not e2_ < case["tol"]:
        return KNOWN_CLASS_ERR1        # D21: accepted on err1 alone although err2 says "not converged"
    c2 = dict(case, tol=-1.0, md=j + 2)
    kind2, r2, rec2 = run_impl(c2)
    pe = parse_events(rec2.events) if kind2 == "ok" else None
    if pe is not None and len(pe[1]) >= j + 2:
        n_next = pe[1][j + 1]["n"]
        col = its[j]["mexp"][1][:, 0]
        e1, e2 = abs(col[j + 1]), abs(col[j + 2] * n_next)
        if not err_of(e1, e2) < case["tol"]:
            return KNOWN_CLASS
    # D22: the estimate is not invariant under op -> op - sigma*1 although the error is (exp(A)v only picks up a phase):
    # recompute err1 = |[exp(T~)]_{j+1,0}| on the extended matrix with T replaced by T - mean(diag T)*1
    arg = its[j]["mexp"][0].copy()
    sigma = np.trace(arg[: j + 1, : j + 1]) / (j + 1)
    arg[: j + 1, : j + 1] -= sigma * np.eye(j + 1)
    e1s = abs(scipy.linalg.expm(arg)[j + 1, 0])
    if abs(sigma) > 1.0 and not e1s < case["tol"]:
        return KNOWN_CLASS_SHIFT
    # D23: the Lanczos/Arnoldi vectors of the real run have lost orthogonality (single-pass modified Gram-Schmidt,
    # rounding amplified by |A|/n2 per step): measured on the vectors the real run hands to `op`
    if orth_loss(case) > 1e-6:
        return KNOWN_CLASS_ORTH
    return None


def orth_loss(case):
    """max_{i<j} |<q_i, q_j>| over the vectors the real krylov_exp_impl passes to `op` (they are its lanczos_vectors)."""
    from emu_base.math.krylov_exp import krylov_exp_impl
    a = torch.from_numpy(np.ascontiguousarray(case["a"])).to(torch.complex128)
    v = torch.from_numpy(np.ascontiguousarray(case["v"])).to(torch.complex128).reshape(case["shape"])
    n = case["n"]
    qs = []

    def op(x):
        qs.append(x.detach().clone().reshape(-1).numpy())
        return (a @ x.reshape(n, -1)).reshape(x.shape)

    try:
        krylov_exp_impl(op, v.clone(), is_hermitian=case["herm"], exp_tolerance=case["tol"],
                        norm_tolerance=case["norm_tol"], max_krylov_dim=case["md"])
    except Exception:
        return 0.0
    if len(qs) < 2:
        return 0.0
    q = np.array(qs)
    g = np.abs(q.conj() @ q.T)
    np.fill_diagonal(g, 0.0)
    return float(g.max())


LATTICE = [0.01, 0.5, 1 - 2.0 ** -40, 1.0, 1 + 2.0 ** -40, 2.0]


def gen_vnorm_case(rng, tier):
    """'arbitrary v': |v| from 1e-14 to 1e6, in particular ON the lattice {0.01, 0.5, 1-+2^-40, 1, 2} x norm_tolerance
    and x exp_tolerance (a back-propagated gradient or a strongly decayed state under a loose tolerance), and the
    exactly-zero vector. The property's error is relative to |v|, so nothing may depend on |v| vs a tolerance."""
    c = gen_case(rng, "quick")
    c["md"] = rng.choice([5, 10, 30, 100])
    c["tol"] = 10 ** rng.uniform(-12, -4)
    which = rng.choice(["equal", "equal", "norm>>exp", "norm<<exp"])
    c["norm_tol"] = c["tol"] if which == "equal" else (min(c["tol"] * 10 ** rng.uniform(1, 5), 1e-2) if which == "norm>>exp"
                                                         else c["tol"] * 10 ** rng.uniform(-5, -1))
    kind = rng.choice(["lattice-norm", "lattice-norm", "lattice-exp", "log", "zero"])
    nv = float(np.linalg.norm(c["v"]))
    if kind == "zero" or nv == 0.0:
        c["v"] = np.zeros(c["n"], dtype=complex)
        kind = "zero"
        target = 0.0
    else:
        target = (rng.choice(LATTICE) * (c["norm_tol"] if kind == "lattice-norm" else c["tol"])) if kind != "log" \
            else 10 ** rng.uniform(-14, 6)
        c["v"] = c["v"] * (target / nv)
        if kind != "log" and rng.random() < 0.5:          # |v| EXACTLY the lattice point: a basis vector times it
            c["v"] = np.zeros(c["n"], dtype=complex)
            c["v"][rng.randrange(c["n"])] = target
    c["sub"] = "vnorm-" + kind + "/" + c["sub"]
    c["order"] = which
    c["positional"] = rng.random() < 0.5
    c["vnorm_over_normtol"] = target / c["norm_tol"]
    return c


def gen_large_case(rng, tier):
    """LARGE |A| (10 .. 1e4) with a near-invariant subspace: -i*(a*1 + K + eps*C), K block diagonal, C couples the
    block holding the start vector to the rest. eps is swept over [0.01*tol, 100*tol*|A|] on a lattice that hits
    `n2 = norm_tolerance` (and `n2 = norm_tolerance*|A|`) from both sides; in the 'reflect' sub-class n2 == eps
    EXACTLY (basis start vector, power-of-two scale), so the breakdown test is exercised at its boundary.
    norm_tolerance and exp_tolerance are distinct in 2/3 of the cases."""
    g = np.random.default_rng(rng.getrandbits(48))
    sub = rng.choice(["reflect2", "reflect2", "reflectN", "blocks", "blocks"])
    a = rng.choice([10.0, 60.0, 2.0 ** 10, (2 * rng.randint(2, 40) + 1) * math.pi, 10 ** rng.uniform(1, 4)])
    ntol = 10 ** rng.uniform(-12, -6)
    which = rng.choice(["equal", "norm>>exp", "norm<<exp"])
    tol = ntol if which == "equal" else (ntol * 10 ** rng.uniform(-4, -1) if which == "norm>>exp" else
                                         min(ntol * 10 ** rng.uniform(1, 4), 1e-4))
    f = rng.choice(LATTICE + [x * a for x in LATTICE] + [0.75 * a, 10 ** rng.uniform(-2, 2) * a ** rng.random(), 100 * a])
    eps = f * ntol
    nmax = 200 if tier == "thorough" else 64
    if sub == "reflect2":
        n = 2
        h = np.array([[a, eps], [eps, a]], dtype=complex)
        v = np.array([1.0, 0.0], dtype=complex) * 2.0 ** rng.randint(-6, 6)
    elif sub == "reflectN":
        n = rng.choice([3, 5, 16, nmax])
        u = g.normal(size=n) + 1j * g.normal(size=n)
        u /= np.linalg.norm(u)
        h = a * np.eye(n) + eps * (np.eye(n) - 2 * np.outer(u, u.conj()))
        v = (g.normal(size=n) + 1j * g.normal(size=n)) * 10 ** rng.uniform(-2, 2)
    else:
        n = rng.randint(3, 40)
        k = rng.randint(1, min(4, n - 1))
        sc = 10 ** rng.uniform(-2, 0.5)
        h = a * np.eye(n, dtype=complex)
        h[:k, :k] += sc * _herm(g, k, "gue")
        h[k:, k:] += sc * _herm(g, n - k, "gue")
        if rng.random() < 0.6:                        # resonance between a kept and a dropped level
            h[k, k] = h[k - 1, k - 1]
        c = g.normal(size=(k, n - k)) + 1j * g.normal(size=(k, n - k))
        c *= eps / max(np.linalg.norm(c, 2), 1e-300)
        h[:k, k:] += c
        h[k:, :k] += c.conj().T
        v = np.zeros(n, dtype=complex)
        v[:k] = (g.normal(size=k) + 1j * g.normal(size=k)) * 10 ** rng.uniform(-2, 2)
    return dict(cls="herm", sub="large/" + sub, n=n, a=-1j * h, v=v, shape=(n,), herm=rng.random() < 0.75, tol=tol,
                norm_tol=ntol, md=rng.choice([10, 30, 100]), order=which, positional=rng.random() < 0.5,
                eps_over_normtol=f, anorm=a)


def gen_corr_case(rng, tier, small=False):
    """Correspondence also leaves the property's quantifier: norm_tolerance != exp_tolerance,
    max_krylov_dim = 0, a wrong `is_hermitian`, huge/tiny tolerances."""
    c = gen_case(rng, tier, small)
    r = rng.random()
    if r < 0.25:
        c["norm_tol"] = rng.choice([1e-20, 1e-16, 1e-12, 1e-8, 1e-3, 0.0])
    if rng.random() < 0.1:
        c["tol"] = rng.choice([1e-16, 1e-2, 1.0, 10.0])
    if rng.random() < 0.04:
        c["md"] = 0
    if rng.random() < 0.1:
        c["herm"] = not c["herm"]
    return c


# ------------------------------------------------------------------ real code
def run_impl(case, record=True):
    """-> (kind, result-object-or-exception-name, recorder)"""
    from emu_base.math.krylov_exp import krylov_exp_impl
    a = torch.from_numpy(np.ascontiguousarray(case["a"])).to(torch.complex128)
    v = torch.from_numpy(np.ascontiguousarray(case["v"])).to(torch.complex128).reshape(case["shape"])
    n = case["n"]

    def op(x):
        return (a @ x.reshape(n, -1)).reshape(x.shape)

    rec = Recorder()
    try:
        if record:
            with rec.recording():
                r = krylov_exp_impl(rec.wrap_op(op), v.clone(), is_hermitian=case["herm"], exp_tolerance=case["tol"],
                                    norm_tolerance=case["norm_tol"], max_krylov_dim=case["md"])
        else:
            r = krylov_exp_impl(rec.wrap_op(op), v.clone(), is_hermitian=case["herm"], exp_tolerance=case["tol"],
                                norm_tolerance=case["norm_tol"], max_krylov_dim=case["md"])
    except UnboundLocalError:
        return "unbound", None, rec
    return "ok", r, rec


def run_public(case):
    from emu_base.math.krylov_exp import krylov_exp
    a = torch.from_numpy(np.ascontiguousarray(case["a"])).to(torch.complex128)
    v = torch.from_numpy(np.ascontiguousarray(case["v"])).to(torch.complex128).reshape(case["shape"])
    n = case["n"]
    try:
        r = krylov_exp(lambda x: (a @ x.reshape(n, -1)).reshape(x.shape), v.clone(), exp_tolerance=case["tol"],
                       norm_tolerance=case["norm_tol"], is_hermitian=case["herm"], max_krylov_dim=case["md"])
    except RecursionError:
        return "raise recursion", None
    except UnboundLocalError:
        return "raise unbound", None
    return "ret", r


def run_public_rec(case):
    """The PUBLIC krylov_exp, recorded; arguments by keyword or positionally in the order of ITS signature
    (op, v, exp_tolerance, norm_tolerance, is_hermitian, max_krylov_dim)."""
    from emu_base.math.krylov_exp import krylov_exp
    a = torch.from_numpy(np.ascontiguousarray(case["a"])).to(torch.complex128)
    v = torch.from_numpy(np.ascontiguousarray(case["v"])).to(torch.complex128).reshape(case["shape"])
    n = case["n"]
    rec = Recorder()
    op = rec.wrap_op(lambda x: (a @ x.reshape(n, -1)).reshape(x.shape))
    try:
        with rec.recording():
            if case.get("positional"):
                r = krylov_exp(op, v.clone(), case["tol"], case["norm_tol"], case["herm"], case["md"])
            else:
                r = krylov_exp(op, v.clone(), exp_tolerance=case["tol"], norm_tolerance=case["norm_tol"],
                               is_hermitian=case["herm"], max_krylov_dim=case["md"])
    except RecursionError:
        return "raise recursion", None, rec
    except UnboundLocalError:
        return "raise unbound", None, rec
    return "ret", r, rec


def gen_pub_case(rng, tier):
    """Public-wrapper stream: exp_tolerance and norm_tolerance DISTINCT, in both orders (sometimes equal)."""
    c = gen_case(rng, tier)
    if c["n"] > 64:
        c = gen_case(rng, "quick")
    order = rng.choice(["norm>>exp", "norm>>exp", "norm<<exp", "equal"])
    c["tol"] = 10 ** rng.uniform(-12, -6)
    if order == "norm>>exp":
        c["norm_tol"] = min(c["tol"] * 10 ** rng.uniform(2, 6), 1e-2)
    elif order == "norm<<exp":
        c["norm_tol"] = c["tol"] * 10 ** rng.uniform(-6, -2)
    else:
        c["norm_tol"] = c["tol"]
    c["order"] = order
    c["positional"] = rng.random() < 0.5
    return c


def oracle_public_run(case, pk, res, its):
    """C07 on what the PUBLIC entry point hands back, against the tolerances THE CALLER passed: returned
    without raising => within 10*exp_tolerance*|v| (+rounding) of expm(A)v, unless the run ended in a happy
    breakdown as the caller understands it (last n2 < the norm_tolerance he passed)."""
    if pk != "ret":
        return None
    breakdown = bool(its) and its[-1]["n2"] < case["norm_tol"]
    e = scipy.linalg.expm(case["a"])
    ref = e @ case["v"]
    got = res.reshape(-1).numpy()
    nv = float(np.linalg.norm(case["v"]))
    thr = 10 * (case["norm_tol"] if breakdown else case["tol"]) * nv + 1e-9 * max(1.0, float(np.linalg.norm(e, 2))) * nv
    err = float(np.linalg.norm(got - ref))
    if not err <= thr:
        return (f"krylov_exp(exp_tolerance={case['tol']:.3e}, norm_tolerance={case['norm_tol']:.3e}) returned without raising and "
                f"{'with' if breakdown else 'without'} happy breakdown (last n2={its[-1]['n2'] if its else None!r}) but |result-expm(A)v|={err:.3e} > "
                f"10*tol*|v|+rounding={thr:.3e}")
    return None


def pub_tape_line(case, n0, its):
    return " ".join(["kry.exppub", f2b(case["tol"]), f2b(case["norm_tol"]), "1" if case["herm"] else "0", str(case["md"]),
                     f2b(n0), l1(f2b(t["n"]) for t in its), l1(f2b(t["n2"]) for t in its),
                     l2([[cx(z) for z in t["ovs"]] for t in its]),
                     l2([[cx(z) for z in t["mexp"][1][:, 0]] for t in its])])


def parse_events(ev):
    """Positional reading of the event log: n0, then per iteration op, norm(n), dots…, norm(n2), [mexp]."""
    if not ev or ev[0][0] != "norm":
        return None
    n0 = ev[0][1]
    its = []
    i = 1
    while i < len(ev):
        if ev[i][0] != "op":
            return None
        i += 1
        if i >= len(ev) or ev[i][0] != "norm":
            return None
        it = dict(n=ev[i][1], ovs=[], n2=None, mexp=None)
        i += 1
        while i < len(ev) and ev[i][0] == "dot":
            it["ovs"].append(ev[i][1])
            i += 1
        if i >= len(ev) or ev[i][0] != "norm":
            return None
        it["n2"] = ev[i][1]
        i += 1
        if i < len(ev) and ev[i][0] == "mexp":
            it["mexp"] = (ev[i][1], ev[i][2])
            i += 1
        else:
            return None
        its.append(it)
    return n0, its


def tape_line(cmd, case, n0, its):
    return " ".join([cmd, "1" if case["herm"] else "0", f2b(case["tol"]), f2b(case["norm_tol"]), str(case["md"]),
                     f2b(n0), l1(f2b(t["n"]) for t in its), l1(f2b(t["n2"]) for t in its),
                     l2([[cx(z) for z in t["ovs"]] for t in its]),
                     l2([[cx(z) for z in t["mexp"][1][:, 0]] for t in its])])


def parse_model(reply):
    """`ok conv hb iters opcalls errs T result` -> dict"""
    p = reply.split(" ")
    if p[0] != "ok":
        return dict(status=reply)
    errs = []
    for e in unlst(p[5]):
        a, b = e.split(":")
        errs.append((float("nan") if a == "nan" else b2f(a), float("nan") if b == "nan" else b2f(b)))
    tm = {}
    for e in unlst(p[6]):
        i, j, re_, im_ = e.split(":")
        tm[(int(i), int(j))] = complex(b2f(re_), b2f(im_))
    res = None if p[7] == "-" else [uncx(z) for z in p[7].split(",")]
    return dict(status="ok", conv=p[1] == "1", hb=p[2] == "1", iters=int(p[3]), ops=int(p[4]), errs=errs, T=tm, res=res)


def err_of(e1, e2):
    if e1 < e2:
        return e1
    if e2 < e1:
        return e1 * e2 / (e1 - e2)
    return float("inf")


def near_tie(case, m, its=None):
    """Is some `err < exp_tolerance` decision of the model run within TIE of its threshold?"""
    for e1, e2 in m.get("errs", []):
        e = err_of(e1, e2)
        if e == e and abs(e - case["tol"]) <= TIE * case["tol"]:
            return True
        if abs(e1 - e2) <= TIE * max(e1, e2):     # which branch of the formula is taken
            return True
    return False


def compare_tape(case, kind, r, rec, m):
    """None if model and real run agree, else a description."""
    nops = sum(1 for e in rec.events if e[0] == "op")
    if kind == "unbound":
        return None if m["status"] == "err unbound" else f"real: UnboundLocalError, model: {m['status']}"
    if m["status"] != "ok":
        return f"real returned, model: {m['status']}"
    if (m["conv"], m["hb"], m["iters"], m["ops"]) != (bool(r.converged), bool(r.happy_breakdown), int(r.iteration_count), nops):
        return (f"flags/count: model conv={m['conv']} hb={m['hb']} iters={m['iters']} ops={m['ops']} "
                f"real conv={r.converged} hb={r.happy_breakdown} iters={r.iteration_count} ops={nops}")
    mex = [e for e in rec.events if e[0] == "mexp"]
    if mex:
        arg = mex[-1][1]
        k = arg.shape[0]
        if not np.isfinite(arg).all():
            return None                        # NaN payloads are not compared (zero start vector)
        real = {(i, j): complex(arg[i, j]) for i in range(k) for j in range(k) if arg[i, j] != 0}
        mod = {ij: z for ij, z in m["T"].items() if ij[0] < k and ij[1] < k}
        if real != mod:
            diff = [(ij, real.get(ij), mod.get(ij)) for ij in sorted(set(real) | set(mod)) if real.get(ij) != mod.get(ij)]
            return f"T passed to matrix_exp differs at {diff[:4]}"
    return None


# ------------------------------------------------------------------ property oracle on the real code
def oracle(case, kind, r, rec):
    """C07 evaluated on one real run (None = holds)."""
    if kind == "unbound":
        return None if case["md"] == 0 else "UnboundLocalError with max_krylov_dim > 0"
    nops = sum(1 for e in rec.events if e[0] == "op")
    if r.happy_breakdown and not r.converged:
        return "happy_breakdown without converged"
    if r.iteration_count < 1 and case["md"] >= 1 and float(np.linalg.norm(case["v"])) > 0:
        return f"iteration_count={r.iteration_count}: no iteration was run (|v|={float(np.linalg.norm(case['v'])):.3e})"
    if r.iteration_count > case["md"]:
        return f"iteration_count {r.iteration_count} > max_krylov_dim {case['md']}"
    if nops != r.iteration_count:
        return f"op applied {nops} times, iteration_count={r.iteration_count}"
    if not r.converged and r.iteration_count != case["md"]:
        return "reported non-convergence before exhausting max_krylov_dim"
    if r.converged:
        e = scipy.linalg.expm(case["a"])
        ref = e @ case["v"]
        got = r.result.reshape(-1).numpy()
        nv = float(np.linalg.norm(case["v"]))
        # the tolerance that gated the exit taken: norm_tolerance for a happy breakdown, exp_tolerance otherwise
        # (the two are equal inside the property's quantifier)
        tol_eff = case["norm_tol"] if r.happy_breakdown else case["tol"]
        thr = 10 * tol_eff * nv + 1e-9 * max(1.0, float(np.linalg.norm(e, 2))) * nv
        err = float(np.linalg.norm(got - ref))
        case["_err_over_thr"] = err / thr if thr > 0 else 0.0
        if not err <= thr:
            return (f"converged={r.converged} happy_breakdown={r.happy_breakdown} iterations={r.iteration_count} but "
                    f"|result-expm(A)v|={err:.3e} > 10*tol*|v|+rounding={thr:.3e} (exp_tolerance={case['tol']:.3e}, "
                    f"norm_tolerance={case['norm_tol']:.3e}, |v|={nv:.3e})")
    return None


def oracle_public(case, r):
    pk, pr = run_public(case)
    if r is None:
        return None if pk == "raise unbound" else f"impl raised UnboundLocalError, krylov_exp: {pk}"
    if r.converged and pk != "ret":
        return f"impl converged but krylov_exp: {pk}"
    if not r.converged and pk != "raise recursion":
        return f"impl did not converge but krylov_exp: {pk}"
    if pk == "ret" and not torch.equal(pr, r.result):
        return "krylov_exp returned something else than krylov_exp_impl(...).result"
    return None


def _ser(case):
    return dict(cls=case["cls"], sub=case["sub"], n=case["n"], herm=case["herm"], tol=case["tol"], norm_tol=case["norm_tol"],
                md=case["md"], shape=list(case["shape"]),
                a_re=case["a"].real.tolist(), a_im=case["a"].imag.tolist(),
                v_re=case["v"].real.tolist(), v_im=case["v"].imag.tolist())


def _unser(d):
    return dict(cls=d["cls"], sub=d["sub"], n=d["n"], herm=d["herm"], tol=d["tol"], norm_tol=d["norm_tol"], md=d["md"],
                shape=tuple(d["shape"]), a=np.array(d["a_re"]) + 1j * np.array(d["a_im"]),
                v=np.array(d["v_re"]) + 1j * np.array(d["v_im"]))


# ------------------------------------------------------------------ check
def check(rep: Report, tier: str, seed: int) -> None:
    rep.rule = ("cases = (operator, v, is_hermitian, tolerance, max_krylov_dim) drawn from one PRNG; operators: -i*dt*H "
                "(GUE, chain, clustered, degenerate, block-diagonal with v in a block, zero, identity), -i*dt*(H-iG/2) with "
                "G=BB^dagger, dt*Lindblad superoperator (d<=16); |A| in 1e-2..30, dim 1..256, tol 1e-12..1e-4, "
                "max_krylov_dim 1..100, |v| 1e-3..1e3; correspondence stream additionally norm_tol != tol, max_krylov_dim=0, "
                "wrong is_hermitian. non-trivial = at least 2 iterations; distinct = distinct (n, tol, md, first overlap)")
    rep.assumptions = [
        "accuracy clause (converged => |result - exp(A)v| <= 10*tol*|v| + rounding) is NOT proved: Expokit's a-posteriori "
        "estimate is a heuristic; validated against scipy.linalg.expm on every generated operator of this run",
        "torch.linalg.matrix_exp is an oracle (recorded tape); validated: first column vs scipy.linalg.expm to 1e-10*|exp T|",
        "Tensor.norm / tensordot are exact inner-product operations in the theorems; binary64 rounding (loss of orthogonality) is outside",
    ]
    # build + grep + `#print axioms` audit run concurrently with the Python side (joined before the driver is used)
    lean_thread = LeanStageThread(rep, PROP_MODULE, AUDIT, thorough=(tier == "thorough"))
    lean_thread.start()
    # the extra module waits for the main stage (never two `lake build`s at once), then runs beside the driver / comparison
    extra = ExtraLeanStage(rep, EXTRA_STAGES, thorough=(tier == "thorough"), after=lean_thread)
    extra.start()
    rng = seeded(seed * 7919 + 7)
    torch.manual_seed(seed)
    n_or = 200 if tier == "quick" else 1800
    n_co = 120 if tier == "quick" else 1000
    n_dense = 50 if tier == "quick" else 500
    lines, metas = [], []
    worst = 0.0

    def add(case, dense=False):
        nonlocal worst
        try:
            kind, r, rec = run_impl(case)
        except Exception as e:
            rep.fail(f"real krylov_exp_impl raised {type(e).__name__}: {e}", _ser(case))
            return
        msg = oracle(case, kind, r, rec) if (case.get("in_class", True) or case["sub"].startswith(("large/", "vnorm-"))) else None
        if msg is None and case.get("in_class", True):
            msg = oracle_public(case, r)
        worst = max(worst, case.get("_err_over_thr", 0.0))
        pe = parse_events(rec.events) if kind == "ok" else ((rec.events[0][1], []) if rec.events else None)
        if kind == "ok" and pe is None:
            rep.broke("correspondence: the real run's kernel-call schedule is not (norm, [op, norm, dots, norm, matrix_exp]*): "
                      + json.dumps([e[0] for e in rec.events][:40]))
            return
        n0, its = pe
        if msg:
            klass = classify(case, r, its) if "10*tol" in msg else None
            rep.fail(msg, _ser(case), klass=klass)
            rep.hist("oracle_failures", klass or "unclassified")
        for t in its:   # contract of the matrix_exp oracle
            arg, out = t["mexp"]
            if not np.isfinite(arg).all():
                continue                       # zero start vector: 0/0 = NaN everywhere (see notes)
            ref = scipy.linalg.expm(arg)
            sc = max(1.0, float(np.abs(ref).max()))
            if not np.abs(out[:, 0] - ref[:, 0]).max() <= 1e-10 * sc:
                rep.count("matrix_exp_contract_misses")
        rep.hist("class", case["cls"] + "/" + case["sub"])
        rep.hist("exit", kind if kind != "ok" else ("breakdown" if r.happy_breakdown else ("converged" if r.converged else "exhausted")))
        rep.hist("iters_bucket", 0 if kind != "ok" else min(r.iteration_count // 10 * 10, 100))
        rep.hist("dim_bucket", 1 << max(case["n"] - 1, 0).bit_length())
        lines.append(tape_line("kry.exp", case, n0, its))
        metas.append(("tape", case, kind, r, rec, its))
        if dense:
            lines.append(" ".join(["kry.expd", "1" if case["herm"] else "0", f2b(case["tol"]), f2b(case["norm_tol"]),
                                   str(case["md"]), mat_line(case["a"]), l1(cx(z) for z in case["v"]),
                                   l2([[cx(z) for z in t["mexp"][1][:, 0]] for t in its])]))
            metas.append(("dense", case, kind, r, rec, its))

    add(witness_case())
    add(witness_case_err1())
    for i in range(10 if tier == "quick" else 150):
        add(gen_phase_case(rng))
    for i in range(n_or):
        add(gen_case(rng, tier))
    for i in range(25 if tier == "quick" else 400):
        add(gen_weak_case(rng))
    for i in range(n_co):
        c = gen_corr_case(rng, tier)
        c["in_class"] = c["md"] > 0 and c["norm_tol"] == c["tol"] and 1e-12 <= c["tol"] <= 1e-4 and \
            (c["herm"] is False or c["cls"] == "herm")
        add(c)
    for i in range(n_dense):
        c = gen_corr_case(rng, tier, small=True)
        c["shape"] = (c["n"],)
        c["in_class"] = False
        add(c, dense=True)
    def add_pub(case):
        try:
            pk, res, rec = run_public_rec(case)
        except Exception as ex:
            rep.fail(f"real krylov_exp raised {type(ex).__name__}: {ex}", _ser(case))
            return
        pe = parse_events(rec.events) if rec.events and case["md"] > 0 else ((rec.events[0][1], []) if rec.events else None)
        if pe is None:
            rep.broke("correspondence (public): kernel-call schedule not recognised: " + json.dumps([x[0] for x in rec.events][:40]))
            return
        n0, its = pe
        msg = oracle_public_run(case, pk, res, its)
        if msg:
            klass = None
            if its:     # the known early-accept defect shows through the wrapper as well
                k2, r2, rec2 = run_impl(case)
                pe2 = parse_events(rec2.events) if k2 == "ok" else None
                klass = classify(case, r2, pe2[1]) if pe2 else None
            rep.fail(msg, dict(_ser(case), public=True, positional=bool(case.get("positional"))), klass=klass)
            rep.hist("oracle_failures", klass or "unclassified")
        rep.hist("public_order", case["order"] + ("/positional" if case.get("positional") else "/keyword"))
        rep.hist("public_exit", pk)
        lines.append(pub_tape_line(case, n0, its))
        metas.append(("pub", case, pk, None, rec, its))

    for i in range(70 if tier == "quick" else 800):
        add_pub(gen_pub_case(rng, tier))
    for i in range(80 if tier == "quick" else 1000):      # |v| from 0 and 1e-14 to 1e6, on the tolerance lattices
        c = gen_vnorm_case(rng, tier)
        rep.hist("vnorm_over_normtol", "0" if c["vnorm_over_normtol"] == 0 else "%.0e" % c["vnorm_over_normtol"])
        if i % 2 == 0:
            add(c)
        else:
            add_pub(c)
    for i in range(90 if tier == "quick" else 1200):      # large |A|, near-invariant subspaces, boundary lattice
        c = gen_large_case(rng, tier)
        rep.hist("large_eps_over_normtol", "%.0e" % c["eps_over_normtol"])
        if i % 2 == 0:
            add(c)
        else:
            add_pub(c)
    rep.extra["worst_error_over_threshold"] = round(worst, 6)

    import time as _t
    rep.extra["t_python_side_s"] = round(_t.time() - rep.t0, 1)
    lean_thread.finish()
    rep.extra["t_lean_stage_done_s"] = round(_t.time() - rep.t0, 1)
    try:
        replies = Driver().batch(lines)
    except LeanError as e:
        rep.broke("driver: " + str(e)[-800:])
        replies = [None] * len(lines)
    dis = 0
    for idx, (line, reply, (mode, case, kind, r, rec, its)) in enumerate(zip(lines, replies, metas)):
        if reply is None:
            continue
        if mode == "pub":
            rep.case(key=("pub", case["n"], f2b(case["tol"]), f2b(case["norm_tol"]), case["md"]), nontrivial=len(its) >= 2)
            if reply != kind:
                # the model recomputes abs()/the err formula: judge only away from the threshold
                errs = [(abs(t["mexp"][1][j + 1, 0]), abs(t["mexp"][1][j + 2, 0] * t["n"]))
                        for j, t in enumerate(its) if t["mexp"][1].shape[0] == j + 3]
                if near_tie(case, dict(errs=errs)):
                    rep.count("near_ties")
                    continue
                dis += 1
                if dis <= 5:
                    rep.broke(f"correspondence Model.Krylov.krylovExpPublic vs krylov_exp (exp_tolerance={case['tol']:.3e}, "
                              f"norm_tolerance={case['norm_tol']:.3e}, {'positional' if case.get('positional') else 'keyword'}): "
                              f"model={reply} real={kind} after {len(its)} iterations; case="
                              + json.dumps({k: v for k, v in _ser(case).items() if not k.startswith(("a_", "v_"))}))
            continue
        m = parse_model(reply)
        key = (case["n"], f2b(case["tol"]), case["md"], cx(its[0]["ovs"][0]) if its and its[0]["ovs"] else "-")
        rep.case(key=key, nontrivial=len(its) >= 2,
                 sample=dict(cls=case["cls"], sub=case["sub"], n=case["n"], herm=case["herm"], tol=case["tol"], md=case["md"],
                             iterations=len(its), exit=kind if kind != "ok" else ("converged" if r.converged else "exhausted")))
        if mode == "tape":
            msg = compare_tape(case, kind, r, rec, m)
            if msg and near_tie(case, m):
                rep.count("near_ties")
                continue
        else:
            msg = compare_dense(case, kind, r, rec, m, its, rep)
        if msg:
            dis += 1
            if dis <= 5:
                rep.broke(f"correspondence Model.Krylov.expImpl ({mode}) vs krylov_exp_impl: {msg}; case="
                          + json.dumps({k: v for k, v in _ser(case).items() if not k.startswith(("a_", "v_"))}))
    rep.extra["correspondence_disagreements"] = dis
    extra.merge()
    if rep.broken and not rep.unknown_failing():
        search(rep, seed, 1500 if tier == "quick" else 20000, tier)


def compare_dense(case, kind, r, rec, m, its, rep):
    """The model does all vector arithmetic itself (binary64): decisions are compared unless a
    threshold is within TIE / the vectors are rounding noise; T and the result to TREL."""
    if kind == "unbound":
        return None if m["status"] == "err unbound" else f"real: UnboundLocalError, model: {m['status']}"
    scale = max([abs(t["n"]) for t in its] + [1e-300])
    # FIRST the screening: any n2 that is rounding noise relative to |op q|, or within 1e-7 of norm_tol -> counted, not judged
    for t in its:
        if t["n2"] <= 1e-9 * scale and case["norm_tol"] <= 1e-9 * scale:
            rep.count("dense_noise_skips")
            return None
        if abs(t["n2"] - case["norm_tol"]) <= 1e-7 * max(t["n2"], case["norm_tol"]):
            rep.count("near_ties")
            return None
    if m["status"] != "ok":
        return f"real returned, model: {m['status']}"
    if near_tie(case, m):
        rep.count("near_ties")
        return None
    nops = sum(1 for e in rec.events if e[0] == "op")
    if (m["conv"], m["hb"], m["iters"], m["ops"]) != (bool(r.converged), bool(r.happy_breakdown), int(r.iteration_count), nops):
        return (f"flags/count: model conv={m['conv']} hb={m['hb']} iters={m['iters']} ops={m['ops']} "
                f"real conv={r.converged} hb={r.happy_breakdown} iters={r.iteration_count} ops={nops}")
    mex = [e for e in rec.events if e[0] == "mexp"]
    arg = mex[-1][1]
    k = arg.shape[0]
    tsc = max(float(np.abs(arg).max()), 1e-300)
    # loss of orthogonality amplifies rounding by 1/n2: allow TREL * scale / min n2
    amp = max(1.0, scale / max(min(t["n2"] for t in its), 1e-300))
    for i in range(k):
        for j in range(k):
            if abs(m["T"].get((i, j), 0j) - complex(arg[i, j])) > TREL * tsc * amp * 100:
                return f"T[{i},{j}] model={m['T'].get((i, j), 0j)!r} real={complex(arg[i, j])!r}"
    got = r.result.reshape(-1).numpy()
    nv = max(float(np.linalg.norm(got)), float(np.linalg.norm(case["v"])), 1e-300)
    if m["res"] is None or len(m["res"]) != len(got):
        return "result length"
    if float(np.linalg.norm(np.array(m["res"]) - got)) > 1e-10 * nv * amp:
        return f"result vector differs by {float(np.linalg.norm(np.array(m['res']) - got)):.3e} (|v|={nv:.3e})"
    return None


def search(rep: Report, seed: int, n: int, tier: str) -> None:
    """Failing-input search on the real code only: the property oracle over a fresh, larger stream
    (more big dimensions, tight tolerances, small max_krylov_dim)."""
    rng = seeded(seed * 104729 + 7)
    for i in range(n):
        case = gen_case(rng, "thorough" if i % 4 == 0 else tier)
        if i % 3 == 0:
            case["md"] = rng.randint(1, 12)
        try:
            kind, r, rec = run_impl(case, record=True)
        except Exception as e:
            rep.fail(f"real krylov_exp_impl raised {type(e).__name__}: {e}", _ser(case))
            return
        msg = oracle(case, kind, r, rec) or oracle_public(case, r)
        if msg:
            rep.fail(msg, _ser(case))
            return
        if i % 2 == 0:
            pc = gen_pub_case(rng, tier)
            pk, res, prec = run_public_rec(pc)
            pe = parse_events(prec.events) if prec.events else None
            msg = oracle_public_run(pc, pk, res, pe[1] if pe else [])
            if msg:
                rep.fail(msg, dict(_ser(pc), public=True, positional=bool(pc.get("positional"))))
                return
    rep.extra["search_cases"] = n


def _replay_one(d):
    case = _unser(d)
    if d.get("public"):
        case["positional"] = bool(d.get("positional"))
        pk, res, rec = run_public_rec(case)
        pe = parse_events(rec.events) if rec.events else None
        return oracle_public_run(case, pk, res, pe[1] if pe else [])
    kind, r, rec = run_impl(case)
    return oracle(case, kind, r, rec) or oracle_public(case, r)


def replay(rep: Report, path: str) -> int:
    data = json.load(open(path))
    bad = 0
    for f in data.get("failing_inputs", []):
        msg = _replay_one(f["data"])
        print("replay:", msg or "property holds on this input now")
        bad += bool(msg)
    return 1 if bad else 0
