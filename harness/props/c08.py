"""C08 — Lanczos ground-state search is variational and meets its residual
(emu_base/math/krylov_energy_min.py).

Lean: EmuVerif.Props.C08. Correspondence: the Lean model of `krylov_energy_minimization_impl` run on a
tape of the real run's `norm`/`vdot`/`eigh` answers (exact), on dense binary64 vectors (tolerance), and
single `_next_lanczos_iteration` / `_ritz_vector` steps from arbitrary states. Oracle on the real code:
unit norm, energy = Rayleigh quotient, energy >= lambda_min (dense eigh), converged & no breakdown =>
residual < tolerance, wrapper raises iff neither converged nor breakdown.
"""
from __future__ import annotations

import json
import warnings
from unittest import mock

import numpy as np
import torch

from harness.common import Driver, LeanError, Report, f2b, b2f, lean_stage, seeded, unlst
from harness.props.kry_common import LeanStageThread, Recorder, cx, uncx, l1, l2, l3, mat_line

REGISTRY = dict(
    text=("Lean 4 theorems about the model of krylov_energy_minimization(_impl) over an abstract tensor algebra. For "
          "every operator, start vector and every eigh oracle (decision logic): a returned result has "
          "restart_count <= max_restarts; converged without happy_breakdown implies residual_norm < residual_tolerance; "
          "happy_breakdown implies converged; the (state, energy, residual) returned is one Ritz triple of the last "
          "cycle; iteration_count = number of op evaluations; the public wrapper raises RecursionError iff neither "
          "converged nor happy_breakdown. In any real/complex inner-product space (exact arithmetic), nonzero start "
          "vector: the returned state has norm 1 (for every eigh oracle); for a symmetric (Hermitian) op the Lanczos "
          "vectors are orthonormal and satisfy the three-term recurrence, hence with the eigh contract (T y = theta y, "
          "|y| = 1) the returned energy is the Rayleigh quotient <psi,H psi> of the returned state and "
          "|H psi - theta psi| = beta_j |y_j| = residual_norm; in finite dimension <psi,H psi> >= the smallest "
          "eigenvalue of op. Assumed: LAPACK eigh contract (validated on every recorded call), exact arithmetic "
          "(loss of orthogonality in binary64 is measured by the oracle, not modelled). The public "
          "krylov_energy_minimization is modelled with its own parameter list (public_wrapper_uses_callers_tolerances) and "
          "driven with distinct tolerances in both orders; what it returns is checked against the caller's residual_tolerance."),
    note=("Trusted: Lean kernel + propext/Classical.choice/Quot.sound; Mathlib; hand-written Model.Krylov tied to the "
          "code by tape-driven/dense/single-step correspondence; torch.linalg.eigh, Tensor.norm, vdot and binary64 "
          "rounding are outside the theorems."),
    technique="Lean 4 proof (induction over the Lanczos and restart loops, all oracle tapes; inner-product-space "
              "algebra) + tape-driven model/implementation correspondence + dense eigh oracle",
    design_ref="DESIGN.md §5 C08",
)

PROP_MODULE = "EmuVerif.Props.C08"
AUDIT = "Audit/C08.lean"
TIE = 1e-9


# ------------------------------------------------------------------ generators
def gen_h(g, rng, n, kind=None):
    kind = kind or rng.choice(["gapped", "degenerate", "clustered", "gue", "chain", "diag", "identity"])
    if kind in ("gapped", "degenerate", "clustered"):
        ev = np.sort(g.normal(size=n))
        if kind == "gapped" and n > 1:
            ev[0] = ev[1] - g.uniform(0.5, 3)
        if kind == "degenerate" and n > 1:
            m = rng.randint(2, min(n, 4))
            ev[:m] = ev[0]
            if rng.random() < 0.3:
                ev[:] = ev[rng.randrange(n)] if rng.random() < 0.3 else ev
        if kind == "clustered" and n > 1:
            m = rng.randint(2, min(n, 6))
            ev[:m] = ev[0] + 10 ** rng.uniform(-9, -4) * np.arange(m)
        q, _ = np.linalg.qr(g.normal(size=(n, n)) + 1j * g.normal(size=(n, n)))
        h = (q * ev) @ q.conj().T
        h = (h + h.conj().T) / 2
    elif kind == "gue":
        m = g.normal(size=(n, n)) + 1j * g.normal(size=(n, n))
        h = (m + m.conj().T) / 2
    elif kind == "chain":
        h = np.diag(g.normal(size=n)).astype(complex)
        for i in range(n - 1):
            h[i, i + 1] = h[i + 1, i] = g.normal()
    elif kind == "diag":
        h = np.diag(np.round(g.normal(size=n) * 3)).astype(complex)   # integer spectrum, many repeats
    else:
        h = np.eye(n, dtype=complex) * g.normal()
    return kind, h * 10 ** rng.uniform(-2, 2)


def gen_case(rng, tier, small=False):
    g = np.random.default_rng(rng.getrandbits(48))
    n = rng.randint(1, 6 if small else (128 if rng.random() < (0.4 if tier == "thorough" else 0.15) else 40))
    kind, h = gen_h(g, rng, n)
    v = g.normal(size=n) + 1j * g.normal(size=n)
    if rng.random() < 0.1:
        v = np.zeros(n, dtype=complex)
        v[rng.randrange(n)] = 1
    if rng.random() < 0.1 and n > 1:                     # start inside an invariant subspace
        w, u = np.linalg.eigh(h)
        k = rng.randint(1, n)
        idx = rng.sample(range(n), k)
        v = u[:, idx] @ (g.normal(size=k) + 1j * g.normal(size=k))
    v = v * 10 ** rng.uniform(-3, 3)
    hn = max(float(np.linalg.norm(h, 2)), 1e-300)
    rtol = hn * 10 ** rng.uniform(-10, -3)
    ntol = hn * 10 ** rng.uniform(-13, -8)
    md = rng.choice([1, 2, 3, 5, 10, 20, 50, 100, rng.randint(1, 100)])
    mr = rng.choice([0, 1, 2, 5, 100])
    if small:   # dense stream: keep away from breakdown (rounding-noise betas are not comparable between two binary64 runs)
        if rng.random() < 0.75:
            n = rng.randint(3, 8)
            kind = rng.choice(["gue", "chain", "gapped"])
            _, h = gen_h(g, rng, n, kind)
            v = g.normal(size=n) + 1j * g.normal(size=n)
            hn = max(float(np.linalg.norm(h, 2)), 1e-300)
            rtol, ntol = hn * 10 ** rng.uniform(-4, -1), hn * 1e-12
            md, mr = rng.randint(1, max(1, n - 2)), rng.choice([0, 1, 3])
        else:
            md, mr = rng.randint(1, 7), rng.choice([0, 1, 3])
    shape = (n,) if rng.random() < 0.8 else (n, 1)
    return dict(kind=kind, n=n, h=h, v=v, shape=shape, rtol=rtol, ntol=ntol, md=md, mr=mr)


def gen_corr_case(rng, tier, small=False):
    c = gen_case(rng, tier, small)
    r = rng.random()
    if r < 0.04:
        c["md"] = 0
    elif r < 0.08:
        c["v"] = c["v"] * 0            # zero start vector -> ValueError
    elif r < 0.16:
        c["ntol"] = rng.choice([0.0, 1e-3, 1.0, 1e3]) * max(float(np.linalg.norm(c["h"], 2)), 1e-300)
    elif r < 0.24:
        c["rtol"] = rng.choice([0.0, 1e-16, 1e-1, 10.0]) * max(float(np.linalg.norm(c["h"], 2)), 1e-300)
    c["in_class"] = False
    return c


# ------------------------------------------------------------------ real code
def _tensors(case):
    h = torch.from_numpy(np.ascontiguousarray(case["h"])).to(torch.complex128)
    v = torch.from_numpy(np.ascontiguousarray(case["v"])).to(torch.complex128).reshape(case["shape"])
    n = case["n"]
    return h, v, (lambda x: (h @ x.reshape(n, -1)).reshape(x.shape))


def run_impl(case):
    import emu_base.math.krylov_energy_min as kem
    h, v, op = _tensors(case)
    rec = Recorder()
    o_ritz = kem._ritz_vector

    def ritz(*a, **k):
        r = o_ritz(*a, **k)
        rec.events.append(("ritz", r))
        return r

    with warnings.catch_warnings():
        warnings.simplefilter("ignore")
        try:
            with rec.recording(), mock.patch.object(kem, "_ritz_vector", ritz):
                r = kem.krylov_energy_minimization_impl(rec.wrap_op(op), v.clone(), residual_tolerance=case["rtol"],
                                                        norm_tolerance=case["ntol"], max_krylov_dim=case["md"],
                                                        max_restarts=case["mr"])
        except ValueError:
            return "value", None, rec
    return "ok", r, rec


def run_public(case):
    import emu_base.math.krylov_energy_min as kem
    h, v, op = _tensors(case)
    with warnings.catch_warnings():
        warnings.simplefilter("ignore")
        try:
            st, e = kem.krylov_energy_minimization(op, v.clone(), norm_tolerance=case["ntol"],
                                                   residual_tolerance=case["rtol"], max_krylov_dim=case["md"])
        except RecursionError:
            return "raise recursion", None, None
        except ValueError:
            return "raise value", None, None
    return "ret", st, e


def run_public_rec(case):
    """The PUBLIC entry point, recorded. Arguments are passed the way callers do: by keyword (emu_mps) or
    positionally in the order of ITS signature (op, psi, norm_tolerance, residual_tolerance, max_krylov_dim)."""
    import emu_base.math.krylov_energy_min as kem
    h, v, op = _tensors(case)
    rec = Recorder()
    o_ritz = kem._ritz_vector

    def ritz(*a, **k):
        r = o_ritz(*a, **k)
        rec.events.append(("ritz", r))
        return r

    with warnings.catch_warnings():
        warnings.simplefilter("ignore")
        try:
            with rec.recording(), mock.patch.object(kem, "_ritz_vector", ritz):
                if case.get("positional"):
                    st, e = kem.krylov_energy_minimization(rec.wrap_op(op), v.clone(), case["ntol"], case["rtol"], case["md"])
                else:
                    st, e = kem.krylov_energy_minimization(rec.wrap_op(op), v.clone(), norm_tolerance=case["ntol"],
                                                           residual_tolerance=case["rtol"], max_krylov_dim=case["md"])
        except RecursionError:
            return "raise recursion", None, None, rec
        except ValueError:
            return "raise value", None, None, rec
    return "ret", st, e, rec


def gen_pub_case(rng, tier):
    """Public-wrapper stream: the two tolerances are DISTINCT, in both orders (and sometimes equal)."""
    c = gen_case(rng, tier)
    if c["n"] > 48:
        c = gen_case(rng, "quick")
    hn = max(float(np.linalg.norm(c["h"], 2)), 1e-300)
    order = rng.choice(["norm>>resid", "norm>>resid", "norm<<resid", "equal"])
    c["rtol"] = hn * 10 ** rng.uniform(-11, -6)
    if order == "norm>>resid":
        c["ntol"] = min(c["rtol"] * 10 ** rng.uniform(2, 6), hn * 1e-2)
    elif order == "norm<<resid":
        c["ntol"] = c["rtol"] * 10 ** rng.uniform(-5, -2)
    else:
        c["ntol"] = c["rtol"]
    c["md"] = rng.choice([3, 5, 10, 20, 50, 100])
    c["mr"] = 100                                  # the wrapper's default
    c["order"] = order
    c["positional"] = rng.random() < 0.5
    return c


def oracle_public_run(case, pk, st, e, cycles):
    """C08 on what the PUBLIC entry point hands back, against the tolerances THE CALLER passed."""
    hn = max(float(np.linalg.norm(case["h"], 2)), 1e-300)
    if pk != "ret":
        return None
    psi = st.reshape(-1).numpy()
    nrm = float(np.linalg.norm(psi))
    if not abs(nrm - 1) <= 1e-10:
        return f"krylov_energy_minimization returned a state of norm {nrm!r}"
    hpsi = case["h"] @ psi
    ray = float(np.real(np.vdot(psi, hpsi)))
    if not abs(e - ray) <= 1e-8 * hn:
        return f"krylov_energy_minimization: energy {e!r} is not the Rayleigh quotient {ray!r} of the returned state"
    lam = float(np.linalg.eigvalsh(case["h"])[0])
    if not e >= lam - 1e-8 * hn:
        return f"krylov_energy_minimization: energy {e!r} below the lowest eigenvalue {lam!r}"
    its = [t for c in cycles for t in c["its"]]
    # happy breakdown as the caller understands it: the last beta is below the norm_tolerance he passed
    breakdown = bool(its) and its[-1]["beta"] < case["ntol"]
    res = float(np.linalg.norm(hpsi - e * psi))
    if not breakdown and not res < case["rtol"] + 1e-10 * hn:
        return (f"krylov_energy_minimization(norm_tolerance={case['ntol']:.3e}, residual_tolerance={case['rtol']:.3e}) returned "
                f"without raising and without happy breakdown (last beta={its[-1]['beta'] if its else None!r}) but "
                f"|H psi - E psi|={res:.3e} >= residual_tolerance (+1e-10|H|)")
    return None


def pub_tape_line(case, cycles):
    nanb = f2b(float("nan"))
    return " ".join(["kry.eminpub", f2b(case["ntol"]), f2b(case["rtol"]), str(case["md"]),
                     l1(f2b(c["init"]) for c in cycles),
                     l2([[cx(t["ov"]) for t in c["its"]] for c in cycles]),
                     l2([[f2b(t["beta"]) for t in c["its"]] for c in cycles]),
                     l2([[f2b(t["ritz_norm"]) if t["ritz_norm"] is not None else nanb for t in c["its"]] for c in cycles]),
                     l3([[[f2b(t["eigh"][1][0])] + [f2b(x) for x in t["eigh"][2][:, 0]] for t in c["its"]] for c in cycles])])


def parse_events(ev):
    """cycles = [dict(init=norm, its=[dict(ov, beta, eigh=(arg, w, v), ritz_norm, ritz)])]"""
    cycles = []
    i = 0
    while i < len(ev):
        if ev[i][0] != "norm":
            return None
        cyc = dict(init=ev[i][1], its=[])
        i += 1
        while i < len(ev) and ev[i][0] == "op":
            seq = [e[0] for e in ev[i:i + 6]]
            if seq[:4] != ["op", "dot", "norm", "eigh"]:
                return None
            it = dict(ov=ev[i + 1][1], beta=ev[i + 2][1], eigh=ev[i + 3][1:], ritz_norm=None, ritz=None)
            i += 4
            if i < len(ev) and ev[i][0] == "norm":
                it["ritz_norm"] = ev[i][1]
                i += 1
                if i < len(ev) and ev[i][0] == "ritz":
                    it["ritz"] = ev[i][1]
                    i += 1
            cyc["its"].append(it)
        cycles.append(cyc)
    return cycles


def tape_line(cmd, case, cycles):
    nanb = f2b(float("nan"))
    return " ".join([cmd, f2b(case["rtol"]), f2b(case["ntol"]), str(case["md"]), str(case["mr"]),
                     l1(f2b(c["init"]) for c in cycles),
                     l2([[cx(t["ov"]) for t in c["its"]] for c in cycles]),
                     l2([[f2b(t["beta"]) for t in c["its"]] for c in cycles]),
                     l2([[f2b(t["ritz_norm"]) if t["ritz_norm"] is not None else nanb for t in c["its"]] for c in cycles]),
                     l3([[[f2b(t["eigh"][1][0])] + [f2b(x) for x in t["eigh"][2][:, 0]] for t in c["its"]] for c in cycles])])


def _optf(s):
    return float("inf") if s == "inf" else (float("nan") if s == "nan" else b2f(s))


def parse_model(reply):
    p = reply.split(" ")
    if p[0] != "ok":
        return dict(status=reply)
    return dict(status="ok", conv=p[1] == "1", hb=p[2] == "1", iters=int(p[3]), restarts=int(p[4]), ops=int(p[5]),
                energy=_optf(p[6]), resid=_optf(p[7]), alphas=[_optf(x) for x in unlst(p[8])],
                betas=[_optf(x) for x in unlst(p[9])], state=p[10])


def state_name(r, cycles):
    for ci, c in enumerate(cycles):
        for j, t in enumerate(c["its"]):
            if t["ritz"] is r.ground_state:
                return f"ritz:{ci}:{j}"
    return f"q:{len(cycles) - 1}"


def near_tie(case, cycles):
    """residual decisions use |beta*y_j| computed by the model itself: one rounding; judge only with margin"""
    for c in cycles:
        best = float("inf")
        for j, t in enumerate(c["its"]):
            resid = abs(t["beta"] * float(t["eigh"][2][j, 0]))
            for thr in (case["rtol"], best):
                if thr != float("inf") and abs(resid - thr) <= TIE * max(resid, thr) and resid != thr:
                    return True
            best = min(best, resid)
    return False


def compare_tape(case, kind, r, rec, cycles, m):
    nops = sum(1 for e in rec.events if e[0] == "op")
    if kind == "value":
        return None if m["status"] == "err value" else f"real: ValueError, model: {m['status']}"
    if m["status"] != "ok":
        return f"real returned, model: {m['status']}"
    real = (bool(r.converged), bool(r.happy_breakdown), int(r.iteration_count), int(r.restart_count), nops,
            float(r.ground_energy), float(r.residual_norm), state_name(r, cycles))
    mod = (m["conv"], m["hb"], m["iters"], m["restarts"], m["ops"], m["energy"], m["resid"], m["state"])
    if real[:5] != mod[:5] or real[7] != mod[7]:
        return f"flags/counts/state: model={mod} real={real}"
    if real[5] != mod[5]:
        return f"ground_energy: model={mod[5]!r} real={real[5]!r}"
    if not (real[6] == mod[6] or abs(real[6] - mod[6]) <= 1e-12 * max(abs(real[6]), abs(mod[6]))):
        return f"residual_norm: model={mod[6]!r} real={real[6]!r}"
    # the arguments of the last eigh call are the last cycle's alphas[:m], betas[:m-1]
    last = [t for c in cycles for t in c["its"]]
    if last:
        arg = last[-1]["eigh"][0]
        al = [float(x) for x in np.real(np.diagonal(arg))]
        be = [float(x) for x in np.real(np.diagonal(arg, -1))]
        if al != m["alphas"] or be != m["betas"][:len(be)]:
            return f"tridiagonal matrix handed to eigh: model alphas={m['alphas'][:4]} betas={m['betas'][:4]} real {al[:4]} {be[:4]}"
    return None


# ------------------------------------------------------------------ oracle on the real code
def oracle(case, kind, r, rec):
    hn = max(float(np.linalg.norm(case["h"], 2)), 1e-300)
    if kind == "value":
        return None if float(np.linalg.norm(case["v"])) < case["ntol"] else "ValueError for a non-zero start vector"
    nops = sum(1 for e in rec.events if e[0] == "op")
    if r.restart_count > case["mr"]:
        return f"restart_count {r.restart_count} > max_restarts {case['mr']}"
    if nops != r.iteration_count:
        return f"op applied {nops} times, iteration_count={r.iteration_count}"
    if r.happy_breakdown and not r.converged:
        return "happy_breakdown without converged"
    if case["md"] == 0:
        return None                       # no iteration ran: (q0, inf, inf), the public wrapper raises
    # unit norm / Rayleigh / variational hold for every impl result (theorem energy_is_rayleigh_and_residual),
    # also for the unconverged ones the public wrapper turns into RecursionError
    psi = r.ground_state.reshape(-1).numpy()
    e = float(r.ground_energy)
    nrm = float(np.linalg.norm(psi))
    if not abs(nrm - 1) <= 1e-10:
        return f"returned state has norm {nrm!r}"
    hpsi = case["h"] @ psi
    ray = float(np.real(np.vdot(psi, hpsi)))
    case["_ray_gap"] = abs(e - ray) / hn
    if not abs(e - ray) <= 1e-8 * hn:
        return f"energy {e!r} is not the Rayleigh quotient {ray!r} of the returned state (|H|={hn:.3e})"
    lam = float(np.linalg.eigvalsh(case["h"])[0])
    if not e >= lam - 1e-8 * hn:
        return f"energy {e!r} below the lowest eigenvalue {lam!r}"
    if r.converged and not r.happy_breakdown:
        res = float(np.linalg.norm(hpsi - e * psi))
        case["_res_over"] = res / (case["rtol"] + 1e-10 * hn)
        if not res < case["rtol"] + 1e-10 * hn:
            return f"converged without breakdown but |H psi - E psi|={res:.3e} >= residual_tolerance={case['rtol']:.3e} (+1e-10|H|)"
        if not float(r.residual_norm) < case["rtol"]:
            return f"converged without breakdown but residual_norm={float(r.residual_norm):.3e} >= tolerance"
    return None


def oracle_public(case, kind, r):
    pk, st, e = run_public_with(case)
    if kind == "value":
        return None if pk == "raise value" else f"impl raised ValueError, wrapper: {pk}"
    want = "ret" if (r.converged or r.happy_breakdown) else "raise recursion"
    if pk != want:
        return f"impl converged={r.converged} happy_breakdown={r.happy_breakdown} but krylov_energy_minimization: {pk}"
    return None


def run_public_with(case):
    """the public wrapper has no max_restarts argument: run it with the default (100)"""
    return run_public(case)


def _ser(case):
    return dict(kind=case["kind"], n=case["n"], rtol=case["rtol"], ntol=case["ntol"], md=case["md"], mr=case["mr"],
                shape=list(case["shape"]), h_re=case["h"].real.tolist(), h_im=case["h"].imag.tolist(),
                v_re=case["v"].real.tolist(), v_im=case["v"].imag.tolist())


def _unser(d):
    return dict(kind=d["kind"], n=d["n"], rtol=d["rtol"], ntol=d["ntol"], md=d["md"], mr=d["mr"], shape=tuple(d["shape"]),
                h=np.array(d["h_re"]) + 1j * np.array(d["h_im"]), v=np.array(d["v_re"]) + 1j * np.array(d["v_im"]))


def _brief(case):
    return {k: v for k, v in _ser(case).items() if not k.startswith(("h_", "v_"))}


# ------------------------------------------------------------------ single-step correspondence
def step_lines(rng, n_cases):
    """`_ritz_vector` and `_next_lanczos_iteration` on arbitrary (unreachable) small states, dyadic
    inputs so that + - * are exact; the norm/division are compared to 4 ulp-ish (1e-14 relative)."""
    import emu_base.math.krylov_energy_min as kem
    lines, wants = [], []
    for _ in range(n_cases):
        dim = rng.randint(1, 4)
        k = rng.randint(1, 4)

        def dy():
            return rng.randint(-8, 8) / 4.0
        qs = [np.array([complex(dy(), dy()) for _ in range(dim)]) for _ in range(k)]
        if rng.random() < 0.5:
            y = [dy() for _ in range(k)]
            if rng.random() < 0.2:
                y = [0.0] * k
            try:
                with warnings.catch_warnings():
                    warnings.simplefilter("ignore")
                    out = kem._ritz_vector(torch.tensor(y, dtype=torch.float64), [torch.from_numpy(q) for q in qs])
                want = ("ok", out.numpy())
            except ValueError:
                want = ("err value", None)
            lines.append(" ".join(["kry.ritz", l1(f2b(x) for x in y), l2([[cx(z) for z in q] for q in qs])]))
            wants.append(("ritz", want, dict(y=y, qs=[[str(z) for z in q] for q in qs])))
        else:
            m = np.array([[complex(dy(), dy()) for _ in range(dim)] for _ in range(dim)])
            betas_full = [abs(dy()) for _ in range(6)]
            alphas = torch.zeros(6, dtype=torch.float64)
            betas = torch.tensor(betas_full, dtype=torch.float64)
            mt = torch.from_numpy(m)
            with warnings.catch_warnings():
                warnings.simplefilter("ignore")
                w = kem._next_lanczos_iteration(lambda x: mt @ x, [torch.from_numpy(q.copy()) for q in qs], alphas, betas)
            i = k - 1
            want = (float(alphas[i]), float(betas[i]), w.numpy())
            lines.append(" ".join(["kry.lanczos", mat_line(m), l2([[cx(z) for z in q] for q in qs]),
                                   l1(f2b(x) for x in betas_full[:i])]))
            wants.append(("lanczos", want, dict(m=[[str(z) for z in r] for r in m], qs=[[str(z) for z in q] for q in qs],
                                                betas=betas_full[:i])))
    return lines, wants


def compare_step(kind, want, reply):
    p = reply.split(" ")
    if kind == "ritz":
        if want[0] != "ok":
            return None if reply == want[0] else f"model={reply} real=ValueError"
        if p[0] != "ok":
            return f"model={reply} real returned"
        got = np.array([uncx(z) for z in p[1].split(",")])
        return None if np.abs(got - want[1]).max() <= 1e-14 * max(1.0, np.abs(want[1]).max()) else f"ritz vector {got} vs {want[1]}"
    a, b, w = want
    ma, mb = b2f(p[0]), b2f(p[1])
    mw = np.array([uncx(z) for z in p[2].split(",")])
    if ma != a:
        return f"alpha model={ma!r} real={a!r}"
    if not abs(mb - b) <= 1e-14 * max(abs(b), 1e-300):
        return f"beta model={mb!r} real={b!r}"
    if not np.array_equal(mw, w):
        return f"w model={mw} real={w}"
    return None


# ------------------------------------------------------------------ check
def check(rep: Report, tier: str, seed: int) -> None:
    rep.rule = ("cases = (Hermitian H, start vector, residual_tolerance, norm_tolerance, max_krylov_dim, max_restarts) from one "
                "PRNG; spectra: gapped, degenerate ground space, clustered (1e-9..1e-4 spacing), GUE, chain, integer diagonal, "
                "identity; |H| 1e-2..1e2, dim 1..128, residual_tolerance 1e-10..1e-3 |H|, max_krylov_dim 1..100, "
                "max_restarts 0..100, start vectors random / basis / inside an invariant subspace. Correspondence stream adds "
                "max_krylov_dim=0, zero start vector, extreme tolerances. non-trivial = at least 2 Lanczos iterations")
    rep.assumptions = [
        "torch.linalg.eigh contract (T y = theta y, |y| = 1, theta the smallest eigenvalue): validated on every recorded call "
        "to 1e-10 |T|",
        "exact arithmetic in the theorems: loss of orthogonality of the Lanczos vectors in binary64 degrades 'energy = Rayleigh "
        "quotient'; measured by the oracle on every run (allowance 1e-8 |H|)",
    ]
    # build + grep + `#print axioms` audit run concurrently with the Python side (joined before the driver is used)
    lean_thread = LeanStageThread(rep, PROP_MODULE, AUDIT, thorough=(tier == "thorough"))
    lean_thread.start()
    rng = seeded(seed * 7919 + 8)
    torch.manual_seed(seed)
    n_or = 170 if tier == "quick" else 2000
    n_co = 90 if tier == "quick" else 1000
    n_dense = 40 if tier == "quick" else 500
    lines, metas = [], []
    worst_ray, worst_res = 0.0, 0.0

    def add(case, dense=False):
        nonlocal worst_ray, worst_res
        try:
            kind, r, rec = run_impl(case)
        except Exception as e:
            rep.fail(f"real krylov_energy_minimization_impl raised {type(e).__name__}: {e}", _ser(case))
            return
        if case.get("in_class", True):
            msg = oracle(case, kind, r, rec)
            if msg is None and case["mr"] == 100:
                msg = oracle_public(case, kind, r)
            if msg:
                rep.fail(msg, _ser(case))
            worst_ray = max(worst_ray, case.get("_ray_gap", 0.0))
            worst_res = max(worst_res, case.get("_res_over", 0.0))
        cycles = parse_events(rec.events)
        if cycles is None:
            rep.broke("correspondence: the real run's kernel-call schedule is not (norm, [op, vdot, norm, eigh, norm]*)*: "
                      + json.dumps([e[0] for e in rec.events][:40]))
            return
        for c in cycles:                       # contract of the eigh oracle
            for t in c["its"]:
                arg, w, vv = t["eigh"]
                full = np.tril(arg) + np.tril(arg, -1).conj().T
                sc = max(float(np.abs(full).max()), 1e-300)
                y = vv[:, 0]
                if not (np.abs(full @ y - w[0] * y).max() <= 1e-10 * sc and abs(np.linalg.norm(y) - 1) <= 1e-10
                        and w[0] <= np.linalg.eigvalsh(full)[0] + 1e-10 * sc):
                    rep.count("eigh_contract_misses")
        its = sum(len(c["its"]) for c in cycles)
        rep.hist("spectrum", case["kind"])
        rep.hist("exit", kind if kind != "ok" else ("breakdown" if r.happy_breakdown else ("converged" if r.converged else "exhausted")))
        rep.hist("cycles", min(len(cycles), 10))
        rep.hist("iters_bucket", min(its // 10 * 10, 200))
        lines.append(tape_line("kry.emin", case, cycles))
        metas.append(("tape", case, kind, r, rec, cycles))
        if dense:
            lines.append(" ".join(["kry.emind", f2b(case["rtol"]), f2b(case["ntol"]), str(case["md"]), str(case["mr"]),
                                   mat_line(case["h"]), l1(cx(z) for z in case["v"]),
                                   l3([[[f2b(t["eigh"][1][0])] + [f2b(x) for x in t["eigh"][2][:, 0]] for t in c["its"]]
                                       for c in cycles])]))
            metas.append(("dense", case, kind, r, rec, cycles))

    for _ in range(n_or):
        add(gen_case(rng, tier))
    for _ in range(n_co):
        add(gen_corr_case(rng, tier))
    for _ in range(n_dense):
        c = gen_corr_case(rng, tier, small=True)
        c["shape"] = (c["n"],)
        add(c, dense=True)
    def add_pub(case):
        try:
            pk, st, e, rec = run_public_rec(case)
        except Exception as ex:
            rep.fail(f"real krylov_energy_minimization raised {type(ex).__name__}: {ex}", _ser(case))
            return
        cycles = parse_events(rec.events)
        if cycles is None:
            rep.broke("correspondence (public): kernel-call schedule not recognised: " + json.dumps([x[0] for x in rec.events][:40]))
            return
        msg = oracle_public_run(case, pk, st, e, cycles)
        if msg:
            rep.fail(msg, dict(_ser(case), public=True, positional=bool(case.get("positional"))))
        rep.hist("public_order", case["order"] + ("/positional" if case.get("positional") else "/keyword"))
        rep.hist("public_exit", pk)
        lines.append(pub_tape_line(case, cycles))
        name = None
        if pk == "ret":
            name = next((f"ritz:{ci}:{j}" for ci, c in enumerate(cycles) for j, t in enumerate(c["its"]) if t["ritz"] is st),
                        f"q:{len(cycles) - 1}")
        metas.append(("pub", case, pk, (e, name), rec, cycles))

    for _ in range(70 if tier == "quick" else 800):
        add_pub(gen_pub_case(rng, tier))
    rep.extra["worst_rayleigh_gap_over_normH"] = worst_ray
    rep.extra["worst_residual_over_threshold"] = worst_res
    slines, swants = step_lines(rng, 200 if tier == "quick" else 20000)

    import time as _t
    rep.extra["t_python_side_s"] = round(_t.time() - rep.t0, 1)
    lean_thread.finish()
    rep.extra["t_lean_stage_done_s"] = round(_t.time() - rep.t0, 1)
    try:
        replies = Driver().batch(lines + slines)
    except LeanError as e:
        rep.broke("driver: " + str(e)[-800:])
        replies = [None] * (len(lines) + len(slines))
    dis = 0
    for reply, (mode, case, kind, r, rec, cycles) in zip(replies, metas):
        if reply is None:
            continue
        its = sum(len(c["its"]) for c in cycles)
        if mode == "pub":
            pk, (e, name) = kind, r
            rep.case(key=("pub", case["n"], f2b(case["rtol"]), f2b(case["ntol"]), case["md"]), nontrivial=its >= 2)
            want = pk if pk != "ret" else f"ret {f2b(e)} {name}"
            got = reply
            if reply.startswith("ret "):
                p_ = reply.split(" ")
                got = f"ret {p_[1] if p_[1] in ('inf', 'nan') else p_[1]} {p_[2]}"
            if got != want:
                if near_tie(case, cycles):
                    rep.count("near_ties")
                    continue
                dis += 1
                if dis <= 5:
                    rep.broke(f"correspondence Model.Krylov.energyMinPublic vs krylov_energy_minimization (norm_tolerance={case['ntol']:.3e}, "
                              f"residual_tolerance={case['rtol']:.3e}, {'positional' if case.get('positional') else 'keyword'}): "
                              f"model={reply[:80]} real={want[:80]}; case=" + json.dumps(_brief(case)))
            continue
        key = (case["n"], f2b(case["rtol"]), case["md"], cx(cycles[0]["its"][0]["ov"]) if cycles and cycles[0]["its"] else "-")
        rep.case(key=key, nontrivial=its >= 2,
                 sample=dict(spectrum=case["kind"], n=case["n"], rtol=case["rtol"], md=case["md"], mr=case["mr"], iterations=its,
                             cycles=len(cycles)))
        m = parse_model(reply)
        if mode == "tape":
            msg = compare_tape(case, kind, r, rec, cycles, m)
            if msg and near_tie(case, cycles):
                rep.count("near_ties")
                continue
        else:
            msg = compare_dense(case, kind, r, rec, cycles, m, rep)
        if msg:
            dis += 1
            if dis <= 5:
                rep.broke(f"correspondence Model.Krylov.energyImpl ({mode}) vs krylov_energy_minimization_impl: {msg}; case="
                          + json.dumps(_brief(case)))
    sdis = 0
    for reply, (kind, want, info) in zip(replies[len(lines):], swants):
        if reply is None:
            continue
        rep.case(key=json.dumps(info), nontrivial=True, trace=True)
        msg = compare_step(kind, want, reply)
        if msg:
            sdis += 1
            if sdis <= 3:
                rep.broke(f"single-step correspondence {kind}: {msg}; input={json.dumps(info)}")
    rep.extra["correspondence_disagreements"] = dis
    rep.extra["single_step_cases"] = len(slines)
    rep.extra["single_step_disagreements"] = sdis
    if rep.broken and not rep.unknown_failing():
        search(rep, seed, 1200 if tier == "quick" else 20000, tier)


def compare_dense(case, kind, r, rec, cycles, m, rep):
    hn = max(float(np.linalg.norm(case["h"], 2)), 1e-300)
    # FIRST the screening: betas that are rounding noise, or decisions within 1e-6 of a threshold — the two binary64 runs
    # (torch / the model's own arithmetic) may part ways there in any way, including one of them raising ValueError
    # (Ritz vector of noise); such runs are counted, not judged.
    for c in cycles:
        for j, t in enumerate(c["its"]):
            resid = abs(t["beta"] * float(t["eigh"][2][j, 0]))
            if t["beta"] <= 1e-7 * hn or resid <= 1e-7 * hn:
                rep.count("dense_noise_skips")
                return None
            for x, thr in ((t["beta"], case["ntol"]), (resid, case["rtol"])):
                if abs(x - thr) <= 1e-6 * max(x, thr):
                    rep.count("near_ties")
                    return None
    if kind == "value":
        return None if m["status"] == "err value" else f"real: ValueError, model: {m['status']}"
    if m["status"] != "ok":
        return f"real returned, model: {m['status']}"
    if near_tie(case, cycles):
        rep.count("near_ties")
        return None
    nops = sum(1 for e in rec.events if e[0] == "op")
    real = (bool(r.converged), bool(r.happy_breakdown), int(r.iteration_count), int(r.restart_count), nops)
    mod = (m["conv"], m["hb"], m["iters"], m["restarts"], m["ops"])
    if real != mod:
        return f"flags/counts: model={mod} real={real}"
    if abs(m["energy"] - float(r.ground_energy)) > 1e-12 * hn and m["energy"] != float(r.ground_energy):
        return f"energy model={m['energy']!r} real={float(r.ground_energy)!r}"
    amp = max(1.0, hn / min([t["beta"] for c in cycles for t in c["its"]] + [hn]))
    got = r.ground_state.reshape(-1).numpy()
    st = m["state"]
    if st == "-" or len(st.split(",")) != len(got):
        return "state length"
    mv = np.array([uncx(z) for z in st.split(",")])
    if float(np.linalg.norm(mv - got)) > 1e-10 * amp:
        return f"ground state differs by {float(np.linalg.norm(mv - got)):.3e}"
    return None


def search(rep: Report, seed: int, n: int, tier: str) -> None:
    rng = seeded(seed * 104729 + 8)
    for i in range(n):
        case = gen_case(rng, "thorough" if i % 4 == 0 else tier)
        if i % 3 == 0:
            case["md"] = rng.randint(1, 8)
        try:
            kind, r, rec = run_impl(case)
        except Exception as e:
            rep.fail(f"real krylov_energy_minimization_impl raised {type(e).__name__}: {e}", _ser(case))
            return
        msg = oracle(case, kind, r, rec) or (oracle_public(case, kind, r) if case["mr"] == 100 else None)
        if msg:
            rep.fail(msg, _ser(case))
            return
        if i % 2 == 0:
            pc = gen_pub_case(rng, tier)
            pk, st, e, prec = run_public_rec(pc)
            msg = oracle_public_run(pc, pk, st, e, parse_events(prec.events) or [])
            if msg:
                rep.fail(msg, dict(_ser(pc), public=True, positional=bool(pc.get("positional"))))
                return
    rep.extra["search_cases"] = n


def _replay_one(d):
    case = _unser(d)
    if d.get("public"):
        case["positional"] = bool(d.get("positional"))
        pk, st, e, rec = run_public_rec(case)
        return oracle_public_run(case, pk, st, e, parse_events(rec.events) or [])
    kind, r, rec = run_impl(case)
    return oracle(case, kind, r, rec) or (oracle_public(case, kind, r) if case["mr"] == 100 else None)


def replay(rep: Report, path: str) -> int:
    data = json.load(open(path))
    bad = 0
    for f in data.get("failing_inputs", []):
        msg = _replay_one(f["data"])
        print("replay:", msg or "property holds on this input now")
        bad += bool(msg)
    return 1 if bad else 0
