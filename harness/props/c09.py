"""C09 — the DMRG solver finds the ground state (emu_mps/mps_backend_impl.py:DMRGBackendImpl,
emu_mps/solver_utils.py:minimize_energy_pair, emu_base/math/krylov_energy_min.py).

Lean: EmuVerif.Props.C09 — variational bound (abstract), the sweep/convergence machine
`Model.Dmrg` for every energy tape (positions, stacks, centre, convergence, per-step sweep
budget, raise), refinement call level -> sweep level. Correspondence: the real
`DMRGBackendImpl` (real tensors, `minimize_energy_pair` wrapped or its energy replaced by an
adversarial tape) and the real methods on a tensor-free stand-in object from arbitrary states,
event stream and object fields = the model's, exactly. Oracles on the real code: dense
`eigvalsh` ground energy, Rayleigh quotient of the returned state, norm, canonical form.
"""
from __future__ import annotations

import json
import math
import time
import warnings

from harness.common import Driver, LeanError, Report, f2b, lst, lean_stage, seeded

REGISTRY = dict(
    text=("Lean 4 theorems. (i) Variational bound: for a Hermitian H on a finite-dimensional complex inner-product "
          "space the Rayleigh quotient of any non-zero vector is >= the least eigenvalue (Mathlib Rayleigh) - so the "
          "energy of ANY normalised state the solver returns is >= the exact ground energy. (ii) The sweep machine of "
          "DMRGBackendImpl for EVERY sequence of local energies and every n>=2: a sweep minimises exactly at "
          "(0,->)..(n-3,->),(n-2,<-)..(1,<-) [(0,->),(0,<-) for 2 atoms]; before every call stacks are idx+1 / n-1-idx "
          "and the centre is on one of the two sites; only the RuntimeError can escape; call-level run = sweep-level "
          "run with that pattern inserted; converged <=> |e-previous_energy|<tol => step completes exactly once, in "
          "order, count reset, previous_energy cleared, state at centre 0; not converged => previous_energy updated; "
          "count+1>max_sweeps => raise; a step never runs more than max(max_sweeps,1) sweeps and the raise only happens "
          "after >= max_sweeps unconverged sweeps of that step; and - the theorem that applies to the current tree "
          "(repaired variant, /repo >= 3bcd9a6, detected by a probe on every run) - "
          "repaired_every_step_compares_its_own_sweeps: every step is accepted only after comparing two sweeps of its "
          "OWN Hamiltonian (for the as-found variant the kernel-checked counterexample stale_previous_energy_counterexample "
          "and the 5-atom witness apply instead: a tree matching it is reported as a VIOLATION). PARTIAL: 'reported "
          "energy = <psi|H|psi> of the normalised returned state' (C13), norm 1 and canonical form of the tensors (C10 "
          "contracts) are validated numerically, not proved; 'matches the ground energy within the tolerance for small "
          "gapped systems' (MatchesGroundEnergy) is NOT a theorem and is violated by two-site DMRG on weak drives (known "
          "finding D23: local minimum)."),
    note=("Trusted: Lean kernel + propext/Classical.choice/Quot.sound; Mathlib; hand-written Model.Dmrg tied to the code "
          "by exact event/field correspondence only; tensors, Lanczos, SVD, QR are outside the model (energies are an "
          "environment tape); numerical oracles use dense numpy eigvalsh with stated tolerances."),
    technique="Lean 4 proof (invariants, induction over the energy tape, refinement) + exact event-stream correspondence + dense-reference oracles",
    design_ref="DESIGN.md §5 C09",
)

PROP_MODULE = "EmuVerif.Props.C09"
AUDIT = "Audit/C09.lean"
C6 = 5420158.53
ENERGY_TOL = 1e-5           # DMRGBackendImpl default energy_tolerance
MATCH_FACTOR = 10.0         # "within the solver's energy tolerance": 10 x tol (+ rounding)
ROUND = 1e-8                # rounding allowance, relative to ||H||


# ------------------------------------------------------------------ physics helpers (independent of /repo)
def chain_U(n, a):
    import numpy as np
    U = np.zeros((n, n))
    for i in range(n):
        for j in range(n):
            if i != j:
                U[i, j] = C6 / abs((i - j) * a) ** 6
    return U


def dense_H(omega, delta, phi, U):
    """Rydberg Hamiltonian sum_i Om_i/2 (e^{-i phi_i}|g><r| + h.c.) - delta_i n_i + sum_{i<j} U_ij n_i n_j
    in the basis |g>=(1,0), |r>=(0,1), site 0 = most significant factor (the spectrum does not depend on phi:
    a local phase rotation removes it; the sign convention only matters for the Rayleigh-quotient check)."""
    import numpy as np
    n = len(omega)
    I2 = np.eye(2, dtype=complex)
    nn = np.diag([0.0, 1.0]).astype(complex)

    def op(o, i):
        m = np.array([[1.0 + 0j]])
        for k in range(n):
            m = np.kron(m, o if k == i else I2)
        return m

    H = np.zeros((2 ** n, 2 ** n), dtype=complex)
    ns = [op(nn, i) for i in range(n)]
    for i in range(n):
        sx = np.array([[0, np.exp(-1j * phi[i])], [np.exp(1j * phi[i]), 0]], dtype=complex)
        H += omega[i] / 2 * op(sx, i) - delta[i] * ns[i]
    for i in range(n):
        for j in range(i + 1, n):
            H += U[i, j] * ns[i] @ ns[j]
    return H


def dense_state(factors):
    import numpy as np
    v = factors[0].detach().cpu().numpy()
    v = v.reshape(-1, v.shape[-1])
    for f in factors[1:]:
        a = f.detach().cpu().numpy()
        v = (v @ a.reshape(a.shape[0], -1)).reshape(-1, a.shape[-1])
    return v.reshape(-1)


# ------------------------------------------------------------------ generators
def gen_physical(rng, tier, i):
    """A noiseless Rydberg sequence for the real solver."""
    import numpy as np
    big = tier == "thorough"
    n = rng.choice([2, 2, 3, 3, 4, 4, 5, 5, 6] + ([6, 7, 8] if big else []))
    a = rng.choice([5.0, 6.0, 7.0, 9.0])
    nsteps = rng.randint(1, 4)
    fam = rng.choice(["benign", "benign", "adiabatic", "generic", "repeat", "phase_only", "phase_only"])
    if fam in ("repeat", "phase_only"):
        nsteps = rng.randint(2, 4)
    om = np.zeros((nsteps, n))
    de = np.zeros((nsteps, n))
    ph = np.zeros((nsteps, n))
    if fam == "benign":
        for k in range(nsteps):
            om[k, :] = rng.uniform(2.0, 12.0)
            de[k, :] = rng.uniform(-15.0, 25.0)
            if rng.random() < 0.5:
                de[k, :] += np.array([rng.uniform(-1, 1) for _ in range(n)])
    elif fam == "adiabatic":
        omax, d0, d1 = rng.uniform(4.0, 12.0), rng.uniform(-20.0, -5.0), rng.uniform(5.0, 25.0)
        for k in range(nsteps):
            x = (k + 0.5) / nsteps
            om[k, :] = max(2.0, omax * math.sin(math.pi * x) ** 2)
            de[k, :] = d0 + (d1 - d0) * x
    elif fam == "repeat":        # control: constant drive incl. phase over several steps
        o, d = rng.uniform(2.0, 12.0), rng.uniform(-15.0, 25.0)
        om[:, :] = o
        de[:, :] = d
        ph[:, :] = rng.choice([0.0, rng.uniform(-3, 3)])
    elif fam == "phase_only":    # amplitude and detuning rows bit-identical from step to step, only the phase moves
        o, d = rng.uniform(2.0, 12.0), rng.uniform(-15.0, 25.0)
        om[:, :] = o
        de[:, :] = d
        if rng.random() < 0.4:
            de[:, :] += np.array([rng.uniform(-1, 1) for _ in range(n)])[None, :]
        mode = rng.choice(["global", "per_atom", "mixed"])
        for k in range(1, nsteps):
            if mode == "mixed" and rng.random() < 0.4:
                ph[k, :] = ph[k - 1, :]          # an unchanged step in between
            elif mode == "per_atom" or (mode == "mixed" and rng.random() < 0.5):
                ph[k, :] = np.array([rng.uniform(-3, 3) for _ in range(n)])
            else:
                ph[k, :] = ph[k - 1, 0] + rng.choice([math.pi / 2, math.pi, -1.0, rng.uniform(0.5, 3.0)])
    else:  # generic: weak or strong drives, local detunings — variational oracle only (two-site DMRG can stall)
        for k in range(nsteps):
            om[k, :] = rng.choice([0.05, 0.3, 1.0, rng.uniform(0.0, 12.0)])
            de[k, :] = np.array([rng.uniform(-20, 40) for _ in range(n)])
    if fam not in ("repeat", "phase_only") and rng.random() < 0.3:
        ph[:, :] = np.array([[rng.uniform(-3, 3) for _ in range(n)] for _ in range(nsteps)])
    dts = [rng.choice([10.0, 50.0, 100.0]) for _ in range(nsteps)]
    times = [0.0]
    for d in dts:
        times.append(times[-1] + d)
    r = rng.random() if fam not in ("repeat", "phase_only") else 1.0
    tol, ms = ENERGY_TOL, 2000
    if r < 0.15:
        tol = rng.choice([1e-3, 1e-8])
    elif r < 0.35:
        ms = rng.choice([1, 2, 2, 3])
    cfg = {}
    if fam == "generic" and rng.random() < 0.3:
        cfg["max_bond_dim"] = rng.choice([1, 2, 3])
    reorder = rng.random() < 0.15 and fam not in ("repeat", "phase_only")
    return dict(kind="physical", family=fam, n=n, a=a, omega=om.tolist(), delta=de.tolist(), phi=ph.tolist(),
                times=times, tol=tol, max_sweeps=ms, cfg=cfg, reorder=reorder, tape=None)


def gen_taped(rng, tier, i):
    """Real solver, real tensors, but the energy returned by `minimize_energy_pair` is replaced by an
    adversarial tape: never converging, converging immediately, oscillating, on a lattice that hits
    `abs(dE) < tol` at equality, with small sweep budgets."""
    import numpy as np
    n = rng.choice([2, 2, 3, 3, 4, 5] + ([6] if tier == "thorough" else []))
    nsteps = rng.randint(1, 4)
    om = np.full((nsteps, n), rng.uniform(2.0, 8.0))
    de = np.full((nsteps, n), rng.uniform(-5.0, 10.0))
    ph = np.zeros((nsteps, n))
    times = [float(10 * k) for k in range(nsteps + 1)]
    per = 2 if n <= 3 else 2 * (n - 2)
    mode = rng.choice(["never", "immediate", "oscillating", "lattice", "lattice", "random", "staircase"])
    tol = rng.choice([0.125, 0.25, 1e-5, 1.0])
    ms = rng.choice([0, 1, 2, 3, 4, 6, 2000])
    nsweeps = rng.randint(1, 14)
    ncalls = nsweeps * per - (rng.randint(0, per - 1) if rng.random() < 0.3 else 0)
    tape = []
    for c in range(ncalls):
        sw = c // per
        if mode == "never":
            tape.append(-float(c))
        elif mode == "immediate":
            tape.append(-1.5)
        elif mode == "oscillating":
            tape.append(1.0 if sw % 2 else -1.0)
        elif mode == "lattice":
            tape.append(rng.randint(-8, 8) / 8.0)
        elif mode == "staircase":      # converges every third sweep
            tape.append(-float(sw - (1 if sw % 3 == 2 else 0)))
        else:
            tape.append(rng.uniform(-2, 2))
    return dict(kind="taped", family=mode, n=n, a=7.0, omega=om.tolist(), delta=de.tolist(), phi=ph.tolist(),
                times=times, tol=tol, max_sweeps=ms, cfg={}, reorder=False, tape=tape)


# ------------------------------------------------------------------ driving the real code
class _TapeEnd(Exception):
    pass


def _dir(impl, M):
    return "L" if impl._swipe_direction == M.SwipeDirection.LEFT_TO_RIGHT else "R"


def snap(impl, M):
    c = impl.state.orthogonality_center
    return (_dir(impl, M), impl._sweep_index, len(impl.left_baths), len(impl.right_baths),
            -1 if c is None else int(c), impl.previous_energy, impl.current_energy, impl.sweep_count,
            impl._timestep_index, float(impl.current_time), float(impl.target_time))


def snap_str(s):
    o = lambda x: "-" if x is None else f2b(x)
    return " ".join([s[0], str(s[1]), str(s[2]), str(s[3]), str(s[4]), o(s[5]), o(s[6]), str(s[7]), str(s[8]),
                     f2b(s[9]), f2b(s[10])])


def drive(case):
    """Run the real `DMRGBackendImpl` on `case`. Returns a dict with the event stream, the energies consumed,
    per-call records (object before / energy / events / object after / exception), the reported energies and
    the states handed to `timestep_complete`."""
    import numpy as np
    import torch
    from unittest import mock
    from harness import compat
    compat.install()
    import emu_mps.mps_backend_impl as M
    from emu_mps.solver import Solver
    from pulser.backend import Energy, StateResult

    n = case["n"]
    U = chain_U(n, case["a"])
    times = case["times"]
    data = compat.make_sequence_data(np.array(case["omega"]), np.array(case["delta"]), np.array(case["phi"]), U, times)
    ev_times = [t / times[-1] for t in times]
    config = compat.mps_config(solver=Solver.DMRG, observables=[Energy(evaluation_times=ev_times), StateResult(evaluation_times=ev_times)],
                               optimize_qubit_ordering=bool(case.get("reorder")), **case.get("cfg", {}))
    impl = M.DMRGBackendImpl(config, data, energy_tolerance=case["tol"], max_sweeps=case["max_sweeps"])
    impl.init()
    out = dict(events=[], energies=[], calls=[], completed=[], halt="ok", exc=None, init=snap(impl, M),
               target_times=[float(t) for t in impl.target_times], steps=int(impl.timestep_count))
    cur = []
    tape = case.get("tape")
    real_min = M.minimize_energy_pair

    def wrapped(**kw):
        if tape is not None and len(out["energies"]) >= len(tape):
            raise _TapeEnd()
        l, r, e = real_min(**kw)
        if tape is not None:
            e = tape[len(out["energies"])]
        e = float(e)
        out["energies"].append(e)
        cur.append(f"m{impl._sweep_index}:{int(bool(kw['orth_center_right']))}")
        return l, r, e

    orig_sc = impl.sweep_complete
    base_tc = M.MPSBackendImpl.timestep_complete

    def sc():
        cur.append("s%d" % int(bool(impl.convergence_check(impl.energy_tolerance))))
        orig_sc()

    def tc(self_):
        # patched on the BASE class: every completion is seen, also one made through super() by an override
        cur.append(f"d{self_._timestep_index}")
        st = self_.state
        out["completed"].append(dict(k=int(self_._timestep_index), centre=st.orthogonality_center,
                                     factors=[f.detach().clone() for f in st.factors]))
        base_tc(self_)

    impl.sweep_complete = sc
    guard = 0
    with mock.patch.object(M, "minimize_energy_pair", wrapped), \
            mock.patch.object(M.MPSBackendImpl, "timestep_complete", tc), warnings.catch_warnings():
        warnings.simplefilter("ignore")
        while not impl.is_finished():
            guard += 1
            if guard > 30000:
                out["halt"] = "guard"
                break
            before = snap(impl, M)
            del cur[:]
            halt = "ok"
            try:
                impl.progress()
            except _TapeEnd:
                break
            except RuntimeError as e:
                if "DMRG did not converge" in str(e):
                    cur.append("R")
                    halt = "RuntimeError"
                else:
                    halt, out["exc"] = "other", repr(e)
            except IndexError as e:
                halt, out["exc"] = "IndexError", repr(e)
            except AssertionError as e:
                halt, out["exc"] = "AssertionError", repr(e)
            except Exception as e:  # noqa: BLE001 — anything else escaping the real code is a finding candidate
                halt, out["exc"] = "other", repr(e)
            out["events"].extend(cur)
            out["calls"].append((before, out["energies"][-1] if cur else None, list(cur), snap(impl, M), halt))
            if halt != "ok":
                out["halt"] = halt
                break
    out["final"] = snap(impl, M)
    out["finished"] = bool(impl.is_finished())
    try:
        out["reported"] = [float(x) for x in impl.results.energy]
        out["reported_times"] = list(impl.results.get_result_times("energy"))
    except Exception:  # noqa: BLE001 — no energy recorded (cannot happen: t=0 is always an evaluation time)
        out["reported"], out["reported_times"] = [], []
    try:
        out["returned_states"] = [dict(centre=m.orthogonality_center, factors=[f.detach().clone() for f in m.factors])
                                  for m in impl.results.state]
    except Exception:  # noqa: BLE001
        out["returned_states"] = []
    out["impl_rows"] = (impl.omega.real.numpy().copy(), impl.delta.real.numpy().copy(), impl.phi.real.numpy().copy())
    out["final_state"] = dict(centre=impl.state.orthogonality_center,
                              factors=[f.detach().clone() for f in impl.state.factors])
    return out


VARIANT = "1"   # "0" = code as found (previous_energy survives a completed step), "1" = repaired; set by probe_variant()


def cfg_words(n, steps, tol, ms, times):
    return [VARIANT, str(n), str(steps), f2b(tol), str(ms), lst(f2b(t) for t in times)]


def probe_variant():
    """Which model variant does the code match? One converged `sweep_complete` of the real method on the
    stand-in object: is `previous_energy` cleared afterwards?"""
    global VARIANT
    st = dict(n=2, steps=2, times=[0.0, 5.0, 10.0], tol=1.0, ms=5, dir="R", idx=0, left=1, right=1, centre=1,
              prev=0.5, cur=None, sc=1, ts=0, curT=0.0, tgtT=5.0, e=0.5)
    io = run_fake(st).split(" ")
    VARIANT = "1" if (io[0] == "ok" and io[1].endswith("s1,d0") and io[7] == "-") else "0"
    return VARIANT


def run_line(case, out):
    return " ".join(["dmrg.run"] + cfg_words(case["n"], out["steps"], case["tol"], case["max_sweeps"], out["target_times"])
                    + [lst(f2b(e) for e in out["energies"])])


def run_expect(out):
    return " ".join([out["halt"], lst(out["events"]), snap_str(out["final"]), "1" if out["finished"] else "0"])


def step_line(cfgw, before, e):
    return " ".join(["dmrg.step"] + cfgw + [snap_str(before), f2b(e)])


# ------------------------------------------------------------------ numerical oracles on one real run
def check_canonical(tag, st, n, norm_tol=1e-8):
    """centre 0, norm 1 (to `norm_tol`), every factor right of site 0 right-orthonormal (1e-8)."""
    import torch
    fs = st["factors"]
    if st["centre"] != 0:
        return f"{tag}: orthogonality_center is {st['centre']!r}, not 0"
    nrm = float(torch.linalg.norm(fs[0]))
    if abs(nrm - 1.0) > norm_tol:
        return f"{tag}: norm of the centre factor is {nrm!r} (state not normalised)"
    for i in range(1, len(fs)):
        a = fs[i].reshape(fs[i].shape[0], -1)
        g = a @ a.conj().T
        err = float(torch.linalg.norm(g - torch.eye(g.shape[0], dtype=g.dtype)))
        if err > 1e-8:
            return f"{tag}: factor {i} is not right-orthonormal w.r.t. centre 0 (|A A^+ - 1| = {err:.3e})"
    if n <= 8:
        import numpy as np
        v = dense_state(fs)
        d = abs(float(np.vdot(v, v).real) - 1.0)
        if d > 2 * norm_tol:
            return f"{tag}: |<psi|psi> - 1| = {d:.3e}"
    return None


def oracle(case, out, rep=None):
    """Clause by clause on the real run (stubbed-energy runs: canonical form only). Returns a list of
    (message, klass) — empty when the property holds on this run."""
    import numpy as np
    bad = []
    n = case["n"]
    if out["halt"] in ("IndexError", "AssertionError", "other", "guard"):
        bad.append((f"real DMRGBackendImpl raised {out['halt']}: {out['exc']}", None))
        return bad
    # the solver's own state: canonical exactly; its norm is 1 up to the weight discarded by the last truncation
    # (<= precision^2 by default; a max_bond_dim cap may discard more — the returned copy below is renormalised)
    ntol = 1e-8 if not case.get("cfg") else 1e-2
    for c in out["completed"]:
        msg = check_canonical(f"state handed to timestep_complete(step {c['k']})", c, n, ntol)
        if msg:
            bad.append((msg, None))
            break
    if out["finished"]:
        msg = check_canonical("solver state at the end", out["final_state"], n, ntol)
        if msg:
            bad.append((msg, None))
    # what the user gets (StateResult): normalised and canonical to 1e-8, always
    for j, st in enumerate(out["returned_states"]):
        msg = check_canonical(f"state returned at evaluation time #{j}", st, n)
        if msg:
            bad.append((msg, None))
            break
    if case.get("tape") is not None:
        return bad
    U = chain_U(n, case["a"])
    om, de, ph = np.array(case["omega"]), np.array(case["delta"]), np.array(case["phi"])
    rep_E, rep_t = out["reported"], out["reported_times"]
    T = case["times"][-1]
    for j, (t, E) in enumerate(zip(rep_t, rep_E)):
        k = 0 if j == 0 else j - 1          # fill_results runs before _timestep_index += 1 / update_H
        H = dense_H(om[k], de[k], ph[k], U)
        w = np.linalg.eigvalsh(H)
        E0, gap, nrm = float(w[0]), float(w[1] - w[0]), max(1.0, float(max(abs(w[0]), abs(w[-1]))))
        if abs(t * T - case["times"][j]) > 1e-6:
            bad.append((f"energy #{j} recorded at t={t * T!r}, expected evaluation time {case['times'][j]!r}", None))
        if not (E >= E0 - ROUND * nrm):
            bad.append((f"reported energy {E!r} at t={case['times'][j]} is below the exact ground energy {E0!r} of step {k} "
                        f"(by {E0 - E:.3e} > {ROUND * nrm:.1e})", None))
        if j >= 1 and not case.get("reorder"):
            comp = next((c for c in out["completed"] if c["k"] == k), None)
            if comp is not None and n <= 8:
                v = dense_state(comp["factors"])
                ray = float((np.vdot(v, H @ v) / np.vdot(v, v)).real)
                if rep is not None:
                    rep.extra["max_rayleigh_dev"] = max(rep.extra.get("max_rayleigh_dev", 0.0), abs(ray - E) / nrm)
                if abs(ray - E) > 1e-9 * nrm:
                    bad.append((f"reported energy {E!r} is not <psi|H_k|psi>/<psi|psi> = {ray!r} of the returned state "
                                f"(step {k}, dense Hamiltonian of drive row {k})", None))
        if (j >= 1 and case["family"] in ("benign", "adiabatic", "repeat", "phase_only") and case["tol"] == ENERGY_TOL
                and case["max_sweeps"] >= 2000 and not case.get("cfg")):
            if gap >= 0.05:
                dev = abs(E - E0)
                if rep is not None:
                    rep.extra["max_match_dev"] = max(rep.extra.get("max_match_dev", 0.0), dev)
                    rep.count("match_checked")
                if dev > MATCH_FACTOR * ENERGY_TOL + ROUND * nrm:
                    bad.append((f"small gapped system (n={n}, gap {gap:.3f}): reported energy {E!r} differs from the ground "
                                f"energy {E0!r} of step {k} by {dev:.3e} > {MATCH_FACTOR:g} x energy_tolerance", None))
            elif rep is not None:
                rep.count("match_skipped_small_gap")
    return bad


# ------------------------------------------------------------------ the two known findings (exact witnesses)
STALE = dict(kind="physical", family="witness", n=5, a=5.0, tol=ENERGY_TOL, max_sweeps=2000, cfg={}, reorder=False, tape=None,
             omega=[[0.05] * 5, [0.05] * 5],
             delta=[[12.637931442260744, -11.062068557739257, 0.6379314422607418, 9.237931442260741, -4.862068557739258],
                    [21.4, 21.8, -19.7, -17.7, -11.1]],
             phi=[[0.0] * 5, [0.0] * 5], times=[0.0, 100.0, 200.0])
LOCALMIN = dict(kind="physical", family="witness", n=3, a=7.0, tol=ENERGY_TOL, max_sweeps=2000, cfg={}, reorder=False, tape=None,
                omega=[[0.05] * 3], delta=[[30.0, 38.0, 30.0]], phi=[[0.0] * 3], times=[0.0, 100.0])


def _errors(case, out):
    import numpy as np
    U = chain_U(case["n"], case["a"])
    res = []
    for j in range(1, len(out["reported"])):
        w = np.linalg.eigvalsh(dense_H(case["omega"][j - 1], case["delta"][j - 1], case["phi"][j - 1], U))
        res.append((out["reported"][j] - float(w[0]), float(w[1] - w[0])))
    return res


def sweeps_per_step(events):
    res, c = [], 0
    for e in events:
        if e.startswith("s"):
            c += 1
        elif e.startswith("d"):
            res.append(c)
            c = 0
    return res


def stale_witness():
    """The 5-atom witness of D19b (fixed in 3bcd9a6) on the real code: (message, data) if step 1 is accepted after a
    single sweep far above its ground energy while clearing previous_energy at the boundary would have converged."""
    from unittest import mock
    import emu_mps.mps_backend_impl as M
    out = drive(STALE)
    errs, sps = _errors(STALE, out), sweeps_per_step(out["events"])
    if not (out["finished"] and len(errs) == 2 and sps[1] == 1 and errs[1][0] > 100 * ENERGY_TOL and errs[1][1] > 0.05):
        return None
    orig = M.DMRGBackendImpl.timestep_complete

    def tc(self):
        orig(self)
        self.previous_energy = None
    with mock.patch.object(M.DMRGBackendImpl, "timestep_complete", tc):
        out2 = drive(STALE)
    errs2 = _errors(STALE, out2)
    if not (len(errs2) == 2 and abs(errs2[1][0]) < MATCH_FACTOR * ENERGY_TOL):
        return None
    return ("step 1 accepted after ONE sweep because its energy is within 1e-5 of the stale previous_energy of step 0: "
            f"reported {out['reported'][2]!r}, ground energy {out['reported'][2] - errs[1][0]!r} (off by {errs[1][0]:.4f}, "
            f"gap {errs[1][1]:.4f}); with previous_energy cleared at the step boundary the same step takes "
            f"{sweeps_per_step(out2['events'])[1]} sweeps and ends {errs2[1][0]:.2e} above the ground energy",
            dict(case=STALE, witness="stale", sweeps_per_step=sps, errors=errs, errors_if_cleared=errs2))


def known_findings(rep):
    """Replay the two witnesses on the real code; report only what reproduces."""
    w = stale_witness()
    if w is not None:
        rep.fail(w[0], w[1], klass="dmrg-stale-previous-energy")
    out = drive(LOCALMIN)
    errs = _errors(LOCALMIN, out)
    if out["finished"] and len(errs) == 1 and errs[0][0] > 100 * ENERGY_TOL and errs[0][1] > 0.05:
        rep.fail(f"3 atoms, gap {errs[0][1]:.3f}: the converged solver returns energy {out['reported'][1]!r}, "
                 f"{errs[0][0]:.4f} above the ground energy (two-site updates cannot leave |g r g> for |r g r>)",
                 dict(case=LOCALMIN, sweeps_per_step=sweeps_per_step(out["events"]), errors=errs), klass="dmrg-local-minimum")


# ------------------------------------------------------------------ tensor-free stand-in: the real methods from arbitrary states
def gen_fake(rng):
    n = rng.randint(2, 7)
    steps = rng.randint(1, 4)
    times = [float(5 * k) for k in range(steps + 1)]
    if rng.random() < 0.1:
        times = times[:rng.randint(2, len(times))]       # too short: IndexError in timestep_complete
    reachable = rng.random() < 0.5
    idx = rng.randint(0, max(n - 2, 0)) if reachable else rng.randint(0, n + 1)
    d = rng.choice("LR")
    if reachable:
        left, right = idx + 1, n - 1 - idx
        if n >= 3 and d == "L" and idx > n - 3:
            d = "R"
        if n >= 3 and d == "R" and idx == 0:
            d = "L"
        centre = idx if d == "L" else rng.choice([idx, idx + 1])
    else:
        left, right, centre = rng.randint(0, n), rng.randint(0, n), rng.randint(0, n - 1)
    lat = lambda: rng.randint(-8, 8) / 8.0
    prev = rng.choice([None, lat(), lat()])
    cur = rng.choice([None, lat()])
    return dict(n=n, steps=steps, times=times, tol=rng.choice([0.125, 0.25, 0.0, 1e-5, 1.0]), ms=rng.randint(0, 5),
                dir=d, idx=idx, left=left, right=right, centre=centre, prev=prev, cur=cur,
                sc=rng.randint(0, 5), ts=rng.randint(0, steps if rng.random() < 0.1 else steps - 1),
                curT=float(rng.randint(0, 20)), tgtT=float(rng.randint(0, 20)), e=lat(), same_rows=rng.random() < 0.4)


def run_fake(st):
    """The real `progress`, `_left_to_right_update`, `_right_to_left_update`, `sweep_complete`,
    `convergence_check`, `timestep_complete`, `is_finished` on an object without tensors."""
    import torch
    from unittest import mock
    from harness import compat
    compat.install()
    import emu_mps.mps_backend_impl as M

    n = st["n"]
    t1 = torch.zeros(1)

    class FakeState:
        def __init__(self):
            self.factors = [torch.zeros(1, 2, 1) for _ in range(n)]
            self.orthogonality_center = st["centre"]

        def orthogonalize(self, c=0):
            assert 0 <= c < n
            self.orthogonality_center = c
            return c

    class FakeH:
        factors = [torch.zeros(1, 2, 2, 1) for _ in range(n)]

    class Cfg:
        precision = 1e-5

    events = []
    impl = object.__new__(M.DMRGBackendImpl)
    impl.qubit_count, impl.timestep_count = n, st["steps"]
    impl.target_times = list(st["times"])
    impl._timestep_index, impl._sweep_index = st["ts"], st["idx"]
    impl._swipe_direction = M.SwipeDirection.LEFT_TO_RIGHT if st["dir"] == "L" else M.SwipeDirection.RIGHT_TO_LEFT
    impl.left_baths, impl.right_baths = [t1] * st["left"], [t1] * st["right"]
    impl.state, impl.hamiltonian, impl.config = FakeState(), FakeH(), Cfg()
    impl.previous_energy, impl.current_energy = st["prev"], st["cur"]
    impl.sweep_count, impl.energy_tolerance, impl.max_sweeps = st["sc"], st["tol"], st["ms"]
    impl.current_time, impl.target_time = st["curT"], st["tgtT"]
    impl.current_interaction_matrix = torch.zeros(n, n)
    impl.save_simulation = lambda: None
    impl.fill_results = lambda: None
    impl._get_interaction_matrix = lambda: torch.zeros(n, n)
    impl.update_H = lambda: None
    impl.time, impl.results = time.time(), None

    class Stats:
        data = []

        def __call__(self, *a, **k):
            return None
    impl.statistics = Stats()

    def init_baths():
        impl.left_baths, impl.right_baths = [t1], [t1] * (n - 1)
    impl.init_baths = init_baths
    # drive rows as a real object has them: all rows distinct unless the case asks for repeated amplitude/detuning rows
    rows = torch.arange(st["steps"], dtype=torch.float64).reshape(-1, 1) * (0.0 if st.get("same_rows") else 1.0)
    impl.omega = (rows + 1.0).repeat(1, n).to(torch.complex128)
    impl.delta = (rows - 2.0).repeat(1, n).to(torch.complex128)
    impl.phi = torch.arange(st["steps"], dtype=torch.float64).reshape(-1, 1).repeat(1, n).to(torch.complex128)
    impl.pulser_data, impl.well_prepared_qubits_filter = None, None
    impl.has_lindblad_noise, impl.dim = False, 2
    orig_sc = impl.sweep_complete
    base_tc = M.MPSBackendImpl.timestep_complete

    def sc():
        events.append("s%d" % int(bool(impl.convergence_check(impl.energy_tolerance))))
        orig_sc()

    def tc(self_):
        events.append(f"d{self_._timestep_index}")
        base_tc(self_)
    impl.sweep_complete = sc

    def fake_min(**kw):
        events.append(f"m{impl._sweep_index}:{int(bool(kw['orth_center_right']))}")
        return torch.zeros(1, 2, 1), torch.zeros(1, 2, 1), st["e"]

    if impl.is_finished():
        return "finished"
    halt = "ok"
    with mock.patch.object(M, "minimize_energy_pair", fake_min), \
            mock.patch.object(M.MPSBackendImpl, "timestep_complete", tc), \
            mock.patch.object(M, "new_left_bath", lambda *a, **k: t1), \
            mock.patch.object(M, "new_right_bath", lambda *a, **k: t1):
        try:
            impl.progress()
        except RuntimeError as e:
            if "DMRG did not converge" not in str(e):
                raise
            events.append("R")
            halt = "RuntimeError"
        except IndexError:
            halt = "IndexError"
        except AssertionError:
            halt = "AssertionError"
    return halt + " " + lst(events) + ((" " + snap_str(snap(impl, M))) if halt == "ok" else "")


def fake_line(st):
    before = (st["dir"], st["idx"], st["left"], st["right"], st["centre"], st["prev"], st["cur"], st["sc"], st["ts"],
              st["curT"], st["tgtT"])
    return step_line(cfg_words(st["n"], st["steps"], st["tol"], st["ms"], st["times"]), before, st["e"])


def cmp_step(model, impl):
    """`halt events state`: the state is compared only when no exception escaped."""
    if model == impl:
        return True
    m, i = model.split(" "), impl.split(" ")
    return m[0] != "ok" and m[0] == i[0] and m[1] == i[1]


# ------------------------------------------------------------------ check
def _ser(case):
    return {k: v for k, v in case.items()}


def check(rep: Report, tier: str, seed: int) -> None:
    rep.rule = ("cases = noiseless Rydberg chains (2-6 atoms quick, 2-8 thorough; 1-4 time steps; families benign/adiabatic/"
                "repeat(constant incl. phase)/phase_only(same amplitude+detuning rows, global or per-atom phase change)/generic drives; energy_tolerance 1e-5/1e-3/1e-8; max_sweeps 2000 or 1-3; bond caps) run by the real "
                "DMRGBackendImpl with minimize_energy_pair wrapped, the same with its energy replaced by adversarial tapes "
                "(never/immediately converging, oscillating, lattice ties, truncated), and single progress() calls of the "
                "real methods on a tensor-free stand-in from arbitrary states. non-trivial = at least one full sweep; "
                "distinct = distinct (n, config, energy tape) bit patterns")
    rep.assumptions = [
        "reported energy = <psi|H|psi> of the normalised returned state w.r.t. the step's Hamiltonian (observable definition, C13; "
        "MPO = dense H, C05): validated numerically against an independent dense Hamiltonian, not proved here",
        "norm 1 and canonical form of the tensors rest on the qr/eigh contracts of orthogonalize/split_matrix (C10): validated numerically",
        "MatchesGroundEnergy (|E-E0| <= 10 x energy_tolerance for small gapped systems) is not a theorem; validated on benign/adiabatic "
        "uniform drives (Omega >= 2 rad/us) only; violated by the code elsewhere (known findings)",
        "binary64 rounding is outside the theorems; the machine only compares abs(e - previous) < tol, reproduced bit-exactly by the model at Float",
    ]
    tl = time.time()
    lean_stage(rep, PROP_MODULE, AUDIT, thorough=(tier == "thorough"))
    rep.extra["t_lean_stage"] = round(time.time() - tl, 1)
    rng = seeded(seed * 7919 + 9)
    quick = tier == "quick"
    tl = time.time()
    from harness import compat
    compat.install()
    import emu_mps.mps_backend_impl  # noqa: F401 — pay the torch/pulser import before the budget clock starts
    rep.extra["t_import"] = round(time.time() - tl, 1)
    global VARIANT
    try:
        probe_variant()
    except Exception as e:  # noqa: BLE001 — the real sweep_complete/timestep_complete misbehaving on the stand-in object
        VARIANT = "1"
        rep.fail(f"real DMRGBackendImpl.progress raised {type(e).__name__}: {e} on the stand-in object (variant probe)", dict(probe=True))
    rep.extra["model_variant"] = {"0": "asFound (previous_energy kept across steps)",
                                  "1": "repaired (previous_energy cleared on convergence)"}[VARIANT]
    if VARIANT == "0":
        rep.broke("DMRGBackendImpl.sweep_complete matches the asFound variant (previous_energy survives a completed step): "
                  "repaired_every_step_compares_its_own_sweeps does not apply, stale_previous_energy_counterexample does")
    t0 = time.time()
    budget = 25.0 if quick else 600.0
    n_phys, n_tape = (14, 40) if quick else (150, 400)
    lines, expect, meta = [], [], []

    # sweep position pattern for every n
    for n in range(2, 10):
        lines.append(f"dmrg.positions {n}")
        per = [f"m{i}:1" for i in range(max(n - 2, 1))] + ([f"m{i}:0" for i in range(n - 2, 0, -1)] if n >= 3 else ["m0:0"])
        expect.append(lst(per))
        meta.append(("positions", n, None))

    cases = [gen_taped(rng, tier, i) for i in range(n_tape)] + [gen_physical(rng, tier, i) for i in range(n_phys)]
    done = 0
    for case in cases:
        if time.time() - t0 > budget and done >= 20:
            rep.count("cases_skipped_for_time")
            continue
        try:
            out = drive(case)
        except Exception as e:  # noqa: BLE001 — construction/driver problems in the real code are finding candidates
            rep.fail(f"real DMRG run raised {type(e).__name__}: {e}", _ser(case))
            continue
        done += 1
        rep.hist("kind", case["kind"] + "/" + case["family"])
        rep.hist("n", case["n"])
        rep.hist("halt", out["halt"])
        rep.hist("sweeps_per_step", ",".join(map(str, sweeps_per_step(out["events"])[:4])) or "-")
        for msg, klass in oracle(case, out, rep) + machine_oracle(case, out):
            rep.fail(msg, dict(case=_ser(case), events=out["events"][-12:], reported=out["reported"]), klass=klass)
        lines.append(run_line(case, out))
        expect.append(run_expect(out))
        meta.append(("run", case, out))
        cfgw = cfg_words(case["n"], out["steps"], case["tol"], case["max_sweeps"], out["target_times"])
        for before, e, evs, after, halt in out["calls"]:
            if e is None:
                continue
            lines.append(step_line(cfgw, before, e))
            expect.append(halt + " " + lst(evs) + ((" " + snap_str(after)) if halt == "ok" else ""))
            meta.append(("call", case, None))
        # the sweep pattern of the real run against sweepPositions
        per = 2 if case["n"] <= 3 else 2 * (case["n"] - 2)
        mins = [e for e in out["events"] if e.startswith("m")]
        rep.case(key=(case["n"], case["tol"], case["max_sweeps"], tuple(f2b(e) for e in out["energies"])),
                 nontrivial=len(mins) >= per,
                 sample=dict(kind=case["kind"], family=case["family"], n=case["n"], steps=out["steps"], calls=len(mins),
                             halt=out["halt"], sweeps_per_step=sweeps_per_step(out["events"])[:4]))
    rep.extra["t_real_runs"] = round(time.time() - t0, 1)
    tl = time.time()
    n_fake = 2000 if quick else 60000
    for _ in range(n_fake):
        st = gen_fake(rng)
        try:
            io = run_fake(st)
        except Exception as e:  # noqa: BLE001
            rep.fail(f"real DMRGBackendImpl.progress raised {type(e).__name__}: {e} from a stand-in object", dict(state=st))
            continue
        lines.append(fake_line(st))
        expect.append(io)
        meta.append(("fake", st, None))
        rep.hist("fake_outcome", io.split(" ")[0])
    rep.extra["t_fake"] = round(time.time() - tl, 1)
    tl = time.time()
    try:
        model = Driver().batch(lines)
    except LeanError as e:
        rep.broke("driver: " + str(e)[-800:])
        model = [None] * len(lines)
    rep.extra["t_driver"] = round(time.time() - tl, 1)
    dis = {}
    for l, m, x, (kind, a, b) in zip(lines, model, expect, meta):
        if kind in ("call", "fake"):
            rep.case(key=l, nontrivial=True, trace=True)
        if m is None:
            continue
        ok = (m == x) if kind in ("positions", "run") else cmp_step(m, x)
        if kind == "run" and not ok:
            mm, xx = m.split(" "), x.split(" ")
            ok = mm[0] != "ok" and mm[:2] == xx[:2] and mm[-1] == xx[-1]   # after an exception only halt/events/finished
        if not ok:
            dis[kind] = dis.get(kind, 0) + 1
            if dis[kind] <= 3:
                rep.broke(f"correspondence Model.Dmrg vs DMRGBackendImpl ({kind}): line={l[:300]} model={m[:300]} impl={x[:300]}")
    rep.extra["correspondence_disagreements"] = dis
    rep.extra["driver_lines"] = len(lines)
    rep.extra["real_runs"] = done
    tl = time.time()
    known_findings(rep)
    rep.extra["t_known_findings"] = round(time.time() - tl, 1)
    if rep.broken and not [f for f in rep.failing if f["class"] != "dmrg-local-minimum"]:
        search(rep, seed, 40 if quick else 400, tier)


def search(rep: Report, seed: int, n: int, tier: str) -> None:
    """Failing-input search on the real code only: the clauses of C09 as executable oracles (dense ground
    energy, Rayleigh quotient, norm, canonical form, per-step sweep budget, convergence only after a
    sweep within the tolerance of previous_energy) over physical and taped runs."""
    rng = seeded(seed * 104729 + 9)
    t0 = time.time()
    for i in range(n):
        if time.time() - t0 > (40 if tier == "quick" else 600):
            break
        case = gen_taped(rng, tier, i) if i % 3 else gen_physical(rng, tier, i)
        try:
            out = drive(case)
        except Exception as e:  # noqa: BLE001
            rep.fail(f"real DMRG run raised {type(e).__name__}: {e}", _ser(case))
            return
        msgs = oracle(case, out)
        msgs += machine_oracle(case, out)
        if msgs:
            rep.fail(msgs[0][0], dict(case=_ser(case), events=out["events"][-12:], reported=out["reported"]), klass=msgs[0][1])
            return
    rep.extra["search_cases"] = n


def machine_oracle(case, out):
    """The machine-level clauses stated directly on the recorded run (no model involved)."""
    bad = []
    n, per = case["n"], (2 if case["n"] <= 3 else 2 * (case["n"] - 2))
    want = [f"m{i}:1" for i in range(max(n - 2, 1))] + ([f"m{i}:0" for i in range(n - 2, 0, -1)] if n >= 3 else ["m0:0"])
    evs = out["events"]
    mins = [e for e in evs if e.startswith("m")]
    for s in range(0, len(mins) - per + 1, per):
        if mins[s:s + per] != want:
            bad.append((f"sweep {s // per} visits {mins[s:s + per]} instead of {want}", None))
            break
    ms = case["max_sweeps"]
    for k, c in enumerate(sweeps_per_step(evs)):
        if c > max(ms, 1):
            bad.append((f"a step ran {c} sweeps with max_sweeps={ms}", None))
        if c < 2 and (VARIANT == "1" or k == 0):
            bad.append((f"time step {k} was completed after {c} sweep(s): its energy was never compared with another sweep of "
                        f"the same step (sweeps per step: {sweeps_per_step(evs)})", None))
            break
    done = [int(e[1:]) for e in evs if e.startswith("d")]
    if done != list(range(len(done))):
        bad.append((f"time steps completed out of order or twice: {done}", None))
    prev, k = None, -1
    for i, e in enumerate(evs):
        if e.startswith("m"):
            k += 1
        elif e.startswith("s"):
            en = out["energies"][k]
            conv = prev is not None and abs(en - prev) < case["tol"]
            if conv != (e == "s1"):
                bad.append((f"sweep ending at call {k}: convergence flag {e} but |e-previous|={None if prev is None else abs(en - prev)!r}, tol={case['tol']}", None))
                break
            if not conv:
                prev = en
            elif VARIANT == "1":
                prev = None          # repaired code: previous_energy = None when the step converges
            if conv != (i + 1 < len(evs) and evs[i + 1].startswith("d")):
                bad.append((f"converged sweep not followed by step completion (or vice versa) at event {i}", None))
                break
    if "R" in evs:
        tail = sweeps_per_step(evs + ["d"])[-1]
        if tail < ms:
            bad.append((f"RuntimeError after {tail} sweeps of the step with max_sweeps={ms}", None))
    return bad


def replay(rep: Report, path: str) -> int:
    data = json.load(open(path))
    bad = 0
    try:
        probe_variant()
    except Exception:  # noqa: BLE001
        pass
    for f in data.get("failing_inputs", []):
        d = f["data"]
        if d.get("probe"):
            try:
                probe_variant()
                print("replay: the variant probe runs now")
            except Exception as e:  # noqa: BLE001
                print(f"replay: real code raised {type(e).__name__}: {e} on the stand-in object")
                bad += 1
        elif d.get("witness") == "stale":
            w = stale_witness()
            print("replay:", w[0] if w else "property holds on this input now")
            bad += bool(w)
        elif "case" in d:
            case = d["case"]
            out = drive(case)
            msgs = oracle(case, out) + machine_oracle(case, out)
            print("replay:", msgs[0][0] if msgs else "property holds on this input now")
            bad += bool(msgs)
        elif "state" in d:
            io = run_fake(d["state"])
            probe_variant()
            mo = Driver().batch([fake_line(d["state"])])[0]
            okk = cmp_step(mo, io)
            print("replay:", "model and implementation agree now" if okk else f"model={mo} impl={io}")
            bad += (not okk)
    return 1 if bad else 0
