"""C10 — MPS truncation and canonical form honour their contract
(emu_mps/utils.py: _determine_cutoff_index / split_matrix / truncate_impl; emu_mps/mps.py: orthogonalize,
truncate and the `orthogonality_center` bookkeeping of every public operation; emu_mps/algebra.py).

Lean: EmuVerif.Props.C10 (cutoff-index contract for every list, rank bounds, eigh-contract => Frobenius
error and isometry, history invariant of the orthogonality-flag machine, norm = centre norm for chains
of isometries). Correspondence: (a) `_determine_cutoff_index` bit-exact against `Model.Cutoff` at
binary64; `split_matrix` rank/side/rescale against `splitPlan` on the recorded eigh spectrum;
(b) random operation histories on the real `emu_mps.MPS` against `Model.Canon` (declared centre equal,
every claimed flag checked numerically on the real tensors, bonds, discarded weight from the eigh tape,
norm); (c) real TDVP runs with `_evolve` interposed. The (b)/(c) checks are also the property oracle.

Lean (bridge): EmuVerif.Props.C10Bridge over Model.CanonOps — the flags of Model.Canon are *true of the actual
factor tensors* given the QR contract (q^H q = 1, q r = m) and the eigh contract, for every history of
orthogonalize / truncate / + / scalar* / apply / apply_to / norm / expect_batch / inner / get_correlation_matrix /
sample / entanglement_entropy; hence declared centre c => factors left of c are left isometries, right of c right
isometries, norm^2 = ||factor c||_F^2. Correspondence (d): `truncate_impl` exact on Gaussian-integer chains with an
exact eigh oracle (phase-permutation eigenvectors, designed spectra; ranks decided by the model), and the whole
tensor-level machine `cb.run` against real histories with the recorded qr / split_matrix tapes (1e-10), every
recorded qr validated against the contract the theorems assume.
"""
from __future__ import annotations

import json
import sys
import math
from fractions import Fraction
from unittest import mock

from harness.common import Driver, LeanError, Report, f2b, lst, lean_stage, seeded, q2s

REGISTRY = dict(
    text=("Lean 4 theorems, all list lengths / all histories: (1) for every list d over a linear ordered field, "
          "_determine_cutoff_index returns cut with sum(d[:cut]) <= eps^2 (no sign hypothesis), every shorter prefix too, "
          "and either sum(d[:cut+1]) > eps^2 (for d >= 0: cut is the longest prefix within eps^2) or no prefix exceeds "
          "eps^2 and cut = 0 (nothing is discarded when the whole spectrum is below threshold); max_error <= 0 raises; "
          "(2) kept rank = min(len-cut, max_rank), so 1 <= kept <= max_rank, and unless the cap binds the discarded weight "
          "is <= eps^2; (3) given the eigh contract (G = Q diag(d) Q^H, Q unitary) as hypotheses: the kept factor is an "
          "isometry and the squared Frobenius error of left@right equals the discarded weight sum(d[:max_bond]) (both "
          "orth_center_right cases, Mathlib matrices over any commutative *-ring); preserve_norm restores sum(d); "
          "(4) HISTORY INVARIANT of the orthogonality-flag machine (one transition per public MPS/back-end operation): for "
          "every operation list from MPS.make / MPS(.., None), a declared centre c has every factor left of c flagged "
          "left-orthonormal and every factor right of c right-orthonormal (induction over the op list; DMRG's unasserted "
          "centre write needs the stated guard, with a kernel-checked counterexample without it); (5) for any chain of "
          "left-/right-orthonormal site tensors (inductive families, all lengths) ||psi||_F = ||centre tensor||_F. "
          "(6) BRIDGE (Props/C10Bridge.lean, theorems for every site count / bond sequence / physical dimension, scalars any "
          "commutative *-ring): on the tensor-level model of the same operations (Model.CanonOps: QR steps of orthogonalize, "
          "split_matrix steps of truncate_impl, add_factors, scale_factors, apply, zip_right), GIVEN the kernel contracts as "
          "hypotheses (qr: q^H q = 1 and q r = m; eigh: EighContract, used through kept_factor_isometry), (i) one QR step makes "
          "the processed factor a left/right isometry, keeps every amplitude and touches no other factor; (ii) after "
          "orthogonalize(k) from ANY chain, factors 0..k-1 are left and k+1..n-1 right isometries, the state is unchanged and "
          "norm^2 = ||factor k||_F^2; after truncate() the chain is canonical around the declared centre 0 and every bond is in "
          "[1, max_bond_dim] when the kept ranks are those of Model.Cutoff; (iii) HISTORY BRIDGE: the tensor machine refines the "
          "flag machine - for every history of orthogonalize / truncate / + / scalar* / apply / MPO.apply_to / norm / expect_batch "
          "/ inner / get_correlation_matrix / sample / entanglement_entropy (and the composite quantum jump) every flag of "
          "Model.Canon is TRUE of the actual factor it sits on, so whenever the declared centre is c the actual factors left of "
          "c are left isometries (A^H A = 1, the hypothesis of LeftChain.snoc), those right of c right isometries, and "
          "inner(self,self) = sum_s |amp s|^2 = ||factor c||_F^2. So the flag->isometry reading of (4)/(5) is now a theorem for "
          "those operations; it remains flag-level only for the back-end writes _evolve (TDVP) and DMRG progress. "
          "PARTIAL: the QR/eigh contracts themselves are assumed (validated numerically on every recorded call), "
          "binary64 rounding is outside the theorems. Models tied to the code by bit-exact (cutoff) / exact (centre, ranks, "
          "truncate_impl on Gaussian integers) / 1e-10 (tensor machine on recorded tapes) correspondence."),
    note=("Trusted: Lean kernel + propext/Classical.choice/Quot.sound; Mathlib; hand-written Model.Cutoff/Model.Canon/"
          "Model.CanonOps tied by correspondence only; torch.linalg.qr/eigh contracts assumed (validated numerically on every "
          "recorded call: q^H q = 1, q r = m, Q unitary, G = Q diag(d) Q^H); flag semantics (L = orthonormal columns, R = "
          "orthonormal rows) are a theorem given those contracts (Props/C10Bridge) for the public MPS operations and are "
          "additionally checked on the real tensors to 1e-9; for _evolve / DMRG they are checked numerically only."),
    technique="Lean 4 proof (list induction, op-history induction, Mathlib matrix algebra) + bit-exact/exact correspondence with oracle tapes",
    design_ref="DESIGN.md §5 C10",
)

PROP_MODULE = "EmuVerif.Props.C10"
AUDIT = "Audit/C10.lean"
BRIDGE_MODULE = "EmuVerif.Props.C10Bridge"      # flags are true of the actual tensors (tensor-level machine)
BRIDGE_AUDIT = "Audit/C10Bridge.lean"

ISO_TOL = 1e-9          # property text: flags checked to ||A^H A - 1||_max < 1e-9
NORM_RTOL = 1e-9        # norm vs centre tensor norm, relative (clean-tree spread ~1e-15)
FROB_RTOL = 1e-9        # ||m - l r||_F^2 vs discarded weight, relative to ||m||_F^2 (clean-tree spread ~1e-15)
EIGH_TOL = 1e-9         # eigh contract validation, relative to the largest eigenvalue
QR_TOL = 1e-9           # qr contract validation: ||q^H q - 1||_max, ||q r - m||_max / max(1, ||m||_max) (clean-tree spread ~1e-15)
MACHINE_TOL = 1e-10     # tensor-level machine vs real factors, entrywise relative to max(1, |entry|max) (spread ~1e-14)
EIGH_LIMIT = 1536       # largest Gram matrix a history may hand to eigh (clean tree: <= 3 * 3 * 64 = 576); beyond it the
                        # history is stopped (`Blowup`): a LAPACK call of that size cannot be interrupted by SIGALRM
DENSE_MAX = 4096        # dense (state-vector) reference of a history's state is built when dim**n <= DENSE_MAX
SCHMIDT_RTOL = 1e-11    # true (dense) discarded weight vs eigh-tape weight, relative to ||psi||^2 (clean-tree spread ~1e-16)
CASE_BUDGET_S = 20.0    # wall-clock budget of one history (clean tree: < 0.5 s); checked between operations
DRIVER_TIMEOUT_S = 600  # every driver call (clean tree: < 10 s)


class Blowup(Exception):
    """raised by the harness' own kernel wrappers when a tensor outgrows every size the clean tree can produce
    (an uncapped bond grows geometrically under `apply_to` / `+`); turned into a failing input, never a verdict by itself"""


def _defer(rep, batch, lines, judge):
    if batch is None:
        b = Batch()
        b.defer(lines, judge)
        b.flush(rep)
    else:
        batch.defer(lines, judge)


class Batch:
    """All model queries of one run go through a single driver start (the interpreter start-up and
    the parsing dominate the quick tier)."""

    def __init__(self):
        self.lines, self.jobs = [], []

    def defer(self, lines, judge):
        self.jobs.append((len(self.lines), len(lines), judge))
        self.lines.extend(lines)

    def flush(self, rep: Report) -> None:
        try:
            mo = Driver().batch(self.lines, timeout=DRIVER_TIMEOUT_S)
        except LeanError as e:
            rep.broke("driver: " + str(e)[-800:])
            return
        rep.extra["driver_lines"] = len(self.lines)
        rep.extra["driver_bytes"] = sum(map(len, self.lines))
        for a, k, judge in self.jobs:
            judge(mo[a:a + k])
        self.lines, self.jobs = [], []


# =================================================================== (a) cutoff index, bit-exact
def gen_cutoff_case(rng, big: int):
    """(kind, eps, list of floats). Lattice kinds put prefix sums *exactly* on eps^2."""
    kind = rng.choice(["tie", "tie", "lattice", "lattice", "random", "sorted", "neg", "below", "tiny", "edge",
                       "reject", "special", "huge", "decay"])
    if kind == "tie":
        k = rng.randint(1, 20)
        eps = 2.0 ** -k
        unit = eps * eps / 2 ** rng.randint(1, 6)
        n = rng.randint(1, 40)
        d = [unit * rng.choice([0, 0, 1, 1, 2, 3, 4, 8]) for _ in range(n)]
        return kind, eps, d
    if kind == "lattice":
        eps = rng.choice([0.5, 0.25, 1.0, 2.0, 0.125, 3.0, 1.5])
        unit = eps * eps / 16
        n = rng.randint(0, 30)
        d = [unit * rng.randint(-2, 9) for _ in range(n)]
        return kind, eps, d
    if kind == "random":
        eps = 10 ** rng.uniform(-12, -2)
        n = rng.randint(1, 100)
        d = [10 ** rng.uniform(-30, 1) for _ in range(n)]
        return kind, eps, d
    if kind == "sorted":
        eps = 10 ** rng.uniform(-12, -2)
        n = rng.randint(1, 100)
        c = math.log10(eps * eps)
        d = sorted(10 ** rng.uniform(c - 6, c + 3) for _ in range(n))
        return kind, eps, d
    if kind == "decay":
        eps = 10 ** rng.uniform(-12, -2)
        n = rng.randint(2, 128)
        r = rng.uniform(0.2, 0.95)
        d = sorted(r ** i for i in range(n))
        z = rng.randint(0, n)
        d = [rng.uniform(-1, 1) * 1e-17 for _ in range(z)] + d
        return kind, eps, d
    if kind == "neg":      # what eigh returns for a rank-deficient Gram matrix: tiny +- noise, then the spectrum
        eps = rng.choice([1e-5, 1e-8, 1e-2, 1e-12])
        z = rng.randint(1, 60)
        d = sorted(rng.uniform(-1, 1) * 10 ** rng.uniform(-19, -15) for _ in range(z))
        d += sorted(10 ** rng.uniform(-14, 0) for _ in range(rng.randint(0, 20)))
        return kind, eps, d
    if kind == "below":    # the whole list weighs less than eps^2 -> falls through to `return 0`
        eps = 10 ** rng.uniform(-6, 0)
        n = rng.randint(1, 100)
        d = [eps * eps / (2 * n) * rng.random() for _ in range(n)]
        if rng.random() < 0.3:                   # the total is *exactly* eps^2: still "not above"
            eps = 2.0 ** -rng.randint(1, 8)
            n = 2 ** rng.randint(0, 7)
            d = [eps * eps / n] * n
        return kind, eps, d
    if kind == "tiny":
        eps = rng.choice([1e-200, 5e-324, 1e-162, 1e-161, 1e200, 1e154, 1.4e154, 1e155])
        n = rng.randint(1, 10)
        d = [rng.choice([0.0, 5e-324, 1e-320, 1e300, 1e308, 1.0]) for _ in range(n)]
        return kind, eps, d
    if kind == "edge":
        eps = rng.choice([1e-5, 0.5, 1.0])
        d = rng.choice([[], [0.0], [1.0], [eps * eps], [eps * eps * (1 + 2 ** -52)], [-1.0], [0.0, 0.0],
                        [eps * eps, 0.0, 5e-324], [-0.0], [eps * eps / 2, eps * eps / 2]])
        return kind, eps, list(d)
    if kind == "reject":
        eps = rng.choice([0.0, -0.0, -1.0, -1e-300, float("nan"), -float("inf")])
        return kind, eps, [rng.random() for _ in range(rng.randint(0, 4))]
    if kind == "special":
        eps = rng.choice([1e-5, 1.0, float("inf")])
        n = rng.randint(1, 12)
        d = [rng.choice([1e-12, 0.0, float("inf"), -float("inf"), float("nan"), 1.0, -1.0]) for _ in range(n)]
        return kind, eps, d
    # huge
    eps = 10 ** rng.uniform(-6, -1)
    n = rng.randint(big // 2, big)
    where = rng.random()
    scale = eps * eps / (n * where) if where > 0.02 else eps * eps / (10 * n)
    d = [scale * (0.5 + rng.random()) for _ in range(n)]
    return kind, eps, d


def impl_cutoff(d, eps):
    import torch
    from emu_mps.utils import _determine_cutoff_index
    try:
        return str(int(_determine_cutoff_index(torch.tensor(d, dtype=torch.float64), eps)))
    except AssertionError:
        return "reject"


def exact_cutoff(d, eps):
    """The same loop over exact rationals (the reading the theorems are about)."""
    if not eps > 0:
        return "reject"
    sq = Fraction(eps) * Fraction(eps)
    acc = Fraction(0)
    for i, x in enumerate(d):
        acc += Fraction(x)
        if acc > sq:
            return str(i)
    return "0"


def cutoff_correspondence(rep: Report, rng, n: int, big: int, batch=None) -> None:
    lines, outs, meta = [], [], []
    qlines, qouts = [], []
    nhuge = 0
    for _ in range(n):
        kind, eps, d = gen_cutoff_case(rng, big)
        if kind == "huge":
            nhuge += 1
            if nhuge > (1 if big <= 50000 else 3):
                continue
        try:
            io = impl_cutoff(d, eps)
        except Exception as e:  # the real function raising anything but AssertionError
            rep.fail(f"_determine_cutoff_index raised {type(e).__name__}: {e}", {"kind": "cutoff", "eps": eps, "d": d[:2000]})
            continue
        lines.append(f"cutoff.index {f2b(eps)} {lst(f2b(x) for x in d)}")
        outs.append(io)
        meta.append((kind, eps, d))
        rep.hist("cutoff_kind", kind)
        rep.hist("cutoff_outcome", "reject" if io == "reject" else ("zero" if io == "0" else "pos"))
        # the property oracle on the real function: discarded prefix within eps^2, same accumulation order
        if io != "reject" and all(x == x and abs(x) != float("inf") for x in d) and eps == eps:
            c = int(io)
            acc = 0.0
            for x in d[:c]:
                acc += x
            if acc > eps * eps:
                rep.fail("discarded prefix weight exceeds max_error^2", {"kind": "cutoff", "eps": eps, "d": d[:2000]})
            if len(d) <= 32 and len(qlines) < max(150, n // 20) and all(abs(x) < 1e300 for x in d) and 1e-150 < eps < 1e150:
                qlines.append(f"cutoff.indexq {q2s(Fraction(eps))} {lst(q2s(Fraction(x)) for x in d)}")
                qouts.append((exact_cutoff(d, eps), io, kind))
    def judge(mo):
        bad = 0
        for l, m, o, (kind, eps, d) in zip(lines, mo, outs, meta):
            rep.case(key=("cut", l if len(l) < 400 else hash(l)), nontrivial=len(d) >= 2,
                     sample={"part": "a", "kind": kind, "eps": eps, "len": len(d), "index": o})
            if m != o:
                bad += 1
                if bad <= 3:
                    rep.broke(f"correspondence Model.Cutoff.cutoffIndex vs _determine_cutoff_index (bit-exact): kind={kind} "
                              f"eps={eps!r} d={d[:40]!r} model={m} impl={o}")
                    # a disagreement is only a *property* failure if the real answer breaks the contract
                    _cutoff_contract_fail(rep, eps, d, o)
        rep.extra["cutoff_disagreements"] = bad
        rep.extra["cutoff_cases"] = len(lines)
        # exact (Q) reading: the model at Q must agree with exact rational arithmetic (self-check of the
        # protocol), and we *count* how often rounding moves the float decision away from the exact one.
        differs = 0
        for m, (ex, io, kind) in zip(mo[len(lines):], qouts):
            if m != ex:
                rep.broke(f"Model.Cutoff at Q disagrees with exact rational loop: model={m} exact={ex}")
            if ex != io:
                differs += 1
                rep.hist("exact_vs_float_differs_kind", kind)
        rep.extra["exact_reading_cases"] = len(qouts)
        rep.extra["exact_vs_float_index_differs"] = differs

    _defer(rep, batch, lines + qlines, judge)


def _cutoff_contract_fail(rep, eps, d, o):
    """Contract of the index on the real output (used to turn a disagreement into a failing input)."""
    if o == "reject":
        if eps > 0:
            rep.fail("_determine_cutoff_index rejects a positive max_error", {"kind": "cutoff", "eps": eps, "d": d[:2000]})
        return
    if not (eps > 0):
        rep.fail("_determine_cutoff_index accepts max_error <= 0", {"kind": "cutoff", "eps": eps, "d": d[:2000]})
        return
    if any(x != x or abs(x) == float("inf") for x in d):
        return
    c = int(o)
    sq = eps * eps
    acc, first = 0.0, None
    for i, x in enumerate(d):
        acc += x
        if acc > sq:
            first = i
            break
    want = 0 if first is None else first
    if c != want:
        rep.fail(f"_determine_cutoff_index returned {c}, the first index whose inclusive prefix exceeds max_error^2 is "
                 f"{first} (0 expected when none does)", {"kind": "cutoff", "eps": eps, "d": d[:2000]})


# =================================================================== (a') split_matrix rank logic
def gen_split_case(rng):
    import torch
    r, c = rng.randint(1, 40), rng.randint(1, 40)
    g = torch.Generator().manual_seed(rng.randrange(2 ** 31))
    k = min(r, c)
    u, _ = torch.linalg.qr(torch.randn(r, k, dtype=torch.complex128, generator=g))
    v, _ = torch.linalg.qr(torch.randn(c, k, dtype=torch.complex128, generator=g))
    eps = 10 ** rng.uniform(-12, -1)
    mode = rng.choice(["decay", "cluster", "flat", "below", "rankdef"])
    if mode == "decay":
        s = [rng.uniform(0.1, 0.9) ** i for i in range(k)]
    elif mode == "cluster":
        s = [eps * rng.choice([0.1, 0.5, 0.9, 1.0, 1.1, 2.0]) / math.sqrt(k) for _ in range(k)]
    elif mode == "flat":
        s = [1.0] * k
    elif mode == "below":
        s = [eps * rng.random() / (2 * math.sqrt(k)) for _ in range(k)]
    else:
        s = [1.0 if i < max(1, k // 3) else 0.0 for i in range(k)]
    m = (u * torch.tensor(s, dtype=torch.complex128)) @ v.mH
    max_rank = rng.choice([1, 1, 2, 3, 4, 8, 16, 64, 1024, rng.randint(1, 45), 0, -1])
    return dict(m=m, eps=eps, max_rank=max_rank, ocr=rng.random() < 0.5, pn=rng.random() < 0.4, mode=mode,
                seed=None)


def gen_rect_split_case(rng):
    """Rectangular matrices of full numerical rank with a *binding* cap: tall and wide, both `orth_center_right`
    values, `max_rank` in 1..min(shape). The Gram matrix that `split_matrix` diagonalises is the larger one for
    (tall, ocr=True) and (wide, ocr=False): there `d.shape[0] > min(m.shape)` and the kept rank must still be
    `max_rank` exactly."""
    import torch
    big, small = rng.randint(3, 40), 0
    small = rng.randint(1, max(1, big // 2))
    tall = rng.random() < 0.5
    r, c = (big, small) if tall else (small, big)
    g = torch.Generator().manual_seed(rng.randrange(2 ** 31))
    k = small
    mode = rng.choice(["flat", "mild", "gauss"])
    if mode == "gauss":
        m = torch.randn(r, c, dtype=torch.complex128, generator=g)
    else:
        u, _ = torch.linalg.qr(torch.randn(r, k, dtype=torch.complex128, generator=g))
        v, _ = torch.linalg.qr(torch.randn(c, k, dtype=torch.complex128, generator=g))
        sv = [1.0] * k if mode == "flat" else [rng.uniform(0.3, 1.0) for _ in range(k)]
        m = (u * torch.tensor(sv, dtype=torch.complex128)) @ v.mH
    return dict(m=m, eps=10 ** rng.uniform(-10, -4), max_rank=rng.randint(1, k), ocr=rng.random() < 0.5,
                pn=rng.random() < 0.3, mode=f"rect-{'tall' if tall else 'wide'}-{mode}", seed=None)


class EighTape:
    """Records every `torch.linalg.eigh` call made while active (input, d, q)."""

    def __init__(self):
        import torch
        self.calls = []
        self._orig = torch.linalg.eigh

    def __call__(self, a, *args, **kw):
        if a.shape[-1] > EIGH_LIMIT:
            raise Blowup(f"eigh of a {tuple(a.shape)} Gram matrix (limit {EIGH_LIMIT})")
        out = self._orig(a, *args, **kw)
        self.calls.append((a.detach().clone(), out[0].detach().clone(), out[1].detach().clone()))
        return out


def check_eigh_contract(rep, a, d, q, data) -> None:
    """Numerical validation of the assumed contract (a test, labelled as such)."""
    import torch
    n = d.shape[0]
    if n == 0:
        return
    if n > 96 and rep.extra.get("eigh_calls_validated", 0) % 8:
        rep.count("eigh_calls_validated")      # large spectra: every 8th call (cost)
        rep.count("eigh_calls_subsampled")
        return
    scale = max(float(d.abs().max()), 1e-300)
    eye = torch.eye(n, dtype=q.dtype)
    u = float((q.mH @ q - eye).abs().max())
    rec = float((q @ torch.diag(d.to(q.dtype)) @ q.mH - a).abs().max()) / scale
    asc = float((d[:-1] - d[1:]).clamp(min=0).max()) / scale if n > 1 else 0.0
    rep.extra["eigh_contract_max_defect"] = max(rep.extra.get("eigh_contract_max_defect", 0.0), u, rec, asc)
    rep.count("eigh_calls_validated")
    if u > EIGH_TOL or rec > EIGH_TOL or asc > EIGH_TOL:
        rep.fail(f"torch.linalg.eigh contract violated (unitary {u:.2e}, reconstruction {rec:.2e}, ascending {asc:.2e})",
                 data, klass=None)


def seq_sum(xs) -> float:
    acc = 0.0
    for x in xs:
        acc += x
    return acc


def split_correspondence(rep: Report, rng, n: int, batch=None, rng_rect=None, n_rect: int = 0) -> None:
    import torch
    import emu_mps.utils as U
    lines, outs, metas = [], [], []
    for i in range(n_rect + n):
        # the rectangular binding-cap cases come first (own random stream: the other parts keep their inputs)
        case = gen_rect_split_case(rng_rect) if i < n_rect else gen_split_case(rng)
        m = case["m"]
        tape = EighTape()
        data = {"kind": "split", "m_re": m.real.tolist(), "m_im": m.imag.tolist(), "eps": case["eps"],
                "max_rank": case["max_rank"], "ocr": case["ocr"], "pn": case["pn"]}
        try:
            with mock.patch("torch.linalg.eigh", tape):
                left, right = U.split_matrix(m.clone(), max_error=case["eps"], max_rank=case["max_rank"],
                                             orth_center_right=case["ocr"], preserve_norm=case["pn"])
        except Exception as e:
            rep.fail(f"split_matrix raised {type(e).__name__}: {e}", data)
            continue
        if len(tape.calls) != 1:
            rep.broke(f"split_matrix made {len(tape.calls)} eigh calls (model: exactly one)")
            continue
        a, d, q = tape.calls[0]
        check_eigh_contract(rep, a, d, q, data)
        dl = d.tolist()
        msg, plan = split_oracle(m, left, right, dl, case["eps"], case["max_rank"], case["ocr"], case["pn"])
        if msg:
            rep.fail(msg, data)
        lines.append(f"cutoff.plan {f2b(case['eps'])} {case['max_rank']} {int(case['ocr'])} {int(case['pn'])} "
                     f"{lst(f2b(x) for x in dl)}")
        outs.append(plan)
        metas.append(data)
        rep.hist("split_mode", case["mode"])
        rep.hist("split_kept_vs_cap", "kept==cap" if left.shape[1] == case["max_rank"] else "kept<cap")
        if case["mode"].startswith("rect"):
            rep.hist("split_rect", f"{case['mode'].split('-')[1]}-ocr{int(case['ocr'])}")
    def judge(mo):
        bad = 0
        for l, m_, o, data in zip(lines, mo, outs, metas):
            rep.case(key=("split", hash(l)), nontrivial=True)
            # model: "cut max_bond kept iso rescaled"; impl: "kept iso rescaled" measured on the real factors
            mm = m_.split()
            if m_ == "reject" or len(mm) != 5 or " ".join(mm[2:]) != o:
                bad += 1
                if bad <= 3:
                    rep.broke(f"correspondence Model.Cutoff.splitPlan vs split_matrix: eps={data['eps']!r} max_rank={data['max_rank']} "
                              f"ocr={data['ocr']} pn={data['pn']} model={m_} impl(kept iso rescaled)={o}")
        rep.extra["split_disagreements"] = bad
        rep.extra["split_cases"] = len(lines)

    _defer(rep, batch, lines, judge)


def split_oracle(m, left, right, dl, eps, max_rank, ocr, pn):
    """C10 on one real `split_matrix` call. Returns (failure or None, 'kept iso rescaled')."""
    import torch
    n = len(dl)
    kept = left.shape[1]
    if right.shape[0] != kept:
        return f"split factors do not share a bond: {tuple(left.shape)} {tuple(right.shape)}", ""
    mb = n - kept
    norm2 = float((m.abs() ** 2).sum())
    # which side is the isometry (measured)
    eye = torch.eye(kept, dtype=left.dtype)
    dl_iso = float((left.mH @ left - eye).abs().max()) if kept else 0.0
    dr_iso = float((right @ right.mH - eye).abs().max()) if kept else 0.0
    # a factor that is an isometry on *both* sides happens (unitary split); use the weight-carrying side to decide
    iso = "L" if ocr else "R"
    claimed = dl_iso if ocr else dr_iso
    if claimed > ISO_TOL:
        return f"the factor that should be an isometry is not: defect {claimed:.3e} (orth_center_right={ocr})", ""
    if max_rank >= 1 and not (1 <= kept <= max_rank):
        return f"kept rank {kept} outside [1, max_rank={max_rank}]", ""
    disc = seq_sum(dl[:mb])
    cap_binds = kept >= max_rank      # (max_rank <= 0 keeps nothing: the cap binds trivially)
    if not cap_binds and disc > eps * eps:
        return f"discarded weight {disc!r} > max_error^2 = {eps * eps!r} although the cap ({max_rank}) does not bind (kept {kept})", ""
    # squared Frobenius error == discarded weight (the Lean matrix theorem, validated on the real factors)
    prod = left @ right
    new2 = float((prod.abs() ** 2).sum())
    rescaled = "0"
    if pn and kept and seq_sum(dl[mb:]) > 0:
        if abs(new2 - norm2) > 1e-9 * max(norm2, 1e-300):
            return f"preserve_norm: ||left@right||^2 = {new2!r} differs from ||m||^2 = {norm2!r}", ""
        rescaled = "1"
        fac2 = seq_sum(dl) / seq_sum(dl[mb:])
        prod = prod / math.sqrt(fac2)
    elif pn:
        rescaled = "1"
    if kept and all(x == x for x in dl):
        err2 = float(((m - prod).abs() ** 2).sum())
        if abs(err2 - max(disc, 0.0)) > FROB_RTOL * max(norm2, 1e-300) + 1e-300:
            return f"squared Frobenius error {err2!r} differs from the discarded weight {disc!r} (||m||^2={norm2!r})", ""
    return None, f"{kept} {iso} {rescaled}"


# =================================================================== (b) operation histories
FLAG_L, FLAG_R = "L", "R"


def rand_factors(rng, n, dim, bmax, gen, scale=1.0):
    import torch
    bonds = [1] + [rng.randint(1, bmax) for _ in range(n - 1)] + [1]
    fs = []
    for i in range(n):
        f = torch.randn(bonds[i], dim, bonds[i + 1], dtype=torch.complex128, generator=gen)
        fs.append(f * (scale / math.sqrt(bonds[i] * dim)) * 1.7)
    return fs


def flagged_factors(rng, n, dim, bmax, gen, centre):
    """An arbitrary (not necessarily reachable) machine state realised on real tensors: random bond
    dimensions, factor i made L-/R-orthonormal where the dimensions allow it, U otherwise. Flags that
    the dimensions cannot realise are downgraded to U so the *state handed to the model is true*."""
    import torch
    fs = rand_factors(rng, n, dim, bmax, gen)
    flags = []
    for i, f in enumerate(fs):
        want = rng.choice("LRUU") if centre is None else ("L" if i < centre else ("R" if i > centre else "U"))
        if centre is not None and rng.random() < 0.15:
            want = rng.choice("LRU")          # break the invariant on purpose: single steps from unreachable states
        if centre is not None and i == centre:
            want = rng.choice("ULR")
        a, b, c = f.shape
        if want == "L" and a * b >= c:
            q, _ = torch.linalg.qr(f.reshape(a * b, c))
            fs[i] = q.reshape(a, b, c).contiguous()
            flags.append("L")
        elif want == "R" and a <= b * c:
            q, _ = torch.linalg.qr(f.reshape(a, b * c).mT)
            fs[i] = q.mT.reshape(a, b, c).contiguous()
            flags.append("R")
        else:
            flags.append("U")
    return fs, "".join(flags)


def iso_defects(f):
    """(left-orthonormality defect, right-orthonormality defect) of one (χl, d, χr) tensor."""
    import torch
    a, b, c = f.shape
    A = f.reshape(a * b, c)
    dl = float((A.mH @ A - torch.eye(c, dtype=f.dtype)).abs().max())
    Bm = f.reshape(a, b * c)
    dr = float((Bm @ Bm.mH - torch.eye(a, dtype=f.dtype)).abs().max())
    return dl, dr


def dense_state(factors):
    """State vector of a list of (chi_l, d, chi_r) factors (small systems only)."""
    import torch
    acc = factors[0]
    for f in factors[1:]:
        acc = torch.tensordot(acc, f.to(acc.device), dims=([-1], [0]))
    return acc.reshape(-1)


def schmidt_factors(rng, n, dim, gen, precision):
    """Mixed-canonical MPS (bond 2 everywhere) whose Schmidt values at bond b|b+1 are exactly (s0, s1) with
    s1^2 = t * precision^2, t log-uniform in [1/16, 2]: left-orthonormal random tensors up to b, right-orthonormal
    after it, diag(s) absorbed into factor b. Returns (factors, b, t)."""
    import torch
    b = rng.randrange(n - 1)
    t = 2.0 ** rng.uniform(-4, 1)
    s1 = math.sqrt(t) * precision
    s0 = math.sqrt(max(1.0 - s1 * s1, 0.25)) * rng.choice([1.0, 1.0, 0.5, 2.0])
    bonds = [1] + [2] * (n - 1) + [1]
    fs = []
    for i in range(n):
        a, c = bonds[i], bonds[i + 1]
        f = torch.randn(a, dim, c, dtype=torch.complex128, generator=gen)
        if i <= b:
            q, _ = torch.linalg.qr(f.reshape(a * dim, c))
            f = q.reshape(a, dim, c)
        else:
            q, _ = torch.linalg.qr(f.reshape(a, dim * c).mT)
            f = q.mT.reshape(a, dim, c)
        fs.append(f.contiguous())
    fs[b] = (fs[b] * torch.tensor([s0, s1], dtype=torch.complex128)).contiguous()
    return fs, b, t


def gen_history(rng, tier):
    n = rng.choice([2, 2, 3, 3, 4, 5, 6, 7, 8, 9, 10])
    dim = rng.choice([2, 2, 3])
    precision = 10 ** rng.uniform(-12, -2)
    cap = rng.choice([1, 1, 2, 2, 3, 4, 5, 8, 16, 32, 64, rng.randint(1, 64)])
    bmax = rng.choice([1, 2, 4, 8, 16, 32]) if n <= 6 else rng.choice([1, 2, 4, 8, 16])
    init = rng.choice(["fresh", "fresh", "make", "state", "state", "schmidt"])
    nops = rng.randint(1, 14 if tier == "quick" else 30)
    ops = []
    if init == "schmidt":
        # a state with one Schmidt weight tuned to t * precision^2 (t in [1/16, 2]) at a chosen bond, both operands
        # of a sum re-centred on the same site (incl. sites >= 1), overlapping summands (psi + psi, psi + z psi),
        # then truncate(): the regime where a mis-estimated spectrum flips the keep/discard decision.
        n = rng.choice([2, 3, 3, 4, 5, 6])
        precision = 10 ** rng.uniform(-6, -2)
        cap = rng.choice([4, 8, 16, 64])
        c = rng.randrange(n)
        ops = rng.choice([[f"o{c}", "A", "t"], [f"o{c}", "A"], ["A", "t"], [f"o{c}", "A", f"o{rng.randrange(n)}", "A"],
                          [f"o{c}", "s", "A", "t"]])
        nops = rng.randint(0, 4)
    for _ in range(nops):
        k = rng.randrange(n) if rng.random() < 0.97 else rng.choice([n, n + 1, n + 7])
        o = rng.choice(["o", "o", "o", "t", "t", "a", "a", "s", "s", "p", "p", "z", "e", "n", "i", "c", "m", "y", "A"])
        ops.append(o + (str(k) if o in "opy" else ""))
    return dict(n=n, dim=dim, precision=precision, cap=cap, bmax=bmax, init=init, ops=ops,
                seed=rng.randrange(2 ** 31))


def run_history(case, rep=None):
    """Run one history on the real `emu_mps.MPS`. Returns dict(init=…, steps=[…], fails=[…], sweeps=[…])
    where each step holds what is needed to judge it once the model has answered."""
    import torch
    import emu_mps.utils as U
    from emu_mps import MPS, MPO
    rng = seeded(case["seed"])
    gen = torch.Generator().manual_seed(case["seed"])
    torch.manual_seed(case["seed"])
    n, dim = case["n"], case["dim"]
    eig = ("r", "g") if dim == 2 else ("r", "g", "x")
    kw = dict(precision=case["precision"], max_bond_dim=case["cap"], num_gpus_to_use=None, eigenstates=eig)
    fails, sweeps = [], []
    if case["init"] == "make":
        cur = MPS.make(n, precision=case["precision"], max_bond_dim=case["cap"], num_gpus_to_use=0, eigenstates=list(eig))
        init = "make"
    elif case["init"] == "fresh":
        cur = MPS(rand_factors(rng, n, dim, case["bmax"], gen), orthogonality_center=None, **kw)
        init = "fresh"
    elif case["init"] == "schmidt":
        fs, b0, _t = schmidt_factors(rng, n, dim, gen, case["precision"])
        cur = MPS(fs, orthogonality_center=b0, **kw)
        init = f"{b0}:" + "L" * b0 + "U" + "R" * (n - 1 - b0)
    else:
        centre = rng.choice([None] + list(range(n)))
        fs, flags = flagged_factors(rng, n, dim, case["bmax"], gen, centre)
        cur = MPS(fs, orthogonality_center=centre, **kw)
        init = f"{'-' if centre is None else centre}:{flags}"
        # is the caller's claim true? (only then do the global statements apply to this history)
        true_start = centre is None or (all(f == "L" for f in flags[:centre]) and all(f == "R" for f in flags[centre + 1:]))
    if case["init"] != "state":
        true_start = True
    dense_ok = dim ** n <= DENSE_MAX
    broke = []                                # model-free consistency breaks (reported as broken correspondence)
    steps = []
    degenerate = False
    done_ops = []
    import time as _time
    t_case, stopped = _time.time(), None
    for op in case["ops"]:
        if _time.time() - t_case > CASE_BUDGET_S:
            stopped = "case-budget"          # (counted by the caller; the operations run so far are judged)
            break
        premise_broken = False               # a bond above the cap / inconsistent shapes: stop, later ops assume them
        o, k = op[0], (int(op[1:]) if len(op) > 1 else None)
        overlap = o == "A"                    # "A" = `+` with an overlapping operand (psi or z*psi, same declared centre)
        if overlap:
            o = "a"
        if o == "m":
            # `sample` presumes a normalised state; torch.multinomial rejects weights that vanish or underflow.
            # Sampling is only exercised when the norm is unremarkable (checked without touching the state).
            nrm2 = float(cur.inner(cur).real)
            if degenerate or not (1e-12 < nrm2 < 1e12):
                continue
        before_bonds = [f.shape[2] for f in cur.factors]
        terms = [[f.detach().clone() for f in cur.factors]] if o in "ta" else []   # the exact pre-truncation state
        before_cap, before_prec = cur.max_bond_dim, cur.precision
        tape = EighTape()
        splits = []
        orig_split = U.split_matrix

        dense_seq = []                         # dense state right before every split of a `truncate_impl` sweep

        def split_rec(m, *a, **kws):
            n0 = len(tape.calls)
            if dense_ok and true_start:
                fr = sys._getframe(1)          # the caller is `truncate_impl(factors, …)`: read its working list
                facs = fr.f_locals.get("factors") if fr.f_code.co_name == "truncate_impl" else None
                dense_seq.append(dense_state(facs).clone() if facs is not None else None)
            l, r = orig_split(m, *a, **kws)
            splits.append((m.detach().clone(), l.detach().clone(), r.detach().clone(), kws, n0))
            return l, r

        raised = None
        try:
            with mock.patch("torch.linalg.eigh", tape), mock.patch.object(U, "split_matrix", split_rec):
                if o == "o":
                    cur.orthogonalize(k)
                elif o == "t":
                    cur.truncate()
                elif o == "a":
                    w = rng.random()
                    if overlap:
                        if w < 0.5:
                            other = cur
                        else:                # z * psi keeps psi's declared centre
                            z = rng.choice([1.0, 0.5, 2.0, -0.5, rng.uniform(0.2, 3.0), complex(rng.uniform(0.2, 2), rng.uniform(-1, 1))])
                            other = z * cur
                    elif w < 0.2:
                        other = cur
                    elif w < 0.3:
                        other = MPS.make(n, num_gpus_to_use=0, eigenstates=list(eig))
                    else:
                        other = MPS(rand_factors(rng, n, dim, rng.choice([1, 2, case["bmax"]]), gen,
                                                 scale=rng.choice([1.0, 1.0, 1e-3, 1e-7])), **kw)
                    terms.append([f.detach().clone() for f in other.factors])
                    cur = cur + other
                elif o == "s":
                    z = rng.choice([complex(rng.uniform(-2, 2), rng.uniform(-2, 2)), 0.5, -1.0, 1e-4, 1e-9, 0.0])
                    if z == 0.0:
                        degenerate = True
                    cur = z * cur
                elif o == "p":
                    w = rng.random()
                    g = torch.randn(dim, dim, dtype=torch.complex128, generator=gen)
                    if w < 0.25:
                        g = torch.zeros(dim, dim, dtype=torch.complex128)
                        g[rng.randrange(dim), rng.randrange(dim)] = 1.0      # a jump-like rank-1 operator
                        degenerate = True                                    # (may annihilate the state: no sampling)
                    cur.apply(k, g)
                elif o == "z":
                    wb = [1] + [rng.randint(1, 3) for _ in range(n - 1)] + [1]
                    mpo = MPO([torch.randn(wb[i], dim, dim, wb[i + 1], dtype=torch.complex128, generator=gen) / dim
                               for i in range(n)])
                    cur = mpo.apply_to(cur)
                elif o == "e":
                    cur.expect_batch(torch.randn(2, dim, dim, dtype=torch.complex128, generator=gen))
                elif o == "n":
                    cur.norm()
                elif o == "i":
                    cur.inner(cur); cur.get_max_bond_dim(); cur.get_memory_footprint()
                elif o == "c":
                    cur.get_correlation_matrix()
                elif o == "m":
                    cur.sample(num_shots=3)
                elif o == "y":
                    cur.entanglement_entropy(k)
        except AssertionError:
            raised = "assert"
        except Blowup as e:
            fails.append((f"op {op!r}: tensors outgrew every size a capped state can reach ({e}); bonds before the operation "
                          f"{before_bonds}, max_bond_dim={before_cap}", len(done_ops)))
            stopped = "blowup"
            break
        except Exception as e:
            fails.append((f"op {op!r} raised {type(e).__name__}: {e}", len(done_ops)))
            break
        done_ops.append(op)
        if raised:
            steps.append(dict(op=op, raised=True))
            break
        st = dict(op=op, raised=False, centre=cur.orthogonality_center, bonds=[f.shape[2] for f in cur.factors],
                  defects=[iso_defects(f) for f in cur.factors])
        # shape sanity
        fsh = [tuple(f.shape) for f in cur.factors]
        if fsh[0][0] != 1 or fsh[-1][2] != 1 or any(fsh[i][2] != fsh[i + 1][0] for i in range(n - 1)):
            fails.append((f"after {op!r}: inconsistent bond dimensions {fsh}", len(done_ops)))
            premise_broken = True
        # bonds: truncating operations honour the cap they were given; the others never grow a bond
        if o in "taz":
            if max(st["bonds"]) > before_cap:
                fails.append((f"after {op!r}: bond dimensions {st['bonds']} exceed max_bond_dim={before_cap}", len(done_ops)))
                premise_broken = True
            if o == "z" and (cur.max_bond_dim != before_cap or cur.precision != before_prec):
                # `MPO.apply_to` returns `MPS(factors, orthogonality_center=0, eigenstates=…)`: precision and
                # max_bond_dim fall back to the defaults (1e-5, 1024). Recorded (see notes/cutoff.md); the
                # harness restores them so that the rest of the history stays in the property's domain.
                st["config_dropped"] = True
                cur.precision, cur.max_bond_dim = before_prec, before_cap
        elif any(b > a for a, b in zip(before_bonds, st["bonds"])):
            fails.append((f"after {op!r}: a non-truncating operation grew a bond {before_bonds} -> {st['bonds']}", len(done_ops)))
            premise_broken = True
        # norm = norm of the centre tensor (only claimed when a centre is declared)
        c = cur.orthogonality_center
        if c is not None and 0 <= c < n:
            true2 = cur.inner(cur)
            true = math.sqrt(max(float(true2.real), 0.0))
            cn = float(torch.linalg.vector_norm(cur.factors[c]))
            st["norm_pair"] = (true, cn)
        # eigh tape: one split per bond, right-most first
        if splits:
            sw = dict(op=op, precision=before_prec, cap=before_cap, ds=[], kept=[])
            for (m, l, r, kws, n0) in splits:
                a, d, q = tape.calls[n0]
                if rep is not None:
                    check_eigh_contract(rep, a, d, q, {"kind": "history", **_case_ser(case), "upto": len(done_ops)})
                dl = d.tolist()
                msg, _plan = split_oracle(m, l, r, dl, kws["max_error"], kws["max_rank"], kws["orth_center_right"],
                                          kws.get("preserve_norm", False))
                if msg:
                    fails.append((f"during {op!r}: {msg}", len(done_ops)))
                sw["ds"].append(dl)
                sw["kept"].append(l.shape[1])
            if o in "ta" or o == "z":
                # the sweep is the *last* n-1 splits of the operation
                if len(splits) != n - 1:
                    fails.append((f"{op!r} made {len(splits)} splits, expected {n - 1}", len(done_ops)))
                if sw["kept"] != st["bonds"][:-1][::-1]:
                    fails.append((f"{op!r}: kept ranks {sw['kept']} are not the new bond dimensions {st['bonds']}", len(done_ops)))
            sweeps.append(sw)
            if dense_seq and all(v is not None for v in dense_seq) and len(dense_seq) == len(splits) \
                    and not any(x != x for d_ in sw["ds"] for x in d_):
                # DENSE REFERENCE, bond by bond: psi_k = state right before the k-th split, psi_{k+1} right after
                # it (= before the next one / the final state). ||psi_k - psi_{k+1}||^2 is the weight *really*
                # discarded at that bond. (i) it must be <= precision^2 unless the cap binds — the property, judged
                # on the state itself and not on the spectrum the code looked at; (ii) it must equal the weight
                # the eigh tape says was discarded: the spectrum of m^H m is the Schmidt spectrum only in
                # canonical form. Rounding: elementwise 1e-16 ||psi|| -> allowance SCHMIDT_RTOL * ||psi||^2.
                seq = dense_seq + [dense_state(cur.factors)]
                sc2 = max(float((v.abs() ** 2).sum()) for v in seq)
                if terms:
                    sc2 += sum(float((dense_state(t_).abs() ** 2).sum()) for t_ in terms)
                for kk, (d_, k_) in enumerate(zip(sw["ds"], sw["kept"])):
                    w_true = float(((seq[kk] - seq[kk + 1]).abs() ** 2).sum())
                    w_tape = max(seq_sum(d_[:len(d_) - k_]), 0.0)
                    bond = f"{n - 2 - kk}|{n - 1 - kk}" if len(splits) == n - 1 else f"#{kk}"
                    st.setdefault("schmidt_dev", []).append(abs(w_true - w_tape) / max(sc2, 1e-300))
                    if k_ < before_cap and w_true > before_prec * before_prec * (1 + 1e-6) + SCHMIDT_RTOL * sc2:
                        fails.append((f"{op!r}: weight discarded at bond {bond} is {w_true!r} (dense reference: ||psi_before - psi_after||^2 "
                                      f"of that split) > precision^2 = {before_prec * before_prec!r} although the cap does not bind "
                                      f"(kept {k_} < max_bond_dim {before_cap}); the spectrum the code cut on says {w_tape!r}",
                                      len(done_ops)))
                    elif abs(w_true - w_tape) > SCHMIDT_RTOL * sc2:
                        broke.append(f"{op!r} bond {bond}: eigh-tape discarded weight {w_tape!r} is not the weight really discarded "
                                     f"{w_true!r} (dense reference, ||psi||^2 ~ {sc2!r}): the sweep cut on a spectrum that is not "
                                     f"the Schmidt spectrum (non-canonical form)")
            if terms and true_start and not any(x != x for d_ in sw["ds"] for x in d_):
                # global contract of the sweep: in canonical form each split removes exactly its discarded
                # weight, so ||psi - psi'|| <= sum_i sqrt(w_i) (triangle inequality over the n-1 splits).
                # ||.||^2 comes from inner products: cancellation ~1e-15 x (sum of the terms' norms^2), allowance 1e-11 x that.
                ts = [MPS(t, num_gpus_to_use=None, eigenstates=eig) for t in terms]
                n2 = sum(float(a.inner(b).real) for a in ts for b in ts)
                cross = sum(float(a.inner(cur).real) for a in ts)
                new2 = float(cur.inner(cur).real)
                err2 = n2 + new2 - 2 * cross
                scale2 = sum(float(a.inner(a).real) for a in ts) + new2      # no cancellation: sets the rounding scale
                bound = sum(math.sqrt(max(seq_sum(d_[:len(d_) - k_]), 0.0)) for d_, k_ in zip(sw["ds"], sw["kept"]))
                st["trunc_err"] = (err2, bound * bound, n2)
                if err2 > bound * bound * (1 + 1e-6) + 1e-11 * scale2:
                    fails.append((f"{op!r}: global truncation error^2 {err2!r} exceeds (sum of sqrt(discarded weights))^2 = "
                                  f"{bound * bound!r} (||psi||^2 = {n2!r}): the sweep did not run on a canonical form", len(done_ops)))
            st["sweep"] = len(sweeps) - 1
        steps.append(st)
        if premise_broken:
            stopped = "premise-broken"
            break
    return dict(init=init, steps=steps, fails=fails, sweeps=sweeps, ops=done_ops, stopped=stopped, broke=broke)


def _case_ser(case):
    return {k: v for k, v in case.items()}


def judge_history(rep, case, res, model_states):
    """Compare one real history with the model's answer; numeric check of every claimed flag."""
    n = case["n"]
    out = []
    for idx, (st, ms) in enumerate(zip(res["steps"], model_states)):
        if st["raised"] != (ms == "x"):
            out.append(("corr", f"step {idx} {st['op']!r}: real {'raised AssertionError' if st['raised'] else 'returned'}, "
                                f"model {'raises' if ms == 'x' else 'returns ' + ms}"))
            break
        if st["raised"]:
            break
        mc, mf = ms.split(":")
        rc = "-" if st["centre"] is None else str(st["centre"])
        if mc != rc:
            out.append(("corr", f"step {idx} {st['op']!r}: declared centre {rc}, model {mc}"))
            break
        for i, fl in enumerate(mf):
            dl, dr = st["defects"][i]
            if fl in "LB" and not dl < ISO_TOL:
                out.append(("flag", f"step {idx} {st['op']!r}: factor {i} should be left-orthonormal (model {ms}), defect {dl:.3e}"))
            if fl in "RB" and not dr < ISO_TOL:
                out.append(("flag", f"step {idx} {st['op']!r}: factor {i} should be right-orthonormal (model {ms}), defect {dr:.3e}"))
        # the property itself on the real tensors: left of the declared centre L, right of it R.
        # Only judged when the history started from a state where the claim was true (the constructor
        # trusts its caller) — i.e. when the model's invariant says so.
        if st["centre"] is not None:
            c = st["centre"]
            model_ok = all(f in "LB" for f in mf[:c]) and all(f in "RB" for f in mf[c + 1:])
            real_ok = all(st["defects"][i][0] < ISO_TOL for i in range(c)) and \
                all(st["defects"][i][1] < ISO_TOL for i in range(c + 1, n))
            if model_ok and not real_ok:
                out.append(("prop", f"step {idx} {st['op']!r}: declared centre {c} but the factors around it are not "
                                    f"orthonormal: {[(round(a, 12), round(b, 12)) for a, b in st['defects']]}"))
            if model_ok and "norm_pair" in st:
                true, cn = st["norm_pair"]
                if abs(true - cn) > NORM_RTOL * max(true, cn, 1e-300) + 1e-150:
                    out.append(("prop", f"step {idx} {st['op']!r}: norm {true!r} != norm of the centre tensor {cn!r}"))
            rep.hist("invariant_applicable", model_ok)
    return out


def history_correspondence(rep: Report, rng, n: int, tier: str, batch=None) -> None:
    cases, results, lines = [], [], []
    sweep_lines, sweep_meta = [], []
    import time
    for _ in range(n):
        if tier == "quick" and time.time() - getattr(rep, "t_work", rep.t0) > 35 and len(cases) >= 40:
            # soft wall-clock budget of the quick tier (the machine may be shared): stop generating,
            # judge what was run; recorded so that the evidence shows the reduced coverage
            rep.extra["histories_cut_short_by_budget"] = n - len(cases)
            break
        case = gen_history(rng, tier)
        res = run_history(case, rep)
        cases.append(case)
        results.append(res)
        for msg, upto in res["fails"]:
            rep.fail(msg, {"kind": "history", **_case_ser(case), "upto": upto})
        if res.get("stopped"):
            rep.hist("histories_stopped", res["stopped"])
        for msg in res.get("broke", [])[:2]:
            rep.broke(f"history seed={case['seed']} n={case['n']} dim={case['dim']} init={res['init']} ops={' '.join(res['ops'])}: {msg}")
        lines.append((f"canon.run {case['n']} {res['init']} " + " ".join(res["ops"]).replace("A", "a")) if res["ops"] else f"canon.run {case['n']} {res['init']}")
        for sw in res["sweeps"]:
            size = sum(len(d) for d in sw["ds"])
            if size > 400 and rng.random() < (0.75 if tier == "quick" else 0.5):
                rep.count("sweeps_not_sent_to_model")       # (still judged by the oracle above)
                continue
            sweep_lines.append(f"cutoff.sweep {f2b(sw['precision'])} {sw['cap']} " + " ".join(lst(f2b(x) for x in d) for d in sw["ds"]))
            sweep_meta.append((case, sw))
        rep.hist("sites", case["n"])
        rep.hist("dim", case["dim"])
        rep.hist("init", case["init"])
        rep.hist("cap", case["cap"] if case["cap"] <= 8 else ("9-32" if case["cap"] <= 32 else "33-64"))
        rep.hist("precision_decade", int(math.floor(math.log10(case["precision"]))))
        for op in res["ops"]:
            rep.hist("op", op[0])
        for st in res["steps"]:
            if st.get("config_dropped"):
                rep.count("apply_to_result_drops_precision_and_cap")
    def judge(mo):
        dis = 0
        for case, res, m in zip(cases, results, mo[:len(lines)]):
            ms = [] if m == "-" else m.split(",")
            rep.case(key=("hist", case["seed"]), nontrivial=len(res["ops"]) >= 2,
                     sample={"part": "b", "n": case["n"], "dim": case["dim"], "precision": case["precision"], "cap": case["cap"],
                             "init": res["init"], "ops": res["ops"], "model": m[:120]})
            if m == "bad-op" or len(ms) != len(res["steps"]):
                if len(res["steps"]) or m == "bad-op":
                    rep.broke(f"driver/model answer malformed for history seed={case['seed']}: {m[:100]} ({len(res['steps'])} steps)")
                    continue
            for kind, msg in judge_history(rep, case, res, ms):
                data = {"kind": "history", **_case_ser(case), "upto": len(res["ops"])}
                if kind == "prop":
                    rep.fail(msg, data)
                else:
                    dis += 1
                    if dis <= 4:
                        rep.broke(f"correspondence Model.Canon vs emu_mps.MPS ({kind}): seed={case['seed']} n={case['n']} "
                                  f"init={res['init']} ops={' '.join(res['ops'])}: {msg}")
        rep.extra["history_disagreements"] = dis
        rep.extra["histories"] = len(lines)
        sd = 0
        for (case, sw), m in zip(sweep_meta, mo[len(lines):]):
            rep.case(key=("sweep", case["seed"], sw["op"], len(sw["ds"])), nontrivial=True, trace=True)
            rep.hist("sweep_cap_binds", any(k == sw["cap"] for k in sw["kept"]))
            want = lst(str(k) for k in sw["kept"])
            if m != want:
                sd += 1
                if sd <= 3:
                    rep.broke(f"correspondence Model.Cutoff.sweepBonds vs truncate_impl (eigh tape): seed={case['seed']} op={sw['op']} "
                              f"precision={sw['precision']!r} cap={sw['cap']} model={m} impl={want}")
        rep.extra["sweep_disagreements"] = sd
        rep.extra["sweeps"] = len(sweep_lines)

    _defer(rep, batch, lines + sweep_lines, judge)


# =================================================================== (c) evolve steps inside real TDVP runs
def tdvp_histories(rep: Report, rng, nruns: int, batch=None) -> None:
    """Interpose on `MPSBackendImpl._evolve` during real emu-mps runs: every evolve step must leave the
    declared centre where the model's `evolveSingle`/`evolvePair` transition puts it, with the factors
    the model flags actually orthonormal and the new bond within the cap."""
    import torch
    from harness import compat
    compat.install()
    import emu_mps.mps_backend_impl as impl

    lines, metas = [], []
    for _ in range(nruns):
        seed = rng.randrange(2 ** 31)
        r2 = seeded(seed)
        nq = r2.choice([2, 3, 3, 4, 5])
        nsteps = r2.choice([1, 2, 3])
        cap = r2.choice([1, 2, 4, 16])
        precision = 10 ** r2.uniform(-8, -3)
        g = torch.Generator().manual_seed(seed)
        omega = 2 + 8 * torch.rand(nsteps, nq, generator=g, dtype=torch.float64)
        delta = 6 * (torch.rand(nsteps, nq, generator=g, dtype=torch.float64) - 0.5)
        phi = torch.zeros(nsteps, nq, dtype=torch.float64)
        u = torch.rand(nq, nq, generator=g, dtype=torch.float64) * 3
        u = torch.triu(u, 1)
        u = u + u.T
        data = compat.make_sequence_data(omega, delta, phi, u, [10.0 * i for i in range(nsteps + 1)])
        cfg = compat.mps_config(precision=precision, max_bond_dim=cap, observables=[_dummy_obs()], dt=10.0)
        events, fails = [], []
        orig = impl.MPSBackendImpl._evolve

        def wrapped(self, *indices, dt, orth_center_right=None):
            before = self.state.orthogonality_center
            orig(self, *indices, dt=dt, orth_center_right=orth_center_right)
            st = self.state
            events.append(dict(idx=indices, ocr=orth_center_right, before=before, centre=st.orthogonality_center,
                               defects=[iso_defects(f) for f in st.factors], bonds=[f.shape[2] for f in st.factors]))
            if len(indices) == 2 and st.factors[indices[0]].shape[2] > self.config.max_bond_dim:
                fails.append(f"_evolve{indices}: new bond {st.factors[indices[0]].shape[2]} exceeds max_bond_dim={self.config.max_bond_dim}")

        try:
            with mock.patch.object(impl.MPSBackendImpl, "_evolve", wrapped):
                compat.run_mps(data, cfg)
        except (AssertionError, RuntimeError, ValueError, IndexError, ZeroDivisionError) as e:
            # the back-end asserts `orthogonality_center` in `_evolve`: a raise inside a run that the clean tree
            # completes is a candidate finding, not an environment problem
            rep.fail(f"emu-mps run raised {type(e).__name__}: {str(e)[:300]} after {len(events)} evolve steps",
                     {"kind": "tdvp", "seed": seed, "nq": nq, "nsteps": nsteps, "cap": cap, "precision": precision})
            continue
        except Exception as e:
            rep.notes.append(f"tdvp run seed={seed} could not be driven in this environment: {type(e).__name__}: {str(e)[:200]}")
            rep.count("tdvp_runs_skipped")
            continue
        for f in fails:
            rep.fail(f, {"kind": "tdvp", "seed": seed, "nq": nq, "nsteps": nsteps, "cap": cap, "precision": precision})
        if not events:
            continue
        n = len(events[0]["defects"])
        c0 = events[0]["before"]
        init = f"{c0}:" + "".join("L" if i < c0 else ("R" if i > c0 else "U") for i in range(n))
        ops = []
        for ev in events:
            if len(ev["idx"]) == 1:
                ops.append(f"v{ev['idx'][0]}")
            else:
                ops.append(f"w{'r' if ev['ocr'] else 'l'}{ev['idx'][0]}")
        lines.append(f"canon.run {n} {init} " + " ".join(ops))
        metas.append((seed, nq, events, ops))
        rep.count("tdvp_runs")
    if not lines:
        return
    def judge(mo):
        for (seed, nq, events, ops), m in zip(metas, mo):
            ms = m.split(",")
            rep.case(key=("tdvp", seed), nontrivial=True, sample={"part": "c", "nq": nq, "ops": ops[:12]})
            for idx, (ev, s) in enumerate(zip(events, ms)):
                if s == "x":
                    rep.broke(f"correspondence Model.Canon vs _evolve: model raises at step {idx} {ops[idx]} (seed {seed})")
                    break
                mc, mf = s.split(":")
                if str(ev["centre"]) != mc:
                    rep.broke(f"correspondence Model.Canon vs _evolve: centre {ev['centre']} vs model {mc} at step {idx} (seed {seed})")
                    break
                # (the initial flags are what `__init__` leaves: truncate(), orthogonalize(0))
                for i, fl in enumerate(mf):
                    dl, dr = ev["defects"][i]
                    if fl == "L" and not dl < ISO_TOL or fl == "R" and not dr < ISO_TOL:
                        msg = (f"tdvp seed={seed} step {idx} {ops[idx]}: factor {i} flagged {fl} by the model has defect "
                               f"{dl if fl == 'L' else dr:.3e}")
                        rep.fail(msg, {"kind": "tdvp", "seed": seed})
                rep.count("tdvp_evolve_steps")

    _defer(rep, batch, lines, judge)


def _dummy_obs():
    from harness import compat
    compat.install()
    from pulser.backend import BitStrings
    return BitStrings(evaluation_times=[1.0], num_shots=1)


# =================================================================== (d) tensor-level bridge (Model.CanonOps)
def check_qr_contract(rep, m, q, r, data) -> None:
    """Numerical validation of the contract the bridge theorems assume of `torch.linalg.qr` (a test, labelled
    as such): q^H q = 1 and q r = m."""
    import torch
    k = q.shape[1]
    iso = float((q.mH @ q - torch.eye(k, dtype=q.dtype)).abs().max()) if k else 0.0
    scale = max(1.0, float(m.abs().max())) if m.numel() else 1.0
    rec = float((q @ r - m).abs().max()) / scale if m.numel() else 0.0
    rep.extra["qr_contract_max_defect"] = max(rep.extra.get("qr_contract_max_defect", 0.0), iso, rec)
    rep.count("qr_calls_validated")
    if iso > QR_TOL or rec > QR_TOL:
        rep.fail(f"torch.linalg.qr contract violated (isometry {iso:.2e}, reconstruction {rec:.2e})", data, klass=None)


def phase_permutation(rng, n):
    """exact unitary with entries in {0, +-1, +-i}"""
    import torch
    q = torch.zeros(n, n, dtype=torch.complex128)
    perm = list(range(n))
    rng.shuffle(perm)
    for i, j in enumerate(perm):
        q[i, j] = rng.choice([1, -1, 1j, -1j])
    return q


def designed_spectrum(rng, n, eps):
    """ascending-ish spectrum around eps^2 so that the cutoff index lands anywhere in 0..n-1 (ties included)"""
    sq = eps * eps
    kind = rng.choice(["below", "lattice", "decay", "flat", "neg"])
    if kind == "below":
        return [sq / (4 * n)] * n
    if kind == "lattice":
        return sorted(sq / 4 * rng.choice([0, 1, 1, 2, 3, 8]) for _ in range(n))
    if kind == "decay":
        return sorted(sq * 10 ** rng.uniform(-3, 4) for _ in range(n))
    if kind == "flat":
        return [1.0] * n
    return sorted([-sq * 1e-3] + [sq * 10 ** rng.uniform(-2, 3) for _ in range(n - 1)])


def bridge_trunc_exact(rep: Report, rng, ncases: int, batch=None) -> None:
    """`truncate_impl` on Gaussian-integer chains with an *exact* eigh oracle (phase-permutation eigenvectors,
    designed spectrum): every entry of every factor compared as integers with `cb.truncd z` — the model decides
    the ranks itself (Model.Cutoff.splitPlan on the same spectrum) and applies Model.CanonOps.truncStep."""
    import torch
    import emu_mps.utils as U
    from harness.props import tensor_util as tu
    lines, metas = [], []
    frob_lines, frob_want = [], []
    for _ in range(ncases):
        n = rng.choice([2, 2, 3, 3, 4, 5, 6])
        d = rng.choice([2, 2, 3])
        fs = tu.rand_int_chain(rng, n, (d,), rng.choice([1, 2, 3, 4, 6]), 3)
        eps = rng.choice([0.5, 0.25, 1e-3, 1e-5, 2.0])
        cap = rng.choice([1, 2, 2, 3, 4, 8, 64])
        recs = []

        def fake_eigh(a, *args, **kw):
            k = a.shape[0]
            dv = torch.tensor(designed_spectrum(rng, k, eps), dtype=torch.float64)
            q = phase_permutation(rng, k)
            recs.append((dv.clone(), q.clone()))
            return dv, q
        out = [f.clone() for f in fs]
        try:
            with mock.patch("torch.linalg.eigh", fake_eigh):
                U.truncate_impl(out, precision=eps, max_bond_dim=cap)
        except Exception as e:
            rep.fail(f"truncate_impl raised {type(e).__name__}: {e}", {"kind": "bridge_trunc", "n": n, "d": d})
            continue
        if not tu.is_exact(*out):
            rep.count("bridge_exact_skipped_magnitude")
            continue
        toks = []
        for (dv, q) in recs:
            dr = q.shape[0] // d          # (the right bond of factor i at the time of its split)
            toks.append(f"{lst(f2b(x) for x in dv.tolist())} {q.shape[0]}:{dr}|{tu.enc_vals(q, 'z')}")
        lines.append(f"cb.truncd z {f2b(eps)} {cap} {tu.enc_chain(fs, 'z')} {len(toks)} " + " ".join(toks))
        metas.append((out, n, d, eps, cap))
        rep.hist("bridge_trunc_sites", n)
        # `frobSite` of the model (the right-hand side of canonical_norm) = factor.norm()**2, exact on Gaussian integers
        frob_lines.append(f"cb.frob z {tu.enc_site(out[0], 'z')}")
        frob_want.append(int(round(float((out[0].abs() ** 2).sum()))))

    def judge(mo):
        bad = 0
        for reply, (out, n, d, eps, cap) in zip(mo, metas):
            rep.case(key=("btrunc", hash(reply)), nontrivial=True,
                     sample={"part": "d1", "n": n, "d": d, "eps": eps, "cap": cap, "bonds": [f.shape[2] for f in out]})
            msg = None
            if not reply.startswith("ok "):
                msg = f"model answered {reply[:40]}"
            else:
                t = reply.split()
                ks = [] if t[1] == "-" else [int(x) for x in t[1].split(",")]
                want = [f.shape[0] for f in out[1:]][::-1]
                rep.hist("bridge_trunc_cap_binds", any(k == cap for k in want))
                if ks != want:
                    msg = f"kept ranks model {ks} real {want}"
                else:
                    ms, _ = tu.dec_chain(t[2:], "z")
                    if not tu.chains_equal_exact(ms, out):
                        msg = "factors after truncate_impl differ (exact)"
            if msg:
                bad += 1
                if bad <= 3:
                    rep.broke(f"correspondence Model.CanonOps.truncateImpl vs truncate_impl (exact eigh oracle): n={n} d={d} "
                              f"eps={eps} cap={cap}: {msg}")
        for reply, want in zip(mo[len(metas):], frob_want):
            if reply != f"{want}@0":
                bad += 1
                rep.broke(f"correspondence Model.CanonOps.frobSite vs factor.norm()**2 (exact): model {reply} real {want}")
        rep.extra["bridge_trunc_cases"] = len(metas)
        rep.extra["bridge_trunc_disagreements"] = bad
    _defer(rep, batch, lines + frob_lines, judge)


def gen_bridge_history(rng, tier):
    n = rng.choice([2, 2, 3, 3, 4, 5])
    dim = rng.choice([2, 2, 3])
    ops = []
    for _ in range(rng.randint(1, 7 if tier == "quick" else 12)):
        k = rng.randrange(n) if rng.random() < 0.96 else rng.choice([n, n + 2])
        o = rng.choice(["o", "o", "o", "t", "t", "a", "a", "s", "p", "p", "z", "e", "n", "i", "c", "m", "y"])
        ops.append(o + (str(k) if o in "opy" else ""))
    return dict(n=n, dim=dim, precision=10 ** rng.uniform(-10, -2), cap=rng.choice([1, 2, 2, 3, 4, 8, 16]),
                bmax=rng.choice([1, 2, 3, 4, 6]), init=rng.choice(["fresh", "fresh", "make", "state"]), ops=ops,
                seed=rng.randrange(2 ** 31))


def run_bridge_history(case, rep=None):
    """Run one history on the real `emu_mps.MPS`, recording for every operation the qr answers of each
    `orthogonalize` call, the zip-up qr answers and every `split_matrix` result. Returns the `cb.run` line, the
    real centres after each operation and the real final factors."""
    import torch
    import emu_mps.utils as U
    from emu_mps import MPS, MPO
    from harness.props import tensor_util as tu
    rng = seeded(case["seed"])
    gen = torch.Generator().manual_seed(case["seed"])
    torch.manual_seed(case["seed"])
    n, dim = case["n"], case["dim"]
    eig = ("r", "g") if dim == 2 else ("r", "g", "x")
    kw = dict(precision=case["precision"], max_bond_dim=case["cap"], num_gpus_to_use=None, eigenstates=eig)
    if case["init"] == "make":
        cur = MPS.make(n, precision=case["precision"], max_bond_dim=case["cap"], num_gpus_to_use=0, eigenstates=list(eig))
    elif case["init"] == "fresh":
        cur = MPS(rand_factors(rng, n, dim, case["bmax"], gen), orthogonality_center=None, **kw)
    else:
        centre = rng.choice([None] + list(range(n)))
        fs, _flags = flagged_factors(rng, n, dim, case["bmax"], gen, centre)
        cur = MPS(fs, orthogonality_center=centre, **kw)
    K = "f"
    init_centre = cur.orthogonality_center
    init_chain = tu.enc_chain(cur.factors, K)
    qr = tu.QrTape(None, "real")
    real_orth = MPS.orthogonalize
    orth_calls, splits = [], []
    orig_split = U.split_matrix

    def orth_rec(self, k=0):
        c0, i0 = self.orthogonality_center, len(qr.calls)
        try:
            return real_orth(self, k)
        finally:
            orth_calls.append((c0, k, self.num_sites, i0, len(qr.calls)))

    def split_rec(m, *a, **kws):
        l, r = orig_split(m, *a, **kws)
        splits.append((m.detach().clone(), r.detach().clone()))
        return l, r

    def otape(rec):
        c0, k, nn, i0, i1 = rec
        l0 = 0 if c0 is None else c0
        r0 = nn - 1 if c0 is None else c0
        nl, nr = max(0, k - l0), max(0, r0 - k)
        calls = qr.calls[i0:i1]
        if len(calls) != nl + nr:       # (an assert inside orthogonalize: nothing was recorded)
            return "0 0"
        lt, rt = [], []
        for (mm, q, r) in calls[:nl]:
            lt.append(f"{mm.shape[0] // dim}:{dim}:{q.shape[1]}:{r.shape[1]}|{tu.enc_vals(q, K)}|{tu.enc_vals(r, K)}")
        for (mm, q, r) in calls[nl:]:
            rt.append(f"{q.shape[1]}:{dim}:{mm.shape[0] // dim}:{r.shape[1]}|{tu.enc_vals(q.mT.contiguous(), K)}|{tu.enc_vals(r, K)}")
        return " ".join([str(nl)] + lt + [str(nr)] + rt)

    def stape():
        toks = []
        for (m, r) in splits:
            toks.append(f"{r.shape[0]}:{dim}:{m.shape[1] // dim}|{tu.enc_vals(r.mH.contiguous(), K)}")
        return " ".join([str(len(toks))] + toks)

    def pad(recs, k):
        return [otape(r) for r in recs] + ["0 0"] * (k - len(recs))

    toks, centres, done = [], [], []
    degenerate = False
    import time as _time
    t_case = _time.time()
    eigh_guard = EighTape()                  # (only its size guard is used here)
    for op in case["ops"]:
        if _time.time() - t_case > CASE_BUDGET_S:
            break
        o, k = op[0], (int(op[1:]) if len(op) > 1 else None)
        if o == "m":
            nrm2 = float(cur.inner(cur).real)
            if degenerate or not (1e-12 < nrm2 < 1e12):
                continue
        del orth_calls[:], splits[:], eigh_guard.calls[:]
        q0 = len(qr.calls)
        before = [f.detach().clone() for f in cur.factors]
        before_cap, before_prec = cur.max_bond_dim, cur.precision
        raised = False
        aux = {}
        try:
            with mock.patch("torch.linalg.qr", qr), mock.patch.object(MPS, "orthogonalize", orth_rec), \
                    mock.patch.object(U, "split_matrix", split_rec), mock.patch("torch.linalg.eigh", eigh_guard):
                if o == "o":
                    cur.orthogonalize(k)
                elif o == "t":
                    cur.truncate()
                elif o == "a":
                    w = rng.random()
                    if w < 0.2:
                        other = cur
                    elif w < 0.35:
                        other = MPS.make(n, num_gpus_to_use=0, eigenstates=list(eig))
                    else:
                        other = MPS(rand_factors(rng, n, dim, rng.choice([1, 2, case["bmax"]]), gen,
                                                 scale=rng.choice([1.0, 1.0, 1e-3])), **kw)
                    aux["other"] = tu.enc_chain(other.factors, K)
                    cur = cur + other
                elif o == "s":
                    z = rng.choice([complex(rng.uniform(-2, 2), rng.uniform(-2, 2)), 0.5, -1.0, 1e-3, 0.0])
                    if z == 0.0:
                        degenerate = True
                    aux["z"] = z
                    cur = z * cur
                elif o == "p":
                    g = torch.randn(dim, dim, dtype=torch.complex128, generator=gen)
                    if rng.random() < 0.25:
                        g = torch.zeros(dim, dim, dtype=torch.complex128)
                        g[rng.randrange(dim), rng.randrange(dim)] = 1.0
                        degenerate = True
                    aux["g"] = g
                    cur.apply(k, g)
                elif o == "z":
                    wb = [1] + [rng.randint(1, 3) for _ in range(n - 1)] + [1]
                    ws = [torch.randn(wb[i], dim, dim, wb[i + 1], dtype=torch.complex128, generator=gen) / dim for i in range(n)]
                    aux["ws"] = ws
                    cur = MPO([w.clone() for w in ws]).apply_to(cur)
                    cur.precision, cur.max_bond_dim = before_prec, before_cap     # (observation O1 of notes/cutoff.md)
                elif o == "e":
                    cur.expect_batch(torch.randn(2, dim, dim, dtype=torch.complex128, generator=gen))
                elif o == "n":
                    cur.norm()
                elif o == "i":
                    cur.inner(cur); cur.get_max_bond_dim()
                elif o == "c":
                    cur.get_correlation_matrix()
                elif o == "m":
                    cur.sample(num_shots=2)
                elif o == "y":
                    cur.entanglement_entropy(k)
        except AssertionError:
            raised = True
            if o not in "opy":
                return dict(error=f"op {op!r} raised AssertionError", upto=len(done))
        except Blowup as e:
            return dict(error=f"op {op!r}: tensors outgrew every size a capped state can reach ({e})", upto=len(done))
        except Exception as e:
            return dict(error=f"op {op!r} raised {type(e).__name__}: {e}", upto=len(done))
        if o in "taz" and not raised and max(f.shape[2] for f in cur.factors) > before_cap:
            # the property itself (also judged in part (b)); the history stops here: later operations assume the cap
            return dict(error=f"after {op!r}: bond dimensions {[f.shape[2] for f in cur.factors]} exceed max_bond_dim={before_cap}",
                        upto=len(done) + 1)
        # the operation with the kernel answers recorded while it ran. Missing `orthogonalize` calls are padded with
        # empty tapes: a model that needs them then fails, which shows up as a correspondence disagreement.
        ot = pad([] if raised else orth_calls, 2)
        if o == "o":
            tok = f"o {k} {ot[0]}"
        elif o == "t":
            tok = f"t {ot[0]} {stape()}"
        elif o == "a":
            tok = f"a {aux['other']} {ot[0]} {stape()}"
        elif o == "s":
            tok = f"s {tu.enc_f(aux['z'])}"
        elif o == "p":
            tok = f"p {k} {dim} {tu.enc_vals(aux.get('g', torch.eye(dim, dtype=torch.complex128)), K)} {ot[0]}"
        elif o == "z":
            zt = []
            for (mm, q, r), top, bot in zip(qr.calls[q0:], aux["ws"], before):
                zt.append(f"{mm.shape[0] // dim}:{dim}:{q.shape[1]}:{top.shape[-1]}:{bot.shape[-1]}|"
                          f"{tu.enc_vals(q, K)}|{tu.enc_vals(r, K)}")
            tok = f"z {tu.enc_chain(aux['ws'], K)} {len(zt)} {' '.join(zt)} {stape()}"
        elif o in "enm":
            tok = f"{o} {ot[0]}"
        elif o == "i":
            tok = "i"
        elif o == "c":
            tok = f"c {len(orth_calls)} " + " ".join(otape(r) for r in orth_calls)
        else:
            tok = f"y {k} {ot[0]} {ot[1]}"
        if rep is not None:
            for (mm, q, r) in qr.calls[q0:]:
                check_qr_contract(rep, mm, q, r, {"kind": "bridge_hist", **_case_ser(case), "upto": len(done) + 1})
        done.append(op)
        toks.append(tok)
        centres.append("x" if raised else ("-" if cur.orthogonality_center is None else str(cur.orthogonality_center)))
        if raised:
            break
    line = f"cb.run {K} {'-' if init_centre is None else init_centre} {init_chain} {len(toks)} " + " ".join(toks)
    return dict(line=" ".join(line.split()), centres=centres, final=[f.detach().clone() for f in cur.factors], ops=done)


def judge_bridge_history(reply, res):
    from harness.props import tensor_util as tu
    if not reply.startswith("ok "):
        return f"model answered {reply[:60]}"
    t = reply.split()
    mc = [] if t[1] == "-" else [("-" if x == "N" else x) for x in t[1].split(",")]
    if mc != res["centres"]:
        return f"declared centres / raises differ: model {mc} real {res['centres']}"
    ms, _ = tu.dec_chain(t[2:], "f")
    ok, w = tu.chains_close(ms, res["final"], MACHINE_TOL)
    return None if ok else f"final factors differ by {w:.2e} (tol {MACHINE_TOL})"


def bridge_histories(rep: Report, rng, ncases: int, tier: str, batch=None) -> None:
    """The tensor-level machine `Model.CanonOps.trun` (what `Props/C10Bridge.history_bridge` is about) against real
    operation histories, fed with the recorded kernel answers; every recorded qr is validated against the contract
    the theorems assume."""
    import time
    lines, metas = [], []
    for _ in range(ncases):
        if tier == "quick" and time.time() - getattr(rep, "t_work", rep.t0) > 55 and len(lines) >= 10:
            rep.extra["bridge_histories_cut_short_by_budget"] = ncases - len(lines)
            break
        case = gen_bridge_history(rng, tier)
        res = run_bridge_history(case, rep)
        if "error" in res:
            rep.fail(res["error"], {"kind": "bridge_hist", **_case_ser(case), "upto": res["upto"]})
            continue
        if not res["ops"]:
            continue
        lines.append(res["line"])
        metas.append((case, res))
        for op in res["ops"]:
            rep.hist("bridge_op", op[0])

    def judge(mo):
        bad = 0
        for reply, (case, res) in zip(mo, metas):
            rep.case(key=("bhist", case["seed"]), nontrivial=len(res["ops"]) >= 2,
                     sample={"part": "d2", "n": case["n"], "dim": case["dim"], "init": case["init"], "ops": res["ops"],
                             "centres": res["centres"]})
            msg = judge_bridge_history(reply, res)
            if msg:
                bad += 1
                if bad <= 3:
                    rep.broke(f"correspondence Model.CanonOps (tensor-level machine) vs emu_mps.MPS: seed={case['seed']} n={case['n']} "
                              f"dim={case['dim']} init={case['init']} ops={' '.join(res['ops'])}: {msg}")
        rep.extra["bridge_histories"] = len(metas)
        rep.extra["bridge_history_disagreements"] = bad
    _defer(rep, batch, lines, judge)


# =================================================================== check / search / replay
def check(rep: Report, tier: str, seed: int) -> None:
    rep.rule = ("(a) lists for _determine_cutoff_index: prefix sums exactly on eps^2 (dyadic lattices), tiny +- eigenvalues "
                "from rank-deficient Gram matrices, all-below-threshold, empty/one element, inf/nan, eps<=0/nan, eps^2 "
                "under/overflow, lists up to 6e3 (quick) / 1e5 (thorough) elements — bit-exact index; split_matrix on matrices "
                "with designed spectra, max_rank in {-1,0,1..1024}, both orth_center_right, preserve_norm, plus rectangular (tall and "
                "wide, aspect >= 2) full-rank matrices with max_rank uniform in 1..min(shape) so that the cap binds while the Gram "
                "matrix is the larger one. (b) histories: 2-10 "
                "sites, qubits/qutrits, bond<=32, precision 1e-12..1e-2, max_bond_dim 1..64, init in {fresh None, MPS.make, mixed-canonical state with a Schmidt weight tuned to t*precision^2 (t in [1/16,2]) followed by psi+psi / psi+z*psi on equal declared centres and truncate (dense per-bond reference of the discarded weight), "
                "arbitrary flagged state incl. false claims}, ops orthogonalize/truncate/+/scalar*/apply/apply_to/expect_batch/"
                "norm/inner/get_correlation_matrix/sample/entanglement_entropy incl. out-of-range sites. (c) real TDVP runs "
                "with _evolve interposed. (d) bridge: truncate_impl on Gaussian-integer chains (2-6 sites, bond<=6) with exact "
                "phase-permutation eigh oracle and designed spectra (exact); tensor-level machine on histories of 1-7 (quick) / "
                "1-12 (thorough) ops over 2-5 sites with recorded qr/split tapes (1e-10). non-trivial = >=2 elements / >=2 ops; "
                "distinct = distinct line / case seed")
    rep.assumptions = [
        "torch.linalg.eigh contract (d ascending, q unitary, a = q diag(d) q^H): hypothesis of the matrix theorems; validated "
        "numerically on every recorded call (eigh_contract_max_defect)",
        "torch.linalg.qr contract (q^H q = 1, q r = m): hypothesis of the bridge theorems (Props/C10Bridge: with it, every flag "
        "of Model.Canon is true of the actual factor); validated on every qr recorded in part (d) (qr_contract_max_defect) and by "
        "checking every flag the model claims on the real tensors (||A^H A - 1||_max < 1e-9)",
        "the tensor-level bridge covers the public MPS operations (orthogonalize, truncate, +, scalar*, apply, MPO.apply_to, norm, "
        "expect_batch, inner, get_correlation_matrix, sample, entanglement_entropy); for the back-end writes (_evolve, DMRG) the "
        "flag->isometry reading stays an assumption checked numerically in part (c)",
        "binary64 rounding is outside the theorems (they are about the same definitions over an ordered field); the cutoff "
        "decision is compared bit-for-bit and the exact-vs-float index difference is counted (exact_vs_float_index_differs)",
        "the MPS constructor trusts the caller's orthogonality_center; the invariant is claimed for histories starting from "
        "MPS.make / orthogonality_center=None (and from any state that satisfies it)",
    ]
    lean_stage(rep, PROP_MODULE, AUDIT, thorough=(tier == "thorough"))
    # second audit (pattern of c26.py): the bridge theorems (flags are true of the actual tensors), same rules.
    # Its build is a no-op after the first one and its audit only waits for a `lean` subprocess, so it runs beside
    # the generators (which never start the driver: every model query is deferred to `batch.flush`) and is merged
    # before the driver is used.
    import threading
    import time
    side, box = Report(rep.prop, tier, seed), {}

    def _bridge_stage():
        try:
            lean_stage(side, BRIDGE_MODULE, BRIDGE_AUDIT, thorough=(tier == "thorough"))
        except BaseException as e:      # re-raised in the main thread (a harness error is exit 2, never a verdict)
            box["exc"] = e
        box["s"] = round(time.time() - side.t0, 1)
    th = threading.Thread(target=_bridge_stage, daemon=True)
    th.start()
    rng = seeded(seed * 7919 + 10)
    quick = tier == "quick"
    batch = Batch()
    t = [time.time()]
    rep.t_work = t[0]                   # the soft budgets of the quick tier count from the end of the first Lean stage
    rep.extra["stage_s"] = {"lean": round(t[0] - rep.t0, 1)}

    def lap(name):
        t.append(time.time())
        rep.extra["stage_s"][name] = round(t[-1] - t[-2], 1)
    cutoff_correspondence(rep, rng, 450 if quick else 6000, 6000 if quick else 100000, batch)
    lap("cutoff")
    split_correspondence(rep, rng, 120 if quick else 1500, batch, rng_rect=seeded(seed * 32452843 + 10),
                         n_rect=80 if quick else 1000)
    lap("split")
    history_correspondence(rep, rng, 200 if quick else 1500, tier, batch)
    lap("histories")
    tdvp_histories(rep, rng, 3 if quick else 20, batch)
    lap("tdvp")
    rng_b = seeded(seed * 15485863 + 10)       # own stream: parts (a)-(c) keep the inputs they had before part (d) existed
    bridge_trunc_exact(rep, rng_b, 60 if quick else 600, batch)
    bridge_histories(rep, rng_b, 120 if quick else 1200, tier, batch)
    lap("bridge")
    while th.is_alive():            # never block without a timeout in the main thread: SIGALRM must stay deliverable
        th.join(timeout=0.5)
    if "exc" in box:
        raise box["exc"]
    rep.obligations = rep.obligations + [o for o in side.obligations if o not in rep.obligations]
    rep.discharged.extend(side.discharged)
    for b in side.broken:
        rep.broke(b)
    rep.checker_cmd = rep.checker_cmd + " ; " + side.checker_cmd
    rep.extra["axioms_used"] = sorted(set(rep.extra.get("axioms_used", [])) | set(side.extra.get("axioms_used", [])))
    if "leanchecker_rc" in side.extra:
        rep.extra["leanchecker_rc_bridge"] = side.extra["leanchecker_rc"]
    rep.extra["stage_s"]["lean_bridge_parallel"] = box.get("s")
    lap("lean_bridge_wait")
    batch.flush(rep)
    lap("model_driver")
    if rep.broken and not rep.unknown_failing():
        search(rep, seed, 600 if quick else 6000)


def search(rep: Report, seed: int, n: int) -> None:
    """Failing-input search on the real code only (no model involved): the property oracle on more and
    longer histories, biased towards small caps / loose precisions / truncating operations, plus the
    cutoff contract on the real function."""
    rng = seeded(seed * 104729 + 10)
    for _ in range(n * 5):
        kind, eps, d = gen_cutoff_case(rng, 2000)
        try:
            o = impl_cutoff(d, eps)
        except Exception as e:
            rep.fail(f"_determine_cutoff_index raised {type(e).__name__}: {e}", {"kind": "cutoff", "eps": eps, "d": d[:2000]})
            return
        _cutoff_contract_fail(rep, eps, d, o)
        if rep.failing:
            return
    # tuned near-threshold sums first (dense reference per bond inside run_history): equal declared centres,
    # overlapping summands, a Schmidt weight within a factor 16 of precision^2
    for _ in range(n):
        case = gen_history(rng, "quick")
        while case["init"] != "schmidt":
            case = gen_history(rng, "quick")
        res = run_history(case)
        for msg, upto in res["fails"]:
            rep.fail(msg, {"kind": "history", **_case_ser(case), "upto": upto})
        if rep.failing:
            return
    for _ in range(n):
        case = gen_history(rng, "thorough")
        if case["init"] != "schmidt":
            case["cap"] = rng.choice([1, 2, 3, case["cap"]])
            case["ops"] = [rng.choice(["t", "a", "a", "z", o]) for o in case["ops"]]
        res = run_history(case)
        for msg, upto in res["fails"]:
            rep.fail(msg, {"kind": "history", **_case_ser(case), "upto": upto})
        # invariant directly on the real tensors, for histories that start from a true state
        if not rep.unknown_failing() and case["init"] in ("fresh", "make"):
            for idx, st in enumerate(res["steps"]):
                if st["raised"] or st["centre"] is None:
                    continue
                c = st["centre"]
                ok = all(st["defects"][i][0] < ISO_TOL for i in range(c)) and \
                    all(st["defects"][i][1] < ISO_TOL for i in range(c + 1, case["n"]))
                if not ok:
                    rep.fail(f"step {idx} {st['op']!r}: declared centre {c} but the factors around it are not orthonormal",
                             {"kind": "history", **_case_ser(case), "upto": idx + 1})
                    break
                if "norm_pair" in st:
                    true, cn = st["norm_pair"]
                    if abs(true - cn) > NORM_RTOL * max(true, cn, 1e-300) + 1e-150:
                        rep.fail(f"step {idx} {st['op']!r}: norm {true!r} != norm of the centre tensor {cn!r}",
                                 {"kind": "history", **_case_ser(case), "upto": idx + 1})
                        break
        if rep.failing:
            return
    rep.extra["search_histories"] = n


def replay(rep: Report, path: str) -> int:
    import torch
    data = json.load(open(path))
    bad = 0
    for f in data.get("failing_inputs", []):
        d = f["data"]
        msg = None
        if d.get("kind") == "cutoff":
            r2 = Report("C10", "replay", 0)
            _cutoff_contract_fail(r2, d["eps"], d["d"], impl_cutoff(d["d"], d["eps"]))
            msg = r2.failing[0]["what"] if r2.failing else None
        elif d.get("kind") == "split":
            import emu_mps.utils as U
            m = torch.complex(torch.tensor(d["m_re"], dtype=torch.float64), torch.tensor(d["m_im"], dtype=torch.float64))
            tape = EighTape()
            with mock.patch("torch.linalg.eigh", tape):
                l, r = U.split_matrix(m.clone(), max_error=d["eps"], max_rank=d["max_rank"], orth_center_right=d["ocr"],
                                      preserve_norm=d["pn"])
            msg, _ = split_oracle(m, l, r, tape.calls[0][1].tolist(), d["eps"], d["max_rank"], d["ocr"], d["pn"])
        elif d.get("kind") == "history":
            case = {k: d[k] for k in ("n", "dim", "precision", "cap", "bmax", "init", "ops", "seed")}
            res = run_history(case)
            msgs = [m for m, _ in res["fails"]]
            if not msgs and res["steps"]:
                # re-judge against the model
                line = f"canon.run {case['n']} {res['init']} " + " ".join(res["ops"]).replace("A", "a")
                mo = Driver().batch([line], timeout=DRIVER_TIMEOUT_S)[0]
                msgs = [m for k, m in judge_history(Report("C10", "replay", 0), case, res, mo.split(",")) if k == "prop"]
            msg = msgs[0] if msgs else None
        elif d.get("kind") == "bridge_hist":
            r2 = Report("C10", "replay", 0)
            case = {k: d[k] for k in ("n", "dim", "precision", "cap", "bmax", "init", "ops", "seed")}
            res = run_bridge_history(case, r2)
            msg = res.get("error") or (r2.failing[0]["what"] if r2.failing else None)
            if not msg and res.get("ops"):
                msg = judge_bridge_history(Driver().batch([res["line"]], timeout=DRIVER_TIMEOUT_S)[0], res)
        elif d.get("kind") == "tdvp":
            r2 = Report("C10", "replay", 0)

            class _One:                      # an rng whose first draw is the recorded run seed
                def randrange(self, _n):
                    return d["seed"]
            tdvp_histories(r2, _One(), 1)
            msg = r2.failing[0]["what"] if r2.failing else None
        print("replay:", msg or "property holds on this input now")
        bad += bool(msg)
    return 1 if bad else 0
