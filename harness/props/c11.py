"""C11 — MPS/MPO operations are faithful to their dense counterparts (emu_mps/mps.py, mpo.py, algebra.py).

Lean: EmuVerif.Props.C11 (all site counts / bond dimensions; induction over the sites).
Correspondence: the executable model (`Model/Tensor.lean`, Gaussian integers) against the real
`add_factors`, `scale_factors`, `MPS.inner`, `MPO.expect`, `zip_right` (qr replaced by an exact oracle
q = m·U, r = U⁻¹; truncation switched off), `MPS.orthogonalize`, `MPS.apply`,
`MPS._from_state_amplitudes`, `MPO._from_operator_repr` — exact (integer) comparison of every factor
entry / scalar; with the real qr tape and binary64 model: tolerance 1e-10.
Oracle (always on, real code, real kernels): dense references for every public operation, tolerance
scaled by the truncation precision; operands of non-in-place operations unchanged.
"""
from __future__ import annotations

import json
import math
import random
from unittest import mock

from harness.common import Driver, LeanError, Report, lean_stage, seeded

REGISTRY = dict(
    text=("Lean 4 theorems over every commutative (star) ring, every number of sites and every sequence of bond "
          "dimensions (induction over the site list): add_factors represents the sum of amplitudes; scale_factors scales "
          "them; MPS.inner = sum_s conj(amp1 s) amp2 s; MPO.expect (new_left_bath) = the dense sesquilinear form; zip_right "
          "before truncation = operator applied to the amplitudes (MPS and MPO bottoms) given q r = m for each qr; gauge "
          "freedom (pair with equal products, inserted X X^-1, every orthogonalize sweep) leaves all amplitudes unchanged, "
          "hence the operations that only re-gauge do not change the state; MPS.apply; _from_state_amplitudes and "
          "_from_operator_repr (last assignment wins) = Kronecker definitions before truncation. PARTIAL: agreement of the "
          "truncating operations 'to within the truncation precision' (TruncationFaithful) rests on the eigh contract of C10 "
          "and is stated, not proved; entanglement entropy rests on svdvals (assumed); expect_batch is covered by the dense "
          "oracle only. get_correlation_matrix(operator): the model is the code after fix 7ffda71 (T1 fixed: it "
          "contracted operator^T; corr_offdiag_counterexample documents the old variant, corr_offdiag_repaired_witness the new "
          "one); still open T2: <O_i> on the diagonal, documented <O_i O_i> (corr_diag_counterexample, replayed on the real "
          "code; the default n operator is unaffected). Model tied to the code by exact Gaussian-integer "
          "correspondence (incl. the correlation-matrix contractions)."),
    note=("Trusted: Lean kernel + propext/Classical.choice/Quot.sound; Mathlib; hand-written Model.Tensor tied by "
          "correspondence only (generator-bounded); torch.linalg.qr/eigh/svdvals are oracles (only q r = m is used); "
          "binary64 rounding outside the theorems; truncation error bound (n-1)*precision validated numerically, not proved. "
          "Known finding T2 (open): get_correlation_matrix(operator) puts <O_i> (not <O_i O_i>) on the diagonal; T1 (operator^T off the diagonal) fixed by 7ffda71."),
    technique="Lean 4 proof (induction over sites, explicit index-tuple bijections for the contractions) + exact model/implementation correspondence + dense-reference oracle",
    design_ref="DESIGN.md §5 C11",
)

PROP_MODULE = "EmuVerif.Props.C11"
AUDIT = "Audit/C11.lean"
EIG = {2: ("r", "g"), 3: ("g", "r", "x")}


def _imports():
    import torch
    import emu_mps.algebra as algebra
    from emu_mps import MPS, MPO
    from harness.props import tensor_util as tu
    return torch, algebra, MPS, MPO, tu


# =============================================================================== correspondence
class Corr:
    """collects driver lines with a comparator each"""

    def __init__(self, rep: Report):
        self.rep = rep
        self.lines: list[str] = []
        self.cmp: list = []      # (name, fn(reply) -> None | str, sample)

    def add(self, name, line, fn, sample=None):
        self.lines.append(line)
        self.cmp.append((name, fn, sample))

    def run(self):
        try:
            out = Driver().batch(self.lines)
        except LeanError as e:
            self.rep.broke("driver: " + str(e)[-800:])
            return
        bad = {}
        for line, reply, (name, fn, sample) in zip(self.lines, out, self.cmp):
            self.rep.case(key=hash(line), sample=sample, nontrivial=True)
            self.rep.hist("corr_kind", name)
            try:
                msg = fn(reply)
            except Exception as e:  # malformed reply = disagreement, not a harness crash
                msg = f"unreadable model reply {reply[:80]!r}: {type(e).__name__}: {e}"
            if msg:
                bad[name] = bad.get(name, 0) + 1
                if bad[name] <= 2:
                    self.rep.broke(f"correspondence Model.Tensor vs emu_mps [{name}]: {msg}; line={line[:300]}")
        self.rep.extra["correspondence_disagreements"] = sum(bad.values())
        self.rep.extra["correspondence_lines"] = len(self.lines)


def _mps(MPS, fs, d, center=None, **kw):
    return MPS([f.clone() for f in fs], eigenstates=EIG[d], num_gpus_to_use=0, orthogonality_center=center, **kw)


def gen_correspondence(rep: Report, rng, tier: str) -> Corr:
    torch, algebra, MPS, MPO, tu = _imports()
    C = Corr(rep)
    big = tier != "quick"
    reps = 3 if big else 1

    def pick_nd(maxn=8):
        d = rng.choice([2, 2, 3])
        n = rng.randint(2, maxn)
        return n, d

    def dmax_for(i, n_cases):
        # mostly small bonds, a few up to 16
        return rng.choice([1, 2, 3, 4, 4, 6, 8, 16]) if i % 4 == 0 else rng.choice([1, 2, 3, 4])

    # ---- add_factors (MPS and MPO factors), including rejecting inputs
    for i in range(14 * reps):
        n, d = pick_nd()
        mpo = rng.random() < 0.4
        shape = (d, d) if mpo else (d,)
        dm = dmax_for(i, 14)
        L = tu.rand_int_chain(rng, n, shape, dm, 4)
        R = tu.rand_int_chain(rng, n, shape, dm, 4)
        mode = rng.choice(["ok"] * 6 + ["len", "dim", "single"])
        if mode == "len":
            R = R[:-1]
        elif mode == "dim" and not mpo:
            R = tu.rand_int_chain(rng, n, (5 - d,), dm, 4)
        elif mode == "single":
            L, R = L[:1], R[:1]
        try:
            S = algebra.add_factors([f.clone() for f in L], [f.clone() for f in R])
            impl = S
        except (ValueError, RuntimeError):
            impl = None
        rep.hist("add_mode", mode + ("" if impl is not None else ":raised"))

        def cmp_add(reply, impl=impl):
            if impl is None:
                return None if reply == "none" else f"real code raised, model answered {reply[:60]}"
            if not reply.startswith("ok "):
                return f"model rejected ({reply[:40]}) but the real code returned factors"
            ms, _ = tu.dec_chain(reply.split()[1:], "z")
            return None if tu.chains_equal_exact(ms, impl) else "factor entries differ"
        C.add("add_factors", f"t.add z {tu.enc_chain(L, 'z')} {tu.enc_chain(R, 'z')}", cmp_add,
              sample={"op": "add", "n": n, "d": d, "mpo": mpo, "bonds": [f.shape[-1] for f in L]})

    # ---- scale_factors
    for i in range(6 * reps):
        n, d = pick_nd()
        fs = tu.rand_int_chain(rng, n, (d,), rng.choice([1, 2, 4, 8]), 4)
        c = complex(rng.randint(-3, 3), rng.randint(-3, 3)) if i >= 2 else [1, 0][i]
        which = rng.choice([0, n - 1, rng.randrange(n), n, n + 3])
        given = [f.clone() for f in fs]
        S = algebra.scale_factors(given, c, which=which)
        if S is given:
            rep.fail(f"scale_factors(factors, {c!r}, which={which}) returned the very list it was given (documented: a new list)",
                     {"kind": "value_semantics", "case_seed": 0})

        def cmp_scale(reply, S=S):
            ms, _ = tu.dec_chain(reply.split(), "z")
            return None if tu.chains_equal_exact(ms, S) else "factor entries differ"
        C.add("scale_factors", f"t.scale z {tu.enc_z(c)} {which} {tu.enc_chain(fs, 'z')}", cmp_scale)

    # ---- MPS.__rmul__ / __imul__: which factor carries the scalar, as a function of the RECORDED centre
    for i in range(8 * reps):
        n, d = pick_nd()
        fs = tu.rand_int_chain(rng, n, (d,), rng.choice([1, 2, 3, 4]), 3)
        center = rng.choice([None, 0, n - 1, rng.randrange(n), rng.randrange(n)])
        c = complex(rng.randint(-3, 3), rng.randint(-3, 3)) if i >= 3 else [1, -1, 0][i]
        st = _mps(MPS, fs, d, center=center)
        out = (c * st) if i % 2 == 0 else st.__imul__(c)
        res, rc = [f.clone() for f in out.factors], out.orthogonality_center

        def cmp_rmul(reply, res=res, rc=rc):
            t = reply.split()
            if t[0] != ("-" if rc is None else str(rc)):
                return f"recorded centre of the result: model {t[0]} real {rc}"
            ms, _ = tu.dec_chain(t[1:], "z")
            return None if tu.chains_equal_exact(ms, res) else "factors differ (wrong factor scaled?)"
        C.add("MPS.__rmul__", f"t.rmul z {tu.enc_z(c)} {'-' if center is None else center} {tu.enc_chain(fs, 'z')}", cmp_rmul,
              sample={"op": "rmul", "n": n, "center": center})
        rep.hist("rmul_center", "None" if center is None else ("0" if center == 0 else ">0"))

    # ---- amplitudes of the model vs the harness' dense expansion (validates the dense references)
    for i in range(5 * reps):
        n, d = pick_nd(6)
        fs = tu.rand_int_chain(rng, n, (d,), rng.choice([1, 2, 4, 8]), tu.site_cap(n, 40, 1))
        psi = tu.dense_state(fs)
        strs = [[rng.randrange(d) for _ in range(n)] for _ in range(12)] + [[0] * (n - 1), [0] * (n + 1)]
        want = [complex(psi[tu.index_of(s, d)]) if len(s) == n else 0j for s in strs]

        def cmp_amp(reply, want=want):
            got = [tu.dec_z(t) for t in reply.split()]
            return None if got == want else f"amplitudes differ: model {got[:3]} dense {want[:3]}"
        C.add("amp", f"t.amp z {tu.enc_chain(fs, 'z')} {len(strs)} " + " ".join(",".join(map(str, s)) or "-" for s in strs), cmp_amp)

    # ---- MPS.inner
    for i in range(12 * reps):
        n, d = pick_nd()
        dm = dmax_for(i, 12)
        cap = tu.site_cap(n, 44, 2)
        A = tu.rand_int_chain(rng, n, (d,), dm, cap)
        B = tu.rand_int_chain(rng, n, (d,), dm, cap)
        z = complex(_mps(MPS, A, d).inner(_mps(MPS, B, d)))

        def cmp_inner(reply, z=z):
            return None if reply != "none" and tu.dec_z(reply) == z else f"model {reply} real {z}"
        C.add("inner", f"t.inner z {tu.enc_chain(A, 'z')} {tu.enc_chain(B, 'z')}", cmp_inner,
              sample={"op": "inner", "n": n, "d": d, "bonds": [f.shape[-1] for f in A]})

    # ---- MPO.expect
    for i in range(8 * reps):
        d = rng.choice([2, 2, 3])
        n = rng.randint(2, 6)
        cap = tu.site_cap(n, 44, 3)
        A = tu.rand_int_chain(rng, n, (d,), rng.choice([1, 2, 3, 4, 8]), cap)
        W = tu.rand_int_chain(rng, n, (d, d), rng.choice([1, 2, 3, 4]), cap)
        z = complex(MPO([w.clone() for w in W]).expect(_mps(MPS, A, d)))

        def cmp_exp(reply, z=z):
            return None if reply != "none" and tu.dec_z(reply) == z else f"model {reply} real {z}"
        C.add("expect", f"t.expect z {tu.enc_chain(A, 'z')} {tu.enc_chain(W, 'z')}", cmp_exp)

    # ---- zip_right before truncation: exact fake qr, and the real qr (binary64, tolerance)
    for i in range(10 * reps):
        d = rng.choice([2, 2, 3])
        n = rng.randint(2, 5)
        mpo_bottom = rng.random() < 0.4
        m = d if mpo_bottom else 1
        exact = i % 5 != 4
        kind = "z" if exact else "f"
        if exact:
            tops = tu.rand_int_chain(rng, n, (d, d), rng.choice([1, 2, 3]), 2)
            bots = tu.rand_int_chain(rng, n, (d, d) if mpo_bottom else (d,), rng.choice([1, 2, 3]), 2)
        else:
            g = torch.Generator().manual_seed(rng.randrange(2 ** 31))
            tops = tu.rand_float_chain(g, n, (d, d), tu.rand_bonds(rng, n, 4, d))
            bots = tu.rand_float_chain(g, n, (d, d) if mpo_bottom else (d,), tu.rand_bonds(rng, n, 6, d))
        tape = tu.QrTape(rng, "fake" if exact else "real")
        with mock.patch("torch.linalg.qr", tape), mock.patch.object(algebra, "truncate_impl", lambda *a, **k: None):
            out = algebra.zip_right([t.clone() for t in tops], [b.clone() for b in bots], 1e-5, 1024)
        if exact and not tu.is_exact(*out, *[x for c in tape.calls for x in c]):
            rep.count("exact_cases_skipped_magnitude")
            continue
        toks = []
        for (mm, q, r), top, bot in zip(tape.calls, tops, bots):
            bt, rb = top.shape[-1], bot.shape[-1]
            a = mm.shape[0] // (d * m)
            toks.append(f"{a}:{d * m}:{q.shape[1]}:{bt}:{rb}|{tu.enc_vals(q, kind)}|{tu.enc_vals(r, kind)}")
        merged = [c[0] for c in tape.calls]

        def cmp_zip(reply, out=out, merged=merged, kind=kind, n=n):
            if not reply.startswith("ok "):
                return f"model answered {reply[:40]}"
            t = reply.split()[1:]
            import numpy as np
            for k in range(n):
                got = np.array([tu.DEC[kind](v) for v in t[k].split(",")])
                want = merged[k].reshape(-1).numpy()
                if kind == "z":
                    if not np.array_equal(got, want):
                        return f"matrix handed to qr differs at site {k}"
                elif np.abs(got - want).max() > 1e-10 * max(1.0, np.abs(want).max()):
                    return f"matrix handed to qr differs at site {k} by {np.abs(got - want).max():.2e}"
            ms, _ = tu.dec_chain(t[n:], kind)
            if kind == "z":
                return None if tu.chains_equal_exact(ms, out) else "result factors differ"
            ok, w = tu.chains_close(ms, out, 1e-10)
            return None if ok else f"result factors differ by {w:.2e} (tol 1e-10)"
        C.add("zip_right:" + ("exact" if exact else "qr-tape"),
              f"t.zip {kind} {d} {m} {tu.enc_chain(tops, kind)} {tu.enc_chain(bots, kind)} " + " ".join(toks), cmp_zip,
              sample={"op": "zip", "n": n, "d": d, "mpo_bottom": mpo_bottom, "exact": exact})

    # ---- orthogonalize (+ apply) : exact fake qr / real qr tape
    for i in range(12 * reps):
        n, d = pick_nd(7)
        exact = i % 4 != 3
        kind = "z" if exact else "f"
        if exact:
            fs = tu.rand_int_chain(rng, n, (d,), rng.choice([1, 2, 3, 4]), 2)
        else:
            g = torch.Generator().manual_seed(rng.randrange(2 ** 31))
            fs = tu.rand_float_chain(g, n, (d,), tu.rand_bonds(rng, n, 8, d))
        center = rng.choice([None, None, rng.randrange(n)])
        desired = rng.randrange(n)
        st = _mps(MPS, fs, d, center=center)
        tape = tu.QrTape(rng, "fake" if exact else "real")
        with mock.patch("torch.linalg.qr", tape):
            st.orthogonalize(desired)
        if exact and not tu.is_exact(*st.factors, *[x for c in tape.calls for x in c]):
            rep.count("exact_cases_skipped_magnitude")
            continue
        l0 = 0 if center is None else center
        r0 = n - 1 if center is None else center
        nl, nr = max(0, desired - l0), max(0, r0 - desired)
        assert len(tape.calls) == nl + nr
        lt, rt = [], []
        for (mm, q, r) in tape.calls[:nl]:
            dl = mm.shape[0] // d
            lt.append(f"{dl}:{d}:{q.shape[1]}:{r.shape[1]}|{tu.enc_vals(q, kind)}|{tu.enc_vals(r, kind)}")
        for (mm, q, r) in tape.calls[nl:]:
            dr = mm.shape[0] // d
            rt.append(f"{q.shape[1]}:{d}:{dr}:{r.shape[1]}|{tu.enc_vals(q.mT.contiguous(), kind)}|{tu.enc_vals(r, kind)}")
        res = [f.clone() for f in st.factors]

        def cmp_orth(reply, res=res, kind=kind):
            if not reply.startswith("ok "):
                return f"model answered {reply[:40]}"
            ms, _ = tu.dec_chain(reply.split()[1:], kind)
            if kind == "z":
                return None if tu.chains_equal_exact(ms, res) else "factors differ"
            ok, w = tu.chains_close(ms, res, 1e-10)
            return None if ok else f"factors differ by {w:.2e}"
        C.add("orthogonalize:" + ("exact" if exact else "qr-tape"),
              f"t.orth {kind} {'-' if center is None else center} {desired} {tu.enc_chain(fs, kind)} "
              f"{nl} {' '.join(lt)} {nr} {' '.join(rt)}".replace("  ", " "), cmp_orth,
              sample={"op": "orth", "n": n, "center": center, "desired": desired, "exact": exact})
        rep.hist("orth_moves", f"l{min(nl, 3)}r{min(nr, 3)}")
        if exact and i % 2 == 0:
            op = torch.tensor([[complex(rng.randint(-2, 2), rng.randint(-2, 2)) for _ in range(d)] for _ in range(d)], dtype=tu.DT)
            before = st.factors[desired].clone()
            st.apply(desired, op)
            after = st.factors[desired].clone()

            def cmp_apply(reply, after=after):
                m = tu.dec_site(reply, "z")
                return None if tu.chains_equal_exact([m], [after]) else "factor differs"
            C.add("apply", f"t.apply1 z {d} {tu.enc_vals(op, 'z')} {tu.enc_site(before, 'z')}", cmp_apply)

    # ---- get_correlation_matrix: the contractions as written, on the factors present after each orthogonalize(left)
    for i in range(4 * reps):
        n, d = pick_nd(5)
        fs = tu.rand_int_chain(rng, n, (d,), rng.choice([1, 2, 3]), 2)
        op = torch.tensor([[complex(rng.randint(-2, 2), rng.randint(-2, 2)) for _ in range(d)] for _ in range(d)], dtype=tu.DT)
        st = _mps(MPS, fs, d, center=None)
        snaps = []
        real_orth = MPS.orthogonalize

        def rec_orth(self, k=0, snaps=snaps):
            r = real_orth(self, k)
            snaps.append((k, [f.clone() for f in self.factors]))
            return r
        tape = tu.QrTape(rng, "fake")
        with mock.patch("torch.linalg.qr", tape), mock.patch.object(MPS, "orthogonalize", rec_orth):
            cm = st.get_correlation_matrix(operator=op)
        if not tu.is_exact(cm, *[f for _, s in snaps for f in s]):
            rep.count("exact_cases_skipped_magnitude")
            continue
        for left, facs in snaps:
            want = [float(cm[left, r].real) for r in range(left, n)]

            def cmp_corr(reply, want=want):
                got = [tu.dec_z(v).real for v in reply.split(",")]
                return None if got == want else f"row differs: model {got} real {want}"
            C.add("get_correlation_matrix", f"t.corr z r {d} {tu.enc_vals(op, 'z')} {tu.enc_chain(facs[left:], 'z')}", cmp_corr)

            def note_variant(reply, want=want, rep=rep):
                got = [tu.dec_z(v).real for v in reply.split(",")]
                rep.hist("corr_matches_asFound_variant", got == want)   # informational: which variant /repo is
                return None
            if left == 0:
                C.add("get_correlation_matrix(asFound variant, informational)",
                      f"t.corr z a {d} {tu.enc_vals(op, 'z')} {tu.enc_chain(facs[left:], 'z')}", note_variant)

    # ---- _from_state_amplitudes, truncation and normalisation switched off
    bases = {"rg": [("r", "g"), ("g", "r")], "zo": [("0", "1"), ("1", "0")], "rgx": [("g", "r", "x"), ("x", "r", "g")]}
    for i in range(8 * reps):
        bname = rng.choice(list(bases))
        eig = rng.choice(bases[bname])
        n = rng.randint(2, 6)
        chars = "".join(eig)
        amps = {}
        for _ in range(rng.randint(1, 5)):
            amps["".join(rng.choice(chars) for _ in range(n))] = complex(rng.randint(-3, 3), rng.randint(-3, 3))
        with mock.patch.object(MPS, "truncate", lambda self: None), \
                mock.patch.object(MPS, "norm", lambda self: torch.tensor(1.0, dtype=torch.float64)):
            st, _ = MPS._from_state_amplitudes(eigenstates=eig, n_qudits=n, amplitudes=amps)
        res = [f.clone() for f in st.factors]

        def cmp_fa(reply, res=res):
            if not reply.startswith("ok "):
                return f"model answered {reply[:40]}"
            ms, _ = tu.dec_chain(reply.split()[1:], "z")
            return None if tu.chains_equal_exact(ms, res) else "factors differ"
        C.add("from_state_amplitudes", f"t.fromamps z {bname} {n} {len(amps)} " + " ".join(f"{k} {tu.enc_z(v)}" for k, v in amps.items()), cmp_fa,
              sample={"op": "fromamps", "basis": eig, "n": n, "entries": len(amps)})

    # ---- _from_operator_repr (no factorisation involved at all)
    for i in range(10 * reps):
        bname = rng.choice(list(bases))
        eig = rng.choice(bases[bname])
        d = len(eig)
        n = rng.randint(2, 6)
        keys = [a + b for a in eig for b in eig]
        mode = rng.choice(["ok"] * 7 + ["key", "index"])
        terms = []
        pool = rng.sample(keys, rng.randint(2, 3))       # few basis strings: they recur across factors and terms
        for _ in range(rng.randint(1, 4)):
            ops = []
            for _ in range(rng.randint(0, 3)):
                qd = {}
                ks = rng.sample(pool, rng.randint(1, len(pool))) if i % 2 == 0 else [rng.choice(keys) for _ in range(rng.randint(1, 3))]
                for j, key in enumerate(ks):
                    qd[key] = complex(rng.randint(-2, 2), rng.randint(-2, 2))
                    if i % 2 == 0 and j == 0:
                        qd[key] = rng.choice([1, 1.0, 1 + 0j, -1, 0])    # σz-like: first coefficient exactly 1 / −1 / 0
                targets = [rng.randrange(n) for _ in range(rng.randint(1, 3))]   # repeats allowed: last wins
                ops.append((qd, targets))
            terms.append((rng.choice([1, -1, 0, complex(rng.randint(-2, 2), rng.randint(-2, 2))]), ops))
        if mode == "key":
            terms[-1][1].append(({"qq": 1.0}, [0]))
        if mode == "index":
            terms[-1][1].append(({keys[0]: 1.0}, [n]))
        try:
            W, _ = MPO._from_operator_repr(eigenstates=eig, n_qudits=n, operations=terms)
            impl = [f.clone() for f in W.factors]
        except KeyError:
            impl = "keyerror"
        except IndexError:
            impl = "none"
        rep.hist("fromop_mode", mode if not isinstance(impl, str) else mode + ":" + impl)
        line = f"t.fromop z {bname} {n} {len(terms)}"
        for c, ops in terms:
            line += f" {tu.enc_z(c)} {len(ops)}"
            for qd, tg in ops:
                line += f" {len(qd)} " + " ".join(f"{k} {tu.enc_z(v)}" for k, v in qd.items()) + " " + ",".join(map(str, tg))

        def cmp_fo(reply, impl=impl):
            if isinstance(impl, str):
                return None if reply == impl else f"real code raised {impl}, model answered {reply[:40]}"
            if not reply.startswith("ok "):
                return f"model answered {reply[:40]}"
            ms, _ = tu.dec_chain(reply.split()[1:], "z")
            return None if tu.chains_equal_exact(ms, impl) else "factors differ"
        C.add("from_operator_repr", line, cmp_fo, sample={"op": "fromop", "basis": eig, "n": n, "terms": len(terms)})
    return C


# =============================================================================== oracle on the real code
ORACLE_KINDS = ["add_scale", "inner_norm", "apply_expect", "mpo_algebra", "site_obs", "from_amps", "from_op", "corr_custom",
                "recorded_centre", "value_semantics"]


def _close(x, ref, tol):
    import torch
    x, ref = torch.as_tensor(x), torch.as_tensor(ref)
    return float((x - ref).abs().max()) <= tol if x.numel() else True


def _reread(tu, torch, x, v, ops, n, tol):
    """re-read a state through its public interface against the dense vector it must (still) represent"""
    sc = max(1.0, float(v.norm()))
    dv = tu.dense_state(x.factors)
    if float((dv - v).norm()) > tol * sc:
        return f"dense vector moved by {float((dv - v).norm()):.3e}"
    nr = float(x.norm())
    if abs(nr - float(v.norm())) > tol * sc:
        return f"norm() = {nr!r} but the dense norm is {float(v.norm())!r} (recorded centre {x.orthogonality_center})"
    eb = x.expect_batch(ops)
    for q in range(n):
        ref = complex(torch.vdot(v, tu.apply_1site(v, ops[0], q, n)))
        if abs(complex(eb[q, 0]) - ref) > 10 * tol * sc * sc * max(1.0, float(ops[0].abs().max())):
            return f"expect_batch[{q}] = {complex(eb[q, 0])} ≠ dense {ref} (recorded centre {x.orthogonality_center})"
    return None


def oracle_case(kind: str, cs: int) -> list[tuple[str, dict, str | None]]:
    """The statement of C11 evaluated on one generated input of the real code. Deterministic in (kind, cs)."""
    torch, algebra, MPS, MPO, tu = _imports()
    rng = random.Random(cs)
    g = torch.Generator().manual_seed(cs)
    fails: list = []
    d = rng.choice([2, 2, 3])
    nmax = 8 if d == 2 else 6
    n = rng.randint(2, nmax)
    prec = rng.choice([1e-5, 1e-5, 1e-3, 1e-6])
    info = {"kind": kind, "case_seed": cs, "n": n, "d": d, "precision": prec}

    def bad(msg, klass=None, **kw):
        fails.append((msg, dict(info, **kw), klass))

    def mk(dmax=16, center=None):
        b = tu.rand_bonds(rng, n, dmax, d)
        fs = tu.rand_float_chain(g, n, (d,), b)
        return MPS([f.clone() for f in fs], eigenstates=EIG[d], num_gpus_to_use=0, precision=prec, orthogonality_center=center), fs

    def mko(dmax=6):
        b = tu.rand_bonds(rng, n, dmax, d * d)
        ws = tu.rand_float_chain(g, n, (d, d), b, scale=None)
        return MPO([w.clone() for w in ws]), ws

    def unchanged(st, ref, what, tol=1e-9):
        now = tu.dense_state(st.factors)
        if not _close(now, ref, tol * max(1.0, float(ref.abs().max()))):
            bad(f"{what} changed the represented state of its operand by {float((now - ref).abs().max()):.3e}")

    trunc_tol = lambda scale: 2 * (n - 1) * prec + 1e-9 * max(1.0, scale)

    if kind == "add_scale":
        a, fa = mk()
        b, fb = mk()
        pa, pb = tu.dense_state(fa), tu.dense_state(fb)
        s = a + b
        ref = pa + pb
        err = float((tu.dense_state(s.factors) - ref).norm())
        if err > trunc_tol(float(ref.norm())):
            bad(f"MPS.__add__: ‖dense(a+b) − (dense a + dense b)‖ = {err:.3e} > {trunc_tol(float(ref.norm())):.3e}")
        if s.orthogonality_center != 0 or s.get_max_bond_dim() > s.max_bond_dim:
            bad("MPS.__add__: result not centred at 0 / bond above max_bond_dim")
        unchanged(a, pa, "MPS.__add__ (self)")
        unchanged(b, pb, "MPS.__add__ (other)")
        c = complex(rng.uniform(-2, 2), rng.uniform(-2, 2))
        if rng.random() < 0.5:
            a.orthogonalize(rng.randrange(n))
        sc = c * a
        if not _close(tu.dense_state(sc.factors), c * pa, 1e-9 * max(1.0, float(pa.abs().max()))):
            bad("MPS.__rmul__: dense(c·a) ≠ c·dense(a)")
        unchanged(a, pa, "MPS.__rmul__")
    elif kind == "inner_norm":
        a, fa = mk(center=None)
        b, fb = mk()
        pa, pb = tu.dense_state(fa), tu.dense_state(fb)
        z, ref = complex(a.inner(b)), complex(torch.vdot(pa, pb))
        sc = float(pa.norm() * pb.norm())
        if abs(z - ref) > 1e-9 * max(1.0, sc):
            bad(f"MPS.inner = {z} ≠ vdot(dense) = {ref}")
        if abs(float(a.overlap(b)) - abs(ref) ** 2) > 1e-9 * max(1.0, sc ** 2):
            bad("MPS.overlap ≠ |⟨a|b⟩|²")
        if abs(float(a.norm()) - float(pa.norm())) > 1e-9 * max(1.0, float(pa.norm())):
            bad(f"MPS.norm = {float(a.norm())} ≠ ‖dense‖ = {float(pa.norm())}")
        unchanged(a, pa, "inner/overlap/norm (self)")
        unchanged(b, pb, "inner/overlap (other)")
        if a.get_max_bond_dim() != max(f.shape[2] for f in a.factors):
            bad("get_max_bond_dim")
    elif kind == "apply_expect":
        a, fa = mk(dmax=8)
        O, ws = mko()
        pa, M = tu.dense_state(fa), tu.dense_op(ws)
        ref = M @ pa
        r = O.apply_to(a)
        err = float((tu.dense_state(r.factors) - ref).norm())
        # apply_to truncates with `other.precision`
        if err > trunc_tol(float(ref.norm())):
            bad(f"MPO.apply_to: ‖dense(O·a) − dense(O)·dense(a)‖ = {err:.3e} > {trunc_tol(float(ref.norm())):.3e}")
        if r.orthogonality_center != 0:
            bad("MPO.apply_to: result not centred at 0")
        z, zr = complex(O.expect(a)), complex(torch.vdot(pa, ref))
        if abs(z - zr) > 1e-9 * max(1.0, float(pa.norm() * ref.norm())):
            bad(f"MPO.expect = {z} ≠ ⟨a|O|a⟩ dense = {zr}")
        unchanged(a, pa, "apply_to/expect (state)")
        if not _close(tu.dense_op(O.factors), M, 1e-9 * max(1.0, float(M.abs().max()))):
            bad("apply_to/expect changed the operator")
    elif kind == "mpo_algebra":
        A, wa = mko(4)
        B, wb = mko(4)
        Ma, Mb = tu.dense_op(wa), tu.dense_op(wb)
        S = A + B
        if not _close(tu.dense_op(S.factors), Ma + Mb, 1e-9 * max(1.0, float((Ma + Mb).abs().max()))):
            bad("MPO.__add__: dense(A+B) ≠ dense A + dense B")
        c = complex(rng.uniform(-2, 2), rng.uniform(-2, 2))
        if not _close(tu.dense_op((c * A).factors), c * Ma, 1e-9 * max(1.0, float(Ma.abs().max()))):
            bad("MPO.__rmul__")
        P = A @ B
        ref = Ma @ Mb
        err = float((tu.dense_op(P.factors) - ref).norm())
        tol = 2 * (n - 1) * 1e-5 + 1e-9 * max(1.0, float(ref.norm()))   # DEFAULT_PRECISION of __matmul__
        if err > tol:
            bad(f"MPO.__matmul__: ‖dense(A@B) − dense A · dense B‖_F = {err:.3e} > {tol:.3e}")
        if not (_close(tu.dense_op(A.factors), Ma, 1e-12) and _close(tu.dense_op(B.factors), Mb, 1e-12)):
            bad("MPO algebra changed an operand")
    elif kind == "site_obs":
        a, fa = mk(center=None)
        pa = tu.dense_state(fa)
        nrm2 = float(pa.norm()) ** 2
        if rng.random() < 0.7:
            a.orthogonalize(rng.randrange(n))
            unchanged(a, pa, "orthogonalize")
        ops = torch.randn(3, d, d, dtype=torch.float64, generator=g) + 1j * torch.randn(3, d, d, dtype=torch.float64, generator=g)
        ops = ops.to(tu.DT)
        eb = a.expect_batch(ops)
        for q in range(n):
            for k in range(3):
                ref = complex(torch.vdot(pa, tu.apply_1site(pa, ops[k], q, n)))
                if abs(complex(eb[q, k]) - ref) > 1e-9 * max(1.0, nrm2 * float(ops[k].abs().max())):
                    bad(f"expect_batch[{q},{k}] = {complex(eb[q, k])} ≠ dense {ref}", q=q, k=k)
                    break
        unchanged(a, pa, "expect_batch")
        cm = a.get_correlation_matrix()
        nop = torch.zeros(d, d, dtype=tu.DT)
        nop[1, 1] = 1.0
        E = [tu.apply_1site(pa, nop, q, n) for q in range(n)]
        for i in range(n):
            for j in range(n):
                ref = complex(torch.vdot(E[i], E[j]))      # n is Hermitian: ⟨n_i ψ| n_j ψ⟩
                if abs(complex(cm[i, j]) - ref) > 1e-9 * max(1.0, nrm2):
                    bad(f"get_correlation_matrix()[{i},{j}] = {complex(cm[i, j])} ≠ ⟨n_i n_j⟩ dense = {ref}")
                    break
        unchanged(a, pa, "get_correlation_matrix")
        k = rng.randrange(n)
        S = float(a.entanglement_entropy(k))
        sv = torch.linalg.svdvals(pa.reshape(d ** (k + 1), -1))
        ref = float(torch.special.entr(sv ** 2).sum())
        if abs(S - ref) > 1e-8 * max(1.0, abs(ref), nrm2):
            bad(f"entanglement_entropy({k}) = {S} ≠ dense {ref}", site=k)
        if a.orthogonality_center != 0:
            bad("entanglement_entropy leaves the centre elsewhere than 0")
        unchanged(a, pa, "entanglement_entropy")
        q = rng.randrange(n)
        a.apply(q, ops[0])
        ref = tu.apply_1site(pa, ops[0], q, n)
        if not _close(tu.dense_state(a.factors), ref, 1e-9 * max(1.0, float(ref.abs().max()))) or a.orthogonality_center != q:
            bad(f"MPS.apply({q}, op): dense ≠ (1⊗op⊗1)·dense, or centre ≠ {q}")
    elif kind == "from_amps":
        bases = [("r", "g"), ("g", "r"), ("0", "1"), ("g", "r", "x"), ("r", "x", "g")]
        eig = rng.choice(bases)
        dd = len(eig)
        one = "1" if "1" in eig else "r"
        lvl = {c: (1 if c == one else 2 if c == "x" else 0) for c in eig}
        nn = rng.randint(2, 7 if dd == 2 else 5)
        amps = {}
        for _ in range(rng.randint(1, 6)):
            amps["".join(rng.choice(eig) for _ in range(nn))] = complex(rng.uniform(-1, 1), rng.uniform(-1, 1))
        if rng.random() < 0.3:   # already normalised input
            z = math.sqrt(sum(abs(v) ** 2 for v in amps.values()))
            amps = {k: v / z for k, v in amps.items()}
        ref = torch.zeros(dd ** nn, dtype=tu.DT)
        for s, v in amps.items():
            ref[tu.index_of([lvl[c] for c in s], dd)] += v
        ref = ref / ref.norm()
        st, _ = MPS._from_state_amplitudes(eigenstates=eig, n_qudits=nn, amplitudes=amps)
        err = float((tu.dense_state(st.factors) - ref).norm())
        if err > 2 * (nn - 1) * len(amps) * 1e-5 + 1e-9:
            bad(f"_from_state_amplitudes: ‖dense − normalised Kronecker sum‖ = {err:.3e}", eig=list(eig), amps={k: [v.real, v.imag] for k, v in amps.items()})
    elif kind == "from_op":
        eig = rng.choice([("r", "g"), ("g", "r"), ("0", "1"), ("g", "r", "x")])
        dd = len(eig)
        zero = "0" if "0" in eig else "g"
        one = "1" if "1" in eig else "r"
        lvl = {zero: 0, one: 1, "x": 2}
        nn = rng.randint(2, 6 if dd == 2 else 4)
        keys = [a + b for a in eig for b in eig]
        terms, ref = [], torch.zeros(dd ** nn, dd ** nn, dtype=tu.DT)
        for _ in range(rng.randint(1, 4)):
            c = complex(rng.uniform(-1, 1), rng.uniform(-1, 1))
            ops, loc = [], [torch.eye(dd, dtype=tu.DT) for _ in range(nn)]
            for _ in range(rng.randint(0, 3)):
                qd = {rng.choice(keys): complex(rng.uniform(-1, 1), rng.uniform(-1, 1)) for _ in range(rng.randint(1, 3))}
                if cs % 2 == 0:
                    # σz-like dictionaries over a small pool of basis strings: first coefficient exactly 1 / −1 / 0,
                    # the same strings are used again by later factors and terms of this call
                    pool = keys[: 3] if cs % 4 == 0 else [keys[0], keys[-1], keys[1]]
                    ks = rng.sample(pool, rng.randint(2, 3))
                    qd = {k: complex(rng.uniform(-1, 1), rng.uniform(-1, 1)) for k in ks}
                    qd[ks[0]] = rng.choice([1, 1.0, 1 + 0j, -1, 0])
                tg = [rng.randrange(nn) for _ in range(rng.randint(1, 3))]
                m = torch.zeros(dd, dd, dtype=tu.DT)
                for k, v in qd.items():
                    m[lvl[k[0]], lvl[k[1]]] += v
                for t in tg:
                    loc[t] = m
                ops.append((qd, tg))
            full = torch.eye(1, dtype=tu.DT)
            for m in loc:
                full = torch.kron(full, m.contiguous())
            ref += c * full
            terms.append((c, ops))
        W, _ = MPO._from_operator_repr(eigenstates=eig, n_qudits=nn, operations=terms)
        if not _close(tu.dense_op(W.factors), ref, 1e-10 * max(1.0, float(ref.abs().max()))):
            bad("_from_operator_repr: dense ≠ Σ coeff·⊗ local operators (last assignment wins)")
    elif kind == "recorded_centre":
        # every public operation on states whose RECORDED centre sits at every site / is None (set the way the code sets
        # it: orthogonalize(k), apply(k, ·), get_correlation_matrix()), then norm()/expect_batch/… of the result vs dense
        n = min(n, 5)
        info["n"] = n
        ops = (torch.randn(2, d, d, dtype=torch.float64, generator=g) + 1j * torch.randn(2, d, d, dtype=torch.float64, generator=g)).to(tu.DT)
        nop = torch.zeros(d, d, dtype=tu.DT)
        nop[1, 1] = 1.0

        def judge(x, v, what, ttol=0.0):
            """x: MPS, v: the dense vector it must represent"""
            sc = max(1.0, float(v.norm()))
            tol = 1e-8 * sc + ttol
            dv = tu.dense_state(x.factors)
            if float((dv - v).norm()) > tol:
                bad(f"{what}: dense(result) deviates by {float((dv - v).norm()):.3e}", what=what)
                return
            c0 = x.orthogonality_center
            nr = float(x.norm())
            if abs(nr - float(v.norm())) > tol:
                bad(f"{what} (recorded centre {c0}): norm() = {nr!r}, dense norm {float(v.norm())!r}", what=what, centre=c0)
            eb = x.expect_batch(ops)
            for q in range(n):
                ref = complex(torch.vdot(v, tu.apply_1site(v, ops[0], q, n)))
                if abs(complex(eb[q, 0]) - ref) > 1e-7 * sc * sc * max(1.0, float(ops[0].abs().max())) + 4 * ttol * sc:
                    bad(f"{what} (recorded centre {c0}): expect_batch[{q}] = {complex(eb[q, 0])} ≠ dense {ref}", what=what, centre=c0)
                    break
            z = complex(x.inner(x))
            if abs(z - float(v.norm()) ** 2) > 1e-7 * sc * sc + 4 * ttol * sc:
                bad(f"{what}: inner(x, x) = {z} ≠ ‖dense‖² = {float(v.norm()) ** 2}", what=what)
            if abs(float(x.overlap(x)) - float(v.norm()) ** 4) > 1e-7 * sc ** 4 + 8 * ttol * sc ** 3:
                bad(f"{what}: overlap(x, x) ≠ ‖dense‖⁴", what=what)
            cm = x.get_correlation_matrix()
            E = [tu.apply_1site(v, nop, q, n) for q in range(n)]
            for i in range(n):
                for j in range(n):
                    if abs(complex(cm[i, j]) - complex(torch.vdot(E[i], E[j]))) > 1e-7 * sc * sc + 4 * ttol * sc:
                        bad(f"{what} (recorded centre {c0}): get_correlation_matrix()[{i},{j}] ≠ dense", what=what, centre=c0)
                        return
            k = rng.randrange(n)
            S = float(x.entanglement_entropy(k))
            sv = torch.linalg.svdvals(v.reshape(d ** (k + 1), -1))
            ref = float(torch.special.entr(sv ** 2).sum())
            if abs(S - ref) > 1e-6 * max(1.0, abs(ref), sc * sc) + 50 * ttol * sc:
                bad(f"{what}: entanglement_entropy({k}) = {S} ≠ dense {ref}", what=what)
            # weights of the first multinomial call of sample(): marginal of site 0
            seen = []

            def spy(w, num_samples=1, **kw):
                seen.append(w.detach().clone())
                return torch.zeros(w.shape[0], 1, dtype=torch.int64)
            with mock.patch("torch.multinomial", spy):
                x.sample(num_shots=1)
            marg = (v.abs() ** 2).reshape(d, -1).sum(dim=1)
            if float((seen[0][0].real - marg).abs().max()) > 1e-7 * sc * sc + 4 * ttol * sc:
                bad(f"{what} (recorded centre {c0}): sample() weights of site 0 {seen[0][0].tolist()} ≠ dense marginal {marg.tolist()}", what=what)

        for kc in [None] + list(range(n)):
            how = rng.choice(["orthogonalize", "apply", "corr"]) if kc is not None else "none"
            a, fa = mk(dmax=6, center=None)
            v = tu.dense_state(fa)
            if how == "orthogonalize":
                a.orthogonalize(kc)
            elif how == "apply":
                a.apply(kc, ops[1])
                v = tu.apply_1site(v, ops[1], kc, n)
            elif how == "corr":
                a.get_correlation_matrix()          # leaves the centre on the last site
            tag = f"centre set by {how}({kc})"
            if how != "none" and a.orthogonality_center is None:
                bad(f"{tag}: no centre recorded")
            c = complex(rng.uniform(-2, 2), rng.uniform(-2, 2))
            judge(c * a, c * v, f"c*state, {tag}")
            judge(a, v, f"operand after c*state, {tag}")
            a2 = _mps(MPS, [f.clone() for f in a.factors], d, center=a.orthogonality_center, precision=prec)
            a2 *= c
            judge(a2, c * v, f"state *= c, {tag}")
            b, fb = mk(dmax=4)
            judge(a + b, v + tu.dense_state(fb), f"state + other, {tag}", ttol=2 * (n - 1) * prec)
            q = rng.randrange(n)
            a.apply(q, ops[0])
            judge(a, tu.apply_1site(v, ops[0], q, n), f"apply({q}) after {tag}")
            if fails:
                break
    elif kind == "value_semantics":
        # no aliasing: after any algebra operation, mutating the result must not change an operand, and vice versa.
        # Scalars exactly 1 / 1.0 / 1+0j / -1 / 0 included (a "multiply by one is a no-op" shortcut must still copy).
        n = min(n, 5)
        info["n"] = n
        ops = (torch.randn(2, d, d, dtype=torch.float64, generator=g) + 1j * torch.randn(2, d, d, dtype=torch.float64, generator=g)).to(tu.DT)

        def mutate(x, how):
            if how == "corr":
                x.get_correlation_matrix()
            elif how == "entropy":
                x.entanglement_entropy(rng.randrange(n))
            elif how == "orthogonalize":
                x.orthogonalize(rng.randrange(n))
            elif how == "apply":
                x.apply(rng.randrange(n), ops[1])
            elif how == "truncate":
                x.truncate()
            elif how == "sample":
                x.sample(num_shots=3)

        MUTS = ["corr", "entropy", "orthogonalize", "apply", "truncate", "sample"]
        scalars = [1, 1.0, 1 + 0j, -1, 0, torch.tensor(1.0), complex(rng.uniform(-2, 2), rng.uniform(-2, 2))]
        for trial in range(10):
            a, fa = mk(dmax=6, center=None)
            va = tu.dense_state(fa)
            start = rng.choice([None, "orth", "apply"])
            if start == "orth":
                a.orthogonalize(rng.randrange(n))
            elif start == "apply":
                q0 = rng.randrange(n)
                a.apply(q0, ops[0])
                va = tu.apply_1site(va, ops[0], q0, n)
            b, fb = mk(dmax=4)
            vb = tu.dense_state(fb)
            opname = rng.choice(["rmul", "rmul", "rmul", "imul", "add", "apply_to"])
            others = []
            if opname in ("rmul", "imul"):
                c = scalars[trial % len(scalars)] if trial < len(scalars) else rng.choice(scalars)
                r = (c * a) if opname == "rmul" else a.__imul__(c)
                vr = complex(c) * va
                opname = f"{opname} by {c!r}"
            elif opname == "add":
                r = a + b
                vr = va + vb
                others = [("other", b, vb)]
            else:
                O, ws = mko(3)
                r = O.apply_to(a)
                vr = tu.dense_op(ws) @ va
            ttol = 2 * (n - 1) * prec if ("add" in opname or "apply_to" in opname) else 0.0
            how = rng.choice(MUTS)
            if how == "sample" and float(vr.norm()) == 0.0:
                how = "corr"            # the zero vector cannot be sampled (torch.multinomial rejects it)
            tag = f"{opname} (operand prepared by {start}), then {how} on the "
            if r.factors is a.factors:
                bad(f"{opname}: the result shares its `factors` list object with the operand", op=opname)
            # mutate the result, re-read the operands
            try:
                mutate(r, how)
            except Exception as e:
                bad(f"{tag}result raised {type(e).__name__}: {e}", op=opname, mutation=how)
                break
            for nm, x, v in [("self", a, va)] + others:
                msg = _reread(tu, torch, x, v, ops, n, 1e-8)
                if msg:
                    bad(f"{tag}RESULT changed the operand `{nm}`: {msg}", op=opname, mutation=how)
            # and the other way round: mutate the operand, re-read the result
            if how == "apply":
                vr_now = tu.dense_state(r.factors)      # the result was changed on purpose by apply()
            else:
                vr_now = vr
            how2 = rng.choice(MUTS)
            try:
                mutate(a, how2)
            except Exception as e:
                bad(f"{opname}, then {how2} on the operand raised {type(e).__name__}: {e}", op=opname, mutation=how2)
                break
            msg = _reread(tu, torch, r, vr_now, ops, n, 1e-8 + ttol)
            if msg:
                bad(f"{opname}, then {how2} on the OPERAND changed the result: {msg}", op=opname, mutation=how2)
            if fails:
                break
        # MPO: list-level value semantics (there is no public mutating MPO operation; update_H writes into `factors`)
        O, ws = mko(3)
        M = tu.dense_op(ws)
        for c in [1, 1.0, 1 + 0j, -1, 0, complex(rng.uniform(-2, 2), rng.uniform(-2, 2))]:
            R = c * O
            if R.factors is O.factors:
                bad(f"MPO.__rmul__ by {c!r}: the result shares its `factors` list object with the operand")
            if not _close(tu.dense_op(R.factors), complex(c) * M, 1e-9 * max(1.0, float(M.abs().max()))):
                bad(f"MPO.__rmul__ by {c!r}: dense(c·O) ≠ c·dense(O)")
            R.factors[0] = 2.0 * R.factors[0]
            if not _close(tu.dense_op(O.factors), M, 1e-12):
                bad(f"writing a factor of c·O (c = {c!r}) changed O")
        P2, w2 = mko(3)
        for R, nm in ((O + P2, "+"), (O @ P2, "@")):
            R.factors[-1] = 3.0 * R.factors[-1]
            if not (_close(tu.dense_op(O.factors), M, 1e-12) and _close(tu.dense_op(P2.factors), tu.dense_op(w2), 1e-12)):
                bad(f"writing a factor of O {nm} P changed an operand")
    elif kind == "corr_custom":
        # the two Lean witnesses (Props.C11.corr_*_counterexample) replayed on the real code
        A0 = torch.tensor([[[1.0], [1.0j]]], dtype=tu.DT)
        for (b0, b1), O, (i, j), documented, klass in (
                ((1.0, 1.0), torch.tensor([[0, 1 - 1j], [1 + 1j, 0]], dtype=tu.DT), (0, 1), 4.0, "corr-matrix-operator-transposed"),
                ((1.0, 0.0), torch.tensor([[0, 0], [0, 2.0]], dtype=tu.DT), (0, 0), 4.0, "corr-matrix-diagonal-single-operator")):
            B0 = torch.tensor([[[b0], [b1]]], dtype=tu.DT)
            w = MPS([A0.clone(), B0.clone()], eigenstates=EIG[2], num_gpus_to_use=0)
            got = complex(w.get_correlation_matrix(operator=O)[i, j])
            if abs(got - documented) > 1e-9:
                fails.append((f"Lean witness: get_correlation_matrix(O)[{i},{j}] = {got.real:.6g} on (1,i)⊗({b0:g},{b1:g}), documented "
                              f"⟨O_{i} O_{j}⟩ = {documented:g}", dict(info, witness=True), klass))
        a, fa = mk(dmax=6)
        pa = tu.dense_state(fa)
        nrm2 = float(pa.norm()) ** 2
        H = torch.randn(d, d, dtype=torch.float64, generator=g) + 1j * torch.randn(d, d, dtype=torch.float64, generator=g)
        H = (H + H.conj().T).to(tu.DT)       # Hermitian, not symmetric, not idempotent
        cm = a.get_correlation_matrix(operator=H)
        E = [tu.apply_1site(pa, H, q, n) for q in range(n)]
        off = diag = 0.0
        for i in range(n):
            for j in range(n):
                ref = complex(torch.vdot(E[i], E[j]))      # H Hermitian: ⟨H_i ψ| H_j ψ⟩ = ⟨ψ|H_i H_j|ψ⟩
                dev = abs(complex(cm[i, j]) - ref)
                if i == j:
                    diag = max(diag, dev)
                else:
                    off = max(off, dev)
        tol = 1e-8 * max(1.0, nrm2 * float(H.abs().max()) ** 2)
        if off > tol:
            bad(f"get_correlation_matrix(operator=H) off-diagonal deviates from ⟨H_i H_j⟩ by {off:.3e} (Hᵀ contracted? fixed by 7ffda71)",
                klass="corr-matrix-operator-transposed")
        if diag > tol:
            bad(f"get_correlation_matrix(operator=H) diagonal deviates from ⟨H_i H_i⟩ by {diag:.3e} (it returns ⟨H_i⟩)",
                klass="corr-matrix-diagonal-single-operator")
        # real symmetric idempotent-free operator: off-diagonal must be right even as found
        Sx = torch.zeros(d, d, dtype=tu.DT)
        Sx[0, 1] = Sx[1, 0] = 1.0
        cm = a.get_correlation_matrix(operator=Sx)
        E = [tu.apply_1site(pa, Sx, q, n) for q in range(n)]
        for i in range(n):
            for j in range(n):
                if i != j:
                    ref = complex(torch.vdot(E[i], E[j]))
                    if abs(complex(cm[i, j]) - ref.real) > 1e-8 * max(1.0, nrm2):
                        bad(f"get_correlation_matrix(σx)[{i},{j}] ≠ Re⟨σx_i σx_j⟩")
                        break
    return fails


def run_oracle(rep: Report, rng, count: int, first_only=False) -> None:
    for i in range(count):
        kind = ORACLE_KINDS[i % len(ORACLE_KINDS)]
        cs = rng.randrange(2 ** 31)
        try:
            fails = oracle_case(kind, cs)
        except Exception as e:   # the real code misbehaving on a valid input is a finding candidate
            import traceback
            fails = [(f"real code raised {type(e).__name__}: {e}", {"kind": kind, "case_seed": cs,
                                                                  "trace": traceback.format_exc()[-600:]}, None)]
        rep.case(key=("oracle", kind, cs), nontrivial=True, trace=False)
        rep.hist("oracle_kind", kind)
        for msg, data, klass in fails:
            rep.fail(msg, data, klass=klass)
        if first_only and any(k is None for _, _, k in fails):
            return


# =============================================================================== check / search / replay
def check(rep: Report, tier: str, seed: int) -> None:
    rep.rule = ("correspondence cases = random matrix products with Gaussian-integer entries (2–8 sites, bonds 1–16 incl. "
                "rank-deficient ones, dims 2/3, MPS and MPO factors) + rejecting inputs (length / dimension mismatch, unknown "
                "operator key, target out of range); every factor entry / scalar compared exactly; qr replaced by q=m·U, r=U⁻¹ "
                "(U unimodular) or recorded from the real kernel (binary64 model, tol 1e-10). oracle cases = random complex "
                "Gaussian MPS/MPO, precision ∈ {1e-3,1e-5,1e-6}, tolerance 2(n−1)·precision + 1e-9·scale for truncating ops, "
                "1e-9·scale otherwise. non-trivial = every case; distinct = distinct driver lines / (kind, case seed)")
    rep.assumptions = [
        "torch.linalg.qr: only q·r = m is used (validated: recorded tapes reproduce the real factors to 1e-10)",
        "truncate_impl / eigh (C10): discarded weight per bond ≤ precision² — TruncationFaithful is stated, not proved; "
        "validated by the dense oracle with tolerance 2(n−1)·precision + 1e-9·scale",
        "torch.linalg.svdvals for entanglement_entropy (validated against a dense SVD)",
        "binary64 rounding is outside the theorems",
    ]
    import logging
    import torch
    torch.manual_seed(seed)
    torch.set_num_threads(1)          # small tensors: threads only add contention
    logging.getLogger("emulators").setLevel(logging.ERROR)   # "not normalized" chatter of _from_state_amplitudes
    lean_stage(rep, PROP_MODULE, AUDIT, thorough=(tier == "thorough"))
    rng = seeded(seed * 7919 + 11)
    try:
        C = gen_correspondence(rep, rng, tier)
    except Exception as e:
        # the real code raising on a mostly-valid generated input: hand it to the oracle/search as a broken correspondence
        import traceback
        rep.broke("correspondence generation: real code raised " + traceback.format_exc()[-700:])
        C = None
    if C is not None:
        C.run()
    run_oracle(rep, rng, 90 if tier == "quick" else 2500)
    if rep.broken and not any(f["class"] is None for f in rep.failing):
        search(rep, seed, 400 if tier == "quick" else 6000)


def search(rep: Report, seed: int, n: int) -> None:
    """Failing-input search on the real code only: the dense-reference oracle on many more inputs."""
    rng = seeded(seed * 104729 + 11)
    run_oracle(rep, rng, n, first_only=True)
    rep.extra["search_cases"] = n


def replay(rep: Report, path: str) -> int:
    data = json.load(open(path))
    bad = 0
    for f in data.get("failing_inputs", []):
        d = f["data"]
        fails = oracle_case(d["kind"], d["case_seed"])
        for msg, _, klass in fails:
            print("replay:", msg, f"[{klass}]" if klass else "")
        if not fails:
            print("replay: property holds on this input now")
        bad += bool(fails)
    return 1 if bad else 0
