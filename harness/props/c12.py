"""C12 — emu-sv state-vector / density-matrix / dense & sparse operator objects are faithful to their
definitions (emu_sv/state_vector.py, density_matrix_state.py, dense_operator.py, sparse_operator.py).

Lean: EmuVerif.Props.C12 over Model.SvState/TreeVec. Correspondence: the real classes vs the model run at
Gaussian rationals on dyadic inputs — exact; normalisation (sqrt, division) and |.|^2 via the norm tape with
1e-12 relative tolerance. Oracle (always on): independent numpy constructions on random complex inputs.
"""
from __future__ import annotations

import json
import warnings
from fractions import Fraction
from unittest import mock

from harness.common import Driver, LeanError, Report, lean_stage, seeded
from harness.props.extra_stage import ExtraLeanStage

REGISTRY = dict(
    text=("Lean 4 theorems for every qubit number and all inputs (scalars: any commutative star ring with the complex laws; "
          "norms over Cx a, a any ordered field): int(bits,2) with r/1->1, g/0->0 is sum_q bit_q 2^(n-1-q) (qubit 0 most "
          "significant), indexing/assignment by that index is addressing by qubit bits, out-of-range is rejected, the "
          "amplitude loop writes exactly the addressed entries; _normalize gives norm 1 (given the vector_norm contract) or "
          "leaves the data untouched; vdot is sum conj(a_i) b_i, conjugate-symmetric and linear; apply_to/__matmul__/expect on "
          "row-major tensors are the matrix-vector/matrix-matrix products and <psi|A psi>; from_state_vector has entries "
          "psi_r conj(psi_c), is Hermitian, acts as |psi><psi|, has trace <psi|psi>, and overlap of pure states is |<psi|phi>|^2; "
          "reduce(torch.kron, gates)[r,c] = prod_q gate_q[r_q,c_q]; targets are assigned last-writer-wins with Python negative "
          "indices; the four basis symbols are |row><col|; sparse coalesce/sparse_add/scaling/sparse_kron on bags of "
          "(row,col,val) denote the same matrix / the sum / the multiple / the Kronecker product (index form). The "
          "end-to-end statement 'sparse _from_operator_repr denotes the dense one' (SparseReprEqualsDenseRepr, a Prop in "
          "Props/C12.lean) is PROVED in Props/C12Sparse.lean (audited on every run): from_operator_repr_rel - for every symbol "
          "table, recursion budget (nested symbolic operators included), qubit number, terms, factors and targets the sparse and "
          "the dense constructor raise on exactly the same representations and otherwise den(S)[r,c] = A[r,c] for all r,c < 2^n "
          "(build_rel, gates_rel, kron_fold_sparse_eq_dense: induction over symbols, factors/targets and the Kronecker fold with "
          "the index-bound invariant), sparseReprEqualsDenseRepr_holds, sparse_repr_raises_iff_dense_raises. Not modelled: "
          ".to_sparse_csr() and torch's CSR kernels (validated by the correspondence and the dense-vs-sparse oracle). Nested "
          "symbolic operators are modelled (symbol table with fuel) but "
          "unreachable in this version of the code (the table only ever holds the four basis tensors)."),
    note=("Trusted: Lean kernel + propext/Classical.choice/Quot.sound; Mathlib; hand-written Model.SvState tied by exact "
          "correspondence only; torch.linalg.vector_norm / torch.abs enter as a tape (contract nrm^2 = sum|a_i|^2 validated to "
          "1e-13); zero vectors (division by a zero norm -> NaN) are outside the model; binary64 rounding outside the theorems."),
    technique="Lean 4 proof (induction on the qubit tree / lists) + exact model/implementation correspondence + numpy oracle",
    design_ref="DESIGN.md §5 C12",
)

PROP_MODULE = "EmuVerif.Props.C12"
AUDIT = "Audit/C12.lean"
EXTRA_STAGES = [("EmuVerif.Props.C12Sparse", "Audit/C12Sparse.lean")]    # sparse constructor = dense constructor; every run
RTOL_TAPE = 1e-12
RTOL_ORACLE = 1e-10
STATE = {"sparse_unsafe": False}
BASIS = {"gg": [[1, 0], [0, 0]], "rg": [[0, 0], [1, 0]], "gr": [[0, 1], [0, 0]], "rr": [[0, 0], [0, 1]]}


def _imports():
    import numpy as np
    import torch
    from harness import compat
    compat.install()
    from harness import treevec_io as tio
    from emu_sv.state_vector import StateVector
    from emu_sv.density_matrix_state import DensityMatrix
    from emu_sv.dense_operator import DenseOperator
    from emu_sv.sparse_operator import SparseOperator, sparse_add, sparse_kron
    return np, torch, tio, StateVector, DensityMatrix, DenseOperator, SparseOperator, sparse_add, sparse_kron


# ------------------------------------------------------------------ generators
def gen_amps(rng, tio, n):
    mode = rng.choice(["sparse", "sparse", "full", "single", "unit", "badchar", "long", "short", "digits"])
    keys = ["".join(rng.choice("rg") for _ in range(n)) for _ in range(rng.randint(1, 4))]
    if mode == "full" and n <= 4:
        keys = [format(i, f"0{n}b").replace("1", "r").replace("0", "g") for i in range(2 ** n)]
        rng.shuffle(keys)
    elif mode == "single" or mode == "unit":
        keys = keys[:1]
    elif mode == "badchar":
        k = list(keys[-1]); k[rng.randrange(n)] = rng.choice("xeR"); keys[-1] = "".join(k)
    elif mode == "long":
        keys[-1] = "r" + keys[-1]
    elif mode == "short" and n > 1:
        keys[-1] = keys[-1][1:]
    elif mode == "digits":
        keys[-1] = keys[-1].replace("r", "1", 1).replace("g", "0", 1)
    amps = {}
    for k in keys:
        z = tio.cdyad(rng, 2, 4)
        amps[k] = z if z != 0 else 1.0 + 0j
    if mode == "unit":
        amps[keys[0]] = rng.choice([1.0 + 0j, -1.0 + 0j, 1j])
    return mode, amps


def gen_ops(rng, tio, torch, n):
    """a FullOp: list of (coeff, [(QuditOp | tensor, targets)])"""
    if n >= 3 and rng.random() < 0.4:
        # sums of tensor products on disjoint qubits, e.g. 2 X_0 Z_1 + 0.5j n_2: a term with several single-target factors followed by
        # terms that do not touch those qubits (nothing may leak from one term into the next)
        X = {"gr": 1.0 + 0j, "rg": 1.0 + 0j}
        Z = {"gg": 1.0 + 0j, "rr": -1.0 + 0j}
        N = {"rr": 1.0 + 0j}
        Y = {"gr": -1j, "rg": 1j}
        ops = []
        for _ in range(rng.randint(2, 4)):
            qs = rng.sample(range(n), rng.randint(1, min(3, n)))
            factors = [(dict(rng.choice([X, Z, N, Y])), [q if rng.random() < 0.8 else q - n]) for q in qs]
            if rng.random() < 0.3:                                   # one factor acting on two qubits at once
                factors[-1] = (factors[-1][0], factors[-1][1] + [rng.choice([q for q in range(n)])])
            ops.append((rng.choice([2.0 + 0j, 0.5j, -1.0 + 0j, tio.cdyad(rng, 1, 2)]), factors))
        return "structured", ops
    ops = []
    kind = "ok"
    for _ in range(rng.randint(0, 3)):
        factors = []
        for _ in range(rng.randint(0, 3)):
            if rng.random() < 0.2:
                sym = tio.rand_m2(rng, "dense")
            else:
                names = rng.sample(list(BASIS), rng.randint(1, 3))
                sym = {k: tio.cdyad(rng, 1, 2) for k in names}
            tg = [rng.randint(-n, n - 1) for _ in range(rng.randint(0, 3))]
            r = rng.random()
            if r < 0.04:
                tg.append(rng.choice([n, -n - 1, n + 3]))
                kind = "badtarget"
            elif r < 0.07 and isinstance(sym, dict):
                sym["xx"] = 1.0 + 0j
                kind = "badsymbol"
            factors.append((sym, tg))
        ops.append((tio.cdyad(rng, 1, 2), factors))
    return kind, ops


def enc_ops(tio, ops):
    ts = []
    for c, fs in ops:
        ff = []
        for sym, tg in fs:
            if isinstance(sym, dict):
                e = "E" + "+".join(f"{k}={tio.cs(v)}" for k, v in sym.items())
            else:
                e = "T" + tio.tlist(sym)
            ff.append(e + "~" + ".".join(str(t) for t in tg))
        ts.append(tio.cs(c) + "@" + "&".join(ff))
    return "|".join(ts) if ts else "-"


def sparse_ops(ops):
    return [(c, [((s if isinstance(s, dict) else s.to_sparse_coo()), t) for s, t in fs]) for c, fs in ops]


def coo_entries(t):
    """canonical (row, col, value) list of a sparse COO tensor: sorted, duplicates summed exactly"""
    idx = t._indices().tolist()
    vals = t._values().tolist()
    acc = {}
    for r, c, v in zip(idx[0], idx[1], vals):
        v = complex(v)
        key = (int(r), int(c))
        a = acc.get(key, (Fraction(0), Fraction(0)))
        acc[key] = (a[0] + Fraction(v.real), a[1] + Fraction(v.imag))
    return [(r, c, acc[(r, c)]) for r, c in sorted(acc)]


def parse_coo(reply):
    body = reply[3:] if len(reply) > 3 else "-"
    out = []
    if body not in ("-", ""):
        for t in body.split(","):
            r, c, v = t.split(";")
            re_, im_ = v.split(":")
            out.append((int(r), int(c), (Fraction(re_), Fraction(im_))))
    return out


def rand_coo(rng, tio, torch, rows, cols):
    k = rng.randint(0, 6)
    idx = [[rng.randrange(rows) for _ in range(k)], [rng.randrange(cols) for _ in range(k)]]
    vals = [tio.cdyad(rng, 1, 2) for _ in range(k)]
    return torch.sparse_coo_tensor(torch.tensor(idx, dtype=torch.int64).reshape(2, k), torch.tensor(vals, dtype=tio.C128), (rows, cols))


def enc_coo(tio, t):
    idx = t._indices().tolist()
    vals = t._values().tolist()
    es = [f"{r};{c};{tio.cs(v)}" for r, c, v in zip(idx[0], idx[1], vals)]
    return ",".join(es) if es else "-"


# ------------------------------------------------------------------ correspondence
def correspondence(rep: Report, rng, tier: str) -> None:
    np, torch, tio, SV, DM, DO, SO, sparse_add, sparse_kron = _imports()
    quick = tier == "quick"
    lines, expect, meta = [], [], []

    def add(line, kind, value, m):
        lines.append(line); expect.append((kind, value)); meta.append(m)

    def dvec(n, bits=1, span=2):
        return torch.tensor([tio.cdyad(rng, bits, span) for _ in range(2 ** n)], dtype=tio.C128)

    def dmat(n):
        return torch.tensor([[tio.cdyad(rng, 1, 2) for _ in range(2 ** n)] for _ in range(2 ** n)], dtype=tio.C128)

    # --- sparse_kron / sparse_add on raw (uncoalesced) bags — first, with an immediate numpy check: a wrong index
    # map makes torch abort the process later (out-of-range sparse indices), so the constructor is only run if this passes
    for i in range(40 if quick else 400):
        ra, ca, rb, cb = (rng.randint(1, 4) for _ in range(4))
        a, b = rand_coo(rng, tio, torch, ra, ca), rand_coo(rng, tio, torch, rb, cb)
        k = sparse_kron(a, b)
        ents = coo_entries(k)
        dense = np.zeros((ra * rb, ca * cb), dtype=complex)
        ok = tuple(k.shape) == (ra * rb, ca * cb) and all(r < ra * rb and c < ca * cb for r, c, _ in ents)
        if ok:
            for r, c, v in ents:
                dense[r, c] = complex(float(v[0]), float(v[1]))
            ok = bool((dense == np.kron(a.to_dense().numpy(), b.to_dense().numpy())).all())
        if not ok:
            STATE["sparse_unsafe"] = True
            rep.fail("sparse_kron(a, b) is not the Kronecker product of the matrices a and b denote",
                     dict(kind="sparse_kron", a=enc_coo(tio, a), b=enc_coo(tio, b), shape_a=[ra, ca], shape_b=[rb, cb],
                          got=[[r, c, float(v[0]), float(v[1])] for r, c, v in ents]))
        add(f"sp.kron {rb} {cb} {enc_coo(tio, a)} {enc_coo(tio, b)}", "coo", ents,
            dict(what="sparse_kron", a=enc_coo(tio, a), b=enc_coo(tio, b), shape_b=[rb, cb]))
        b2 = rand_coo(rng, tio, torch, ra, ca)
        ac, bc = a.coalesce(), b2.coalesce()      # `.indices()` in sparse_add requires coalesced operands
        add(f"sp.add {enc_coo(tio, ac)} {enc_coo(tio, bc)}", "coo", coo_entries(sparse_add(ac, bc)),
            dict(what="sparse_add", a=enc_coo(tio, ac), b=enc_coo(tio, bc)))
    if STATE["sparse_unsafe"]:
        rep.notes.append("sparse_kron failed its direct check: SparseOperator._from_operator_repr is not executed in this run "
                         "(out-of-range sparse indices abort the interpreter)")

    # --- _from_state_amplitudes (StateVector and DensityMatrix)
    orig_norm = torch.linalg.vector_norm
    for i in range(70 if quick else 700):
        n = rng.randint(1, 8)
        mode, amps = gen_amps(rng, tio, n)
        eig = rng.choice([("r", "g"), ("r", "g"), ("r", "g"), ("g", "r"), ("0", "1"), ("r", "x"), ("r",)])
        rec = []

        def vn(x, *a, **k):
            r = orig_norm(x, *a, **k); rec.append(float(r)); return r
        try:
            with mock.patch("torch.linalg.vector_norm", vn):
                st, _ = SV._from_state_amplitudes(eigenstates=eig, n_qudits=n, amplitudes=amps)
            kind, val = "tol", st.data
        except (ValueError, IndexError, NotImplementedError) as e:
            kind, val = "raise", type(e).__name__
        nrm = rec[0] if rec else 1.0
        am = ",".join(f"{k}={tio.cs(v)}" for k, v in amps.items())
        m = dict(what="StateVector._from_state_amplitudes", n=n, mode=mode, eig=list(eig),
                 amps={k: [v.real, v.imag] for k, v in amps.items()})
        add(f"sv.amps {n} {','.join(eig)} {am} {tio.qs(1e-12)} {tio.qs(nrm)}", kind, val, m)
        rep.hist("amps_mode", mode if kind != "raise" else f"{mode}->{val}")
        if kind != "raise":
            # the norm tape's contract: nrm >= 0 and nrm^2 = sum |a_i|^2 of the raw vector
            raw = sum(abs(complex(v)) ** 2 for k, v in _last_wins(amps, n).items())
            if abs(nrm * nrm - raw) > 1e-13 * max(1.0, raw):
                rep.broke(f"tape contract vector_norm^2 = sum|a|^2 violated: {nrm}^2 vs {raw}")

    # --- inner / overlap / norm / + / scalar *
    for i in range(30 if quick else 300):
        n = rng.randint(1, 8)
        a, b = dvec(n), dvec(n)
        c = tio.cdyad(rng, 1, 2)
        sa, sb = SV(a, gpu=False), SV(b, gpu=False)
        res = torch.cat([sa.inner(sb).reshape(1), sa.overlap(sb).to(tio.C128).reshape(1),
                         (sa.norm() ** 2).to(tio.C128).reshape(1), (c * sa + sb).data])
        add(f"sv.lin {n} {tio.cs(c)} {tio.tlist(a)} {tio.tlist(b)}", "tol", res,
            dict(what="StateVector.inner/overlap/norm/__add__/__rmul__", n=n))
        add(f"sv.lin {n} {tio.cs(c)} {tio.tlist(a)} {tio.tlist(b)}", "exact-skip2", res,
            dict(what="StateVector.inner/__add__/__rmul__ (exact part)", n=n))

    # --- dense operator algebra, density matrices
    for i in range(24 if quick else 200):
        n = rng.randint(1, 4 if quick else 5)
        A, B, v = dmat(n), dmat(n), dvec(n)
        oa, ob, sv = DO(A, gpu=False), DO(B, gpu=False), SV(v, gpu=False)
        res = torch.cat([oa.apply_to(sv).data, oa.expect(sv).reshape(1), (oa @ ob).data.reshape(-1)])
        add(f"op.alg {n} {tio.tlist(A)} {tio.tlist(B)} {tio.tlist(v)}", "exact", res,
            dict(what="DenseOperator.apply_to/expect/__matmul__", n=n))
        n2 = rng.randint(1, 5)
        p, q = dvec(n2), dvec(n2)
        rp, rq = DM.from_state_vector(SV(p, gpu=False)), DM.from_state_vector(SV(q, gpu=False))
        res = torch.cat([rp.data.reshape(-1), rp.overlap(rq).reshape(1), torch.trace(rp.data).reshape(1)])
        add(f"dm.fromsv {n2} {tio.tlist(p)} {tio.tlist(q)}", "exact", res,
            dict(what="DensityMatrix.from_state_vector/overlap", n=n2))

    # --- _from_operator_repr, dense and sparse
    for i in range(60 if quick else 600):
        n = rng.randint(1, 5 if quick else 6)
        kind_g, ops = gen_ops(rng, tio, torch, n)
        enc = enc_ops(tio, ops)
        m = dict(what="DenseOperator._from_operator_repr", n=n, ops=enc)
        try:
            D, _ = DO._from_operator_repr(eigenstates=("r", "g"), n_qudits=n, operations=ops)
            add(f"op.repr {n} {enc}", "exact", D.data, m)
        except (KeyError, IndexError, TypeError) as e:
            D = None
            add(f"op.repr {n} {enc}", "raise", type(e).__name__, m)
        except Exception as e:
            D = None
            rep.fail(f"DenseOperator._from_operator_repr raised {type(e).__name__}: {e}", dict(n=n, ops=enc, kind="repr", ops_json=ops_json(ops)))
            add(f"op.repr {n} {enc}", "raise", type(e).__name__, m)
        if STATE["sparse_unsafe"]:
            continue
        try:
            with warnings.catch_warnings():
                warnings.simplefilter("ignore")
                S, _ = SO._from_operator_repr(eigenstates=("r", "g"), n_qudits=n, operations=sparse_ops(ops))
                coo = S.data.to_sparse_coo()
            add(f"op.reprs {n} {enc}", "coo", coo_entries(coo), dict(m, what="SparseOperator._from_operator_repr"))
            if D is not None and not torch.equal(S.data.to_dense(), D.data):
                rep.fail("sparse and dense _from_operator_repr disagree", dict(n=n, ops=enc, kind="repr", ops_json=ops_json(ops)))
        except (KeyError, IndexError, TypeError) as e:
            add(f"op.reprs {n} {enc}", "raise", type(e).__name__, dict(m, what="SparseOperator._from_operator_repr"))
        except Exception as e:
            rep.fail(f"SparseOperator._from_operator_repr raised {type(e).__name__}: {e}", dict(n=n, ops=enc, kind="repr", ops_json=ops_json(ops)))
        rep.hist("repr_kind", kind_g)
        rep.hist("repr_terms", len(ops))

    import time
    t0 = time.time()
    try:
        out = Driver().batch(lines)
    except LeanError as e:
        rep.broke("driver: " + str(e)[-800:])
        return
    rep.extra["driver_s"] = round(time.time() - t0, 1)
    dis, worst = 0, 0.0
    for line, reply, (kind, val), m in zip(lines, out, expect, meta):
        rep.case(key=hash(line), nontrivial=kind != "raise", sample={"what": m["what"], "n": m.get("n")})
        if kind == "raise":
            bad = None if reply == "err" else f"implementation raised {val}, model replied {reply[:30]!r}"
        elif kind == "exact":
            bad = tio.compare_exact(reply, val)
        elif kind == "exact-skip2":
            # entries 1,2 (|inner|^2 through torch.abs, norm^2 through sqrt) are tolerance-only
            r = reply.split(",")
            keep = "ok " + ",".join([r[0][3:]] + r[3:]) if reply.startswith("ok ") else reply
            bad = tio.compare_exact(keep, torch.cat([val[:1], val[3:]]))
        elif kind == "coo":
            mo = parse_coo(reply) if reply.startswith("ok") else None
            bad = None if mo == val else f"entries differ: model {str(mo)[:160]} impl {str(val)[:160]}"
        else:
            bad, err = tio.compare_tol(reply, val, RTOL_TAPE)
            worst = max(worst, err)
        if bad:
            dis += 1
            if dis <= 4:
                rep.broke(f"correspondence {m['what']}: {bad}; input={json.dumps(m)[:600]}")
    rep.extra["correspondence_cases"] = len(lines)
    rep.extra["correspondence_disagreements"] = dis
    rep.extra["tolerance_stream_max_rel_err"] = worst


def _last_wins(amps, n):
    """what the amplitude loop leaves in the vector (keys may collide after the r/g/0/1 mapping)"""
    out = {}
    for k, v in amps.items():
        out[int(k.replace("r", "1").replace("g", "0"), 2)] = v
    return out


# ------------------------------------------------------------------ oracle on the real code
def np_from_repr(np, n, ops):
    I2 = np.eye(2, dtype=complex)
    acc = np.zeros((2 ** n, 2 ** n), dtype=complex)
    for c, fs in ops:
        gates = [I2] * n
        for sym, tg in fs:
            f = sum((np.array(BASIS[k], dtype=complex) * v for k, v in sym.items()), np.zeros((2, 2), dtype=complex)) \
                if isinstance(sym, dict) else sym.numpy()
            for t in tg:
                gates[t] = f
        m = np.array([[1.0 + 0j]])
        for g in gates:
            m = np.kron(m, g)
        acc = acc + c * m
    return acc


def oracle(rep: Report, rng, count: int) -> None:
    np, torch, tio, SV, DM, DO, SO, sparse_add, sparse_kron = _imports()
    g = lambda: complex(rng.gauss(0, 1), rng.gauss(0, 1))
    worst = 0.0

    def chk(what, got, ref, data):
        nonlocal worst
        got, ref = np.asarray(got), np.asarray(ref)
        err = float(abs(got - ref).max()) / (float(abs(ref).max()) + 1.0) if got.shape == ref.shape else float("inf")
        worst = max(worst, err)
        if not err <= RTOL_ORACLE:
            rep.fail(f"{what}: differs from the numpy definition by {err:.3e} (rel) > {RTOL_ORACLE:.0e}", data)

    for i in range(count):
        n = rng.randint(1, 8)
        rep.case(key=("oracle", i), nontrivial=True, trace=False)
        try:
            # amplitudes
            keys = list({"".join(rng.choice("rg") for _ in range(n)) for _ in range(rng.randint(1, 6))})
            amps = {k: g() for k in keys}
            eig = rng.choice([("r", "g"), ("g", "r")])      # the order of `eigenstates` must not matter: r is always 1
            st, _ = SV._from_state_amplitudes(eigenstates=eig, n_qudits=n, amplitudes=amps)
            ref = np.zeros(2 ** n, dtype=complex)
            for k, v in amps.items():
                ref[sum(2 ** (n - 1 - q) for q, ch in enumerate(k) if ch == "r")] = v
            ref = ref / np.linalg.norm(ref)
            data = dict(kind="amps", n=n, eig=list(eig), amps={k: [v.real, v.imag] for k, v in amps.items()})
            chk(f"_from_state_amplitudes(eigenstates={eig})", st.data.numpy(), ref, data)
            dm, _ = DM._from_state_amplitudes(eigenstates=eig, n_qudits=n, amplitudes=amps)
            chk("DensityMatrix._from_state_amplitudes", dm.data.numpy(), np.outer(ref, ref.conj()), data)
            # vector algebra
            a = torch.tensor([g() for _ in range(2 ** n)], dtype=tio.C128)
            b = torch.tensor([g() for _ in range(2 ** n)], dtype=tio.C128)
            c = g()
            sa, sb = SV(a, gpu=False), SV(b, gpu=False)
            an, bn = a.numpy(), b.numpy()
            data = dict(kind="vec", n=n, a=[[z.real, z.imag] for z in a.tolist()], b=[[z.real, z.imag] for z in b.tolist()], c=[c.real, c.imag])
            chk("inner", sa.inner(sb).numpy(), np.sum(an.conj() * bn), data)
            chk("overlap", sa.overlap(sb).numpy(), abs(np.sum(an.conj() * bn)) ** 2, data)
            chk("norm", sa.norm().numpy(), np.sqrt(np.sum(abs(an) ** 2)), data)
            chk("c*a+b", (c * sa + sb).data.numpy(), c * an + bn, data)
            # operators
            m = min(n, 6)
            kind_g, ops = gen_ops(rng, tio, torch, m)
            if kind_g in ("ok", "structured"):
                if kind_g == "ok":
                    ops = [(g(), [((({k: g() for k in s}) if isinstance(s, dict) else s), t) for s, t in fs]) for _, fs in ops]
                ref = np_from_repr(np, m, ops)
                D, _ = DO._from_operator_repr(eigenstates=("r", "g"), n_qudits=m, operations=ops)
                data = dict(kind="repr", n=m, ops=enc_ops(tio, ops), ops_json=ops_json(ops), skip_sparse=STATE["sparse_unsafe"])
                chk("DenseOperator._from_operator_repr", D.data.numpy(), ref, data)
                if STATE["sparse_unsafe"]:
                    S = None
                else:
                    with warnings.catch_warnings():
                        warnings.simplefilter("ignore")
                        S, _ = SO._from_operator_repr(eigenstates=("r", "g"), n_qudits=m, operations=sparse_ops(ops))
                    chk("SparseOperator._from_operator_repr", S.data.to_dense().numpy(), ref, data)
                v = torch.tensor([g() for _ in range(2 ** m)], dtype=tio.C128)
                sv = SV(v, gpu=False)
                chk("DenseOperator.apply_to", D.apply_to(sv).data.numpy(), ref @ v.numpy(), data)
                if S is not None:
                    chk("SparseOperator.apply_to", S.apply_to(sv).data.numpy(), ref @ v.numpy(), data)
                    chk("SparseOperator.expect", S.expect(sv).numpy(), v.numpy().conj() @ (ref @ v.numpy()), data)
                    with warnings.catch_warnings():
                        warnings.simplefilter("ignore")
                        chk("SparseOperator + / scalar*", ((c * S) + S).data.to_dense().numpy(), c * ref + ref, data)
                chk("DenseOperator.expect", D.expect(sv).numpy(), v.numpy().conj() @ (ref @ v.numpy()), data)
                chk("DenseOperator @ / + / scalar*", ((c * D) @ D + D).data.numpy(), c * ref @ ref + ref, data)
            # density matrices
            ra, rb = DM.from_state_vector(sa), DM.from_state_vector(sb)
            data = dict(kind="vec", n=n, a=[[z.real, z.imag] for z in a.tolist()], b=[[z.real, z.imag] for z in b.tolist()], c=[c.real, c.imag])
            chk("from_state_vector", ra.data.numpy(), np.outer(an, an.conj()), data)
            chk("DensityMatrix.overlap", ra.overlap(rb).numpy(),
                np.trace(np.outer(an, an.conj()).conj().T @ np.outer(bn, bn.conj())), data)
        except Exception as e:
            rep.fail(f"real class raised {type(e).__name__}: {e}", dict(kind="raise", n=n), klass=None)
    rep.extra["oracle_max_rel_err"] = max(worst, rep.extra.get("oracle_max_rel_err", 0.0))


# ------------------------------------------------------------------ check
def check(rep: Report, tier: str, seed: int) -> None:
    import torch
    torch.manual_seed(seed)
    rep.rule = ("cases from one PRNG; correspondence inputs dyadic: amplitude dictionaries for 1-8 qubits (sparse, full, single, "
                "already normalised, colliding 0/1/r/g keys, too long/short keys, bad characters, unsupported bases), vector pairs, "
                "dense matrices (1-5 qubits), operator representations (0-3 terms x 0-3 factors, QuditOp dicts over the four basis "
                "symbols or raw 2x2 tensors, 0-3 targets in [-n, n-1] with repeats, out-of-range targets, unknown symbols) for the "
                "dense and the sparse constructor, raw uncoalesced COO bags for sparse_kron/sparse_add; oracle inputs gaussian complex; "
                "non-trivial = the implementation did not raise")
    rep.assumptions = [
        "tape contract: torch.linalg.vector_norm(x)^2 = sum |x_i|^2 to 1e-13 relative (validated on every case)",
        "zero amplitude vectors (0/0) are outside the model",
        "binary64 rounding outside the theorems; exact on the dyadic inputs compared",
    ]
    import time
    t0 = time.time()
    lean_stage(rep, PROP_MODULE, AUDIT, thorough=(tier == "thorough"))
    rep.extra["t_lean_stage_s"] = round(time.time() - t0, 1)
    extra = ExtraLeanStage(rep, EXTRA_STAGES, thorough=(tier == "thorough"))     # concurrent with the Python side
    extra.start()
    correspondence(rep, seeded(seed * 7919 + 12), tier)
    oracle(rep, seeded(seed * 104729 + 12), 40 if tier == "quick" else 1000)
    extra.merge()
    rep.extra["t_total_s"] = round(time.time() - t0, 1)
    if rep.broken and not rep.unknown_failing():
        search(rep, seed, 300 if tier == "quick" else 3000)


def search(rep: Report, seed: int, count: int) -> None:
    oracle(rep, seeded(seed * 15485863 + 12), count)
    rep.extra["search_cases"] = count


def ops_json(ops):
    out = []
    for c, fs in ops:
        c = complex(c)
        ff = []
        for sym, tg in fs:
            if isinstance(sym, dict):
                ff.append([{k: [complex(v).real, complex(v).imag] for k, v in sym.items()}, list(tg)])
            else:
                ff.append([{"T": [[z.real, z.imag] for z in sym.reshape(-1).tolist()]}, list(tg)])
        out.append([[c.real, c.imag], ff])
    return out


def ops_from_json(torch, tio, js):
    ops = []
    for c, ff in js:
        fs = []
        for sym, tg in ff:
            if "T" in sym:
                fs.append((torch.tensor([complex(*z) for z in sym["T"]], dtype=tio.C128).reshape(2, 2), tg))
            else:
                fs.append(({k: complex(*v) for k, v in sym.items()}, tg))
        ops.append((complex(*c), fs))
    return ops


def dec_coo(torch, tio, enc, shape):
    idx, vals = [[], []], []
    if enc not in ("-", ""):
        for t in enc.split(","):
            r, c, v = t.split(";")
            re_, im_ = v.split(":")
            idx[0].append(int(r)); idx[1].append(int(c)); vals.append(complex(float(Fraction(re_)), float(Fraction(im_))))
    return torch.sparse_coo_tensor(torch.tensor(idx, dtype=torch.int64).reshape(2, len(vals)),
                                   torch.tensor(vals, dtype=tio.C128), tuple(shape))


def replay(rep: Report, path: str) -> int:
    """re-evaluates every stored failing input on the real code against the numpy definition"""
    np, torch, tio, SV, DM, DO, SO, sparse_add, sparse_kron = _imports()
    data = json.load(open(path))
    bad = 0

    def rel(got, ref):
        got, ref = np.asarray(got), np.asarray(ref)
        return float(abs(got - ref).max()) / (float(abs(ref).max()) + 1.0) if got.shape == ref.shape else float("inf")

    for f in data.get("failing_inputs", []):
        d = f["data"]
        kind = d.get("kind")
        errs = {}
        try:
            if kind == "sparse_kron":
                a, b = dec_coo(torch, tio, d["a"], d["shape_a"]), dec_coo(torch, tio, d["b"], d["shape_b"])
                k = sparse_kron(a, b)
                dense = np.zeros((a.shape[0] * b.shape[0], a.shape[1] * b.shape[1]), dtype=complex)
                inside = True
                for r, c, v in coo_entries(k):
                    if r < dense.shape[0] and c < dense.shape[1]:
                        dense[r, c] = complex(float(v[0]), float(v[1]))
                    else:
                        inside = False
                errs["sparse_kron"] = rel(dense, np.kron(a.to_dense().numpy(), b.to_dense().numpy())) if inside else float("inf")
            elif kind == "amps":
                n, amps = d["n"], {k: complex(*v) for k, v in d["amps"].items()}
                eig_r = tuple(d.get("eig", ("r", "g")))
                st, _ = SV._from_state_amplitudes(eigenstates=eig_r, n_qudits=n, amplitudes=amps)
                ref = np.zeros(2 ** n, dtype=complex)
                for k, v in amps.items():
                    ref[sum(2 ** (n - 1 - q) for q, ch in enumerate(k) if ch == "r")] = v
                ref = ref / np.linalg.norm(ref)
                errs["_from_state_amplitudes"] = rel(st.data.numpy(), ref)
                dm, _ = DM._from_state_amplitudes(eigenstates=eig_r, n_qudits=n, amplitudes=amps)
                errs["DensityMatrix._from_state_amplitudes"] = rel(dm.data.numpy(), np.outer(ref, ref.conj()))
            elif kind == "vec" and "a" in d:
                a = torch.tensor([complex(*z) for z in d["a"]], dtype=tio.C128)
                b = torch.tensor([complex(*z) for z in d["b"]], dtype=tio.C128)
                c = complex(*d["c"])
                sa, sb, an, bn = SV(a, gpu=False), SV(b, gpu=False), a.numpy(), b.numpy()
                errs["inner"] = rel(sa.inner(sb).numpy(), np.sum(an.conj() * bn))
                errs["overlap"] = rel(sa.overlap(sb).numpy(), abs(np.sum(an.conj() * bn)) ** 2)
                errs["norm"] = rel(sa.norm().numpy(), np.sqrt(np.sum(abs(an) ** 2)))
                errs["c*a+b"] = rel((c * sa + sb).data.numpy(), c * an + bn)
                errs["from_state_vector"] = rel(DM.from_state_vector(sa).data.numpy(), np.outer(an, an.conj()))
                errs["DensityMatrix.overlap"] = rel(DM.from_state_vector(sa).overlap(DM.from_state_vector(sb)).numpy(),
                                                    abs(np.sum(an.conj() * bn)) ** 2)
            elif kind == "repr" and "ops_json" in d:
                n = d["n"]
                ops = ops_from_json(torch, tio, d["ops_json"])
                ref = np_from_repr(np, n, ops)
                D, _ = DO._from_operator_repr(eigenstates=("r", "g"), n_qudits=n, operations=ops)
                errs["DenseOperator._from_operator_repr"] = rel(D.data.numpy(), ref)
                v = torch.tensor([complex(1 + q, -q) for q in range(2 ** n)], dtype=tio.C128)
                sv = SV(v, gpu=False)
                errs["DenseOperator.apply_to"] = rel(D.apply_to(sv).data.numpy(), ref @ v.numpy())
                errs["DenseOperator.expect"] = rel(D.expect(sv).numpy(), v.numpy().conj() @ (ref @ v.numpy()))
                errs["DenseOperator.__matmul__"] = rel((D @ D).data.numpy(), ref @ ref)
                if not d.get("skip_sparse"):
                    with warnings.catch_warnings():
                        warnings.simplefilter("ignore")
                        S, _ = SO._from_operator_repr(eigenstates=("r", "g"), n_qudits=n, operations=sparse_ops(ops))
                    errs["SparseOperator._from_operator_repr"] = rel(S.data.to_dense().numpy(), ref)
            else:
                print("replay: no stored input for:", f["what"][:100])
                continue
        except Exception as e:
            errs["raised " + type(e).__name__] = float("inf")
        worst = max(errs.items(), key=lambda kv: kv[1]) if errs else ("-", 0.0)
        fails = worst[1] > RTOL_ORACLE
        print(f"replay: {kind}: worst {worst[0]} rel err {worst[1]:.3e}", "FAILS" if fails else "holds now")
        bad += fails
    return 1 if bad else 0
