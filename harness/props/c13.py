"""C13 — every reported observable equals its definition on the current state.

emu-sv half (emu_sv/custom_callback_implementations.py, RydbergHamiltonian.expect, RydbergLindbladian.expect):
Lean theorems (EmuVerif.Props.C13 over Model.SvObs) + exact correspondence on dyadic states / parameters.
emu-mps half (emu_mps/custom_callback_implementations.py, emu_mps/observables.py, fill_results normalisation,
dark-atom padding): Lean theorems (EmuVerif.Props.C13Mps over Model.MpsObs / Model.Tensor, under the canonical-form
hypothesis) + the correspondence of harness/props/c13_mps.py, and the always-on oracle — every reported value on
arbitrary unnormalised, non-canonical MPS of 2-8 atoms against the dense definition on the contracted, normalised
state; physical ranges (entropy and truncating products: validated only).
"""
from __future__ import annotations

import json
import math

from harness.common import Driver, LeanError, Report, lean_stage, seeded

REGISTRY = dict(
    text=("PARTIAL (full for state vectors and density matrices; for MPS full UNDER the canonical-form hypothesis that C10's "
          "orthogonalize contract supplies, entropy and truncating products validated only). Lean 4 theorems for every qubit "
          "number, every state and all Hamiltonian parameters: the emu-sv "
          "occupation (sum of |psi_s|^2 over the sub-tree 'bit k set') is <psi|n_k psi> with the dense n_k = I x..x n x..x I; "
          "the correlation entry (i<j) is <psi|n_i n_j psi>, the diagonal is the occupation = <psi|n_i n_i psi>, the matrix is "
          "symmetric; the density-matrix versions (diagonal sub-sums) are tr(n_k rho), tr(n_i n_j rho), and on |psi><psi| they are "
          "the state-vector values; energy = <psi|H psi>, second moment <H psi|H psi> with the dense H of C06, tr(H rho), "
          "tr(H H rho) for density matrices; values are real; for a normalised state occupations and correlations lie in [0,1] "
          "and the variance <H psi|H psi> - <psi|H psi>^2 >= 0 (Cauchy-Schwarz proved). Fidelity/expectation are the C12 "
          "objects. emu-mps (Props/C13Mps.lean, on the amplitude semantics of C11; every site count, bond-dimension sequence and "
          "physical dimension; hypotheses stated on the factor matrices: factors left of the recorded centre are left-isometries, "
          "right of it right-isometries, every r returned by torch.linalg.qr satisfies r^dagger r = m^dagger m): MPS.expect_batch "
          "with the loops range(c, n) and range(c-1, -1, -1) as written returns <psi|O_i|psi> for EVERY site i and every centre c "
          "incl. 0 and n-1 (also with no recorded centre, after orthogonalize(0)); qubit_occupation_mps_impl = "
          "sum_s [s_i=1]|amp s|^2 = <psi|n_i|psi>; MPS.norm()^2 = <psi|psi>; get_correlation_matrix: entry [i,i+k] = <psi|O_i O_{i+k}|psi> "
          "for the factors canonical at i, the diagonal is <O_i> as implemented (finding T2; = <n_i n_i> for the projector n), the "
          "whole symmetric table for n from the snapshots after each orthogonalize(left); energy = MPO.expect = "
          "sum conj(amp s)<s|H|t>amp t and second moment / variance with H@H = zip_right BEFORE truncation (qr contract q r = m); "
          "fill_results: observables of (1/norm)*state are |lambda|^2 x those of the state, the scaled state has norm 1, scaling "
          "keeps the canonical form; dark-atom padding: a dark atom has occupation 0 and zero correlations, the k-th good atom the "
          "values of site k of the reduced state, norm and energy unchanged; values are real and occupation, <n_i n_j> lie in [0,1] "
          "for a normalised state. Validated only (dense oracle 1e-9, not proved): entanglement entropy (svdvals), the truncation "
          "inside hamiltonian @ hamiltonian (C10), that orthogonalize establishes the "
          "canonical form (C10; checked numerically on every tape case); density-matrix variance >= 0 (needs positivity of rho). "
          "Energy bridge (Props/C13Energy.lean, FULL for every N>=2, every d, Rydberg and XY, symmetric U, arbitrary single-site terms): the "
          "make_H/update_H factors of C05's model, laid out numerically as the code lays them out (Model/HamBridge.toTensor), have the "
          "dense Hamiltonian matrix of C05 as their operator semantics opAmp, so the emu-mps Energy MPO.expect(H, psi) equals "
          "sum conj(psi_s) <s|H_dense|t> psi_t for every MPS, also after any sequence of update_H calls and with dark-atom padding "
          "(reduced H on the reduced state), and for a normalised MPS it is >= the ground energy of H_dense (the least eigenvalue when "
          "h_k, op are Hermitian and U real; C09's variational bound), tied to the code by exact comparison of the real MPO.expect on the "
          "real factors with the model and its dense builder on Gaussian-integer MPS (all sparsity patterns N<=4) and by real runs."),
    note=("Trusted: Lean kernel + propext/Classical.choice/Quot.sound; Mathlib; hand-written Model.SvObs / Model.MpsObs tied by exact "
          "correspondence (vector_norm**2 compared at 1e-12; MPS: Gaussian-integer states in exact canonical form with an exact "
          "isometric qr, plus recorded real-qr tapes at 1e-10); entropy and truncation are differential testing only (1e-9 "
          "relative), labelled as such."),
    technique="Lean 4 proof (induction on the qubit tree / over MPS sites, transfer-matrix invariants, Cauchy-Schwarz) + exact correspondence + dense oracle",
    design_ref="DESIGN.md §5 C13",
)

PROP_MODULE = "EmuVerif.Props.C13"
AUDIT = "Audit/C13.lean"
MPS_MODULE = "EmuVerif.Props.C13Mps"      # the emu-mps half (Model.MpsObs / Model.Tensor)
MPS_AUDIT = "Audit/C13Mps.lean"
ENERGY_MODULE = "EmuVerif.Props.C13Energy"   # the C05 <-> C11 bridge: energy = <psi|H_dense|psi> (Model.HamBridge)
ENERGY_AUDIT = "Audit/C13Energy.lean"
RTOL_TAPE = 1e-12
RTOL_ORACLE = 1e-9
# emu-mps computes <H^2> with the MPO product H@H (zip_right: QR + eigh of Gram matrices). Whatever the requested
# truncation precision, that product carries a binary64 accuracy floor of about sqrt(eps) relative to |H^2| (measured:
# 1.3e-9 relative Frobenius error of the dense H@H at n = 8, identical bond dimensions at precision 1e-5 and 1e-12), so
# the second moment / variance of an MPS cannot be demanded to 1e-9; 1e-7 is ~7 sqrt(eps) and still four orders of
# magnitude below the smallest deviation any changed operator/state produces (thorough seed 13 met 1.9e-9: false alarm).
RTOL_MPS_H2 = 1e-7


def _mps_tol(name: str) -> float:
    return RTOL_MPS_H2 if ("second moment" in name or "variance" in name) else RTOL_ORACLE
STATE = {"compat": False}


def _imports():
    import numpy as np
    import torch
    from harness import compat
    compat.install()
    from harness import treevec_io as tio
    return np, torch, tio


def _sv_impls():
    import emu_sv.custom_callback_implementations as cb
    from emu_sv.state_vector import StateVector
    from emu_sv.density_matrix_state import DensityMatrix
    from emu_sv.hamiltonian import RydbergHamiltonian
    from emu_sv.lindblad_operator import RydbergLindbladian
    return cb, StateVector, DensityMatrix, RydbergHamiltonian, RydbergLindbladian


# ------------------------------------------------------------------ correspondence (emu-sv)
def correspondence(rep: Report, rng, tier: str) -> None:
    np, torch, tio = _imports()
    cb, SV, DM, RH, RL = _sv_impls()
    from harness.props import c06
    quick = tier == "quick"
    lines, expect, meta = [], [], []

    def add(line, kind, value, m):
        lines.append(line); expect.append((kind, value)); meta.append(m)

    def dvec(n):
        return torch.tensor([tio.cdyad(rng, 1, 2) for _ in range(2 ** n)], dtype=tio.C128)

    # occupations / correlations, state vector (unnormalised: the functions do not normalise)
    for i in range(40 if quick else 400):
        n = rng.randint(1, 8)
        v = dvec(n)
        st = SV(v, gpu=False)
        occ = cb.qubit_occupation_sv_impl(None, config=None, state=st, hamiltonian=None)
        cor = cb.correlation_matrix_sv_impl(None, config=None, state=st, hamiltonian=None)
        add(f"ob.sv {n} {tio.tlist(v)}", "tol", torch.cat([occ, cor.reshape(-1)]).to(tio.C128),
            dict(what="occupation/correlation sv", n=n, vec=c06.tens_ser(v)))
        rep.hist("sv_n", n)
    # density matrices (general complex matrices: the functions only read the diagonal)
    for i in range(30 if quick else 300):
        n = rng.randint(1, 5 if quick else 6)
        rho = tio.hermitian_dyadic(rng, 2 ** n) if rng.random() < 0.7 else torch.tensor(
            [[tio.cdyad(rng, 1, 2) for _ in range(2 ** n)] for _ in range(2 ** n)], dtype=tio.C128)
        st = DM(rho, gpu=False)
        occ = cb.qubit_occupation_sv_den_mat_impl(None, config=None, state=st, hamiltonian=None)
        cor = cb.correlation_matrix_sv_den_mat_impl(None, config=None, state=st, hamiltonian=None)
        add(f"ob.dm {n} {tio.tlist(rho)}", "real-exact", torch.cat([occ, cor.reshape(-1)]),
            dict(what="occupation/correlation density matrix", n=n, rho=c06.tens_ser(rho)))
        rep.hist("dm_n", n)
    # energies
    for i in range(40 if quick else 400):
        n = rng.randint(1, 7)
        P = c06.gen_params(rng, n, rng.choice(["zero", "tape", "mixed"]))
        v = dvec(n)
        with tio.exact_trig(P["table"]):
            H = c06.build_h(P)
            st = SV(v, gpu=False)
            e = torch.vdot(v, H * v)                   # RydbergHamiltonian.expect asserts a real value: only for Hermitian H
            s2 = cb.energy_second_moment_sv_impl(None, config=None, state=st, hamiltonian=H)
            var = cb.energy_variance_sv_impl(None, config=None, state=st, hamiltonian=H)
            en = H.expect(st)
        if abs(float(en) - float(e.real)) > 0:
            rep.broke("RydbergHamiltonian.expect differs from vdot(psi, H psi).real")
        add(f"ob.en {n} {c06.enc_common(tio, torch, P)} {tio.tlist(v)}", "exact",
            torch.stack([e, s2.to(tio.C128), var.to(tio.C128)]),
            dict(what="energy / second moment / variance sv", **c06.ser(P, vec=c06.tens_ser(v))))
    for i in range(20 if quick else 200):
        n = rng.randint(1, 4 if quick else 5)
        P = c06.gen_params(rng, n, rng.choice(["zero", "tape", "mixed"]))
        rho = tio.hermitian_dyadic(rng, 2 ** n)
        batched = i % 2
        with tio.exact_trig(P["table"]):
            L = c06.build_l(P, [tio.rand_m2(rng) for _ in range(rng.randint(0, 2))])
            st = DM(rho, gpu=False)
            ctx = tio.force_not_cpu() if batched else _null()
            with ctx:
                e = L.h_eff(rho).trace()
                en = L.expect(st)
                s2 = cb.energy_second_moment_den_mat_impl(None, config=None, state=st, hamiltonian=L)
                var = cb.energy_variance_sv_den_mat_impl(None, config=None, state=st, hamiltonian=L)
        add(f"ob.endm {batched} {n} {c06.enc_common(tio, torch, P)} {tio.tlist(rho)}", "exact",
            torch.stack([e, s2.to(tio.C128), var.to(tio.C128)]),
            dict(what="energy / second moment / variance density matrix", batched=batched, **c06.ser(P, rho=c06.tens_ser(rho))))
        if float(en) != float(e.real):
            rep.broke("RydbergLindbladian.expect differs from trace(h_eff(rho)).real")
    try:
        out = Driver().batch(lines)
    except LeanError as e:
        rep.broke("driver: " + str(e)[-800:])
        return
    dis, worst = 0, 0.0
    for line, reply, (kind, val), m in zip(lines, out, expect, meta):
        rep.case(key=hash(line), nontrivial=True, sample={"what": m["what"], "n": m.get("n")})
        if kind == "exact":
            bad = tio.compare_exact(reply, val)
        elif kind == "real-exact":
            # the code returns `.real` of the model's complex sub-sum
            mo = tio.parse_clist(reply[3:]) if reply.startswith("ok") else None
            ev = [float(x) for x in val.tolist()]
            bad = None if mo is not None and len(mo) == len(ev) and all(float(a[0]) == b for a, b in zip(mo, ev)) \
                else "real parts differ"
        else:
            bad, err = tio.compare_tol(reply, val, RTOL_TAPE)
            worst = max(worst, err)
        if bad:
            dis += 1
            if dis <= 4:
                rep.broke(f"correspondence {m['what']}: {bad}; input={json.dumps(m)[:600]}")
    rep.extra["correspondence_cases"] = len(lines)
    rep.extra["correspondence_disagreements"] = dis
    rep.extra["tolerance_stream_max_rel_err"] = worst


class _null:
    def __enter__(self): return self
    def __exit__(self, *a): return False


# ------------------------------------------------------------------ oracle: emu-sv vs numpy definitions
def oracle_sv(rep: Report, rng, count: int) -> None:
    np, torch, tio = _imports()
    cb, SV, DM, RH, RL = _sv_impls()
    from harness.props import c06
    g = lambda: complex(rng.gauss(0, 1), rng.gauss(0, 1))
    worst = 0.0
    for i in range(count):
        n = rng.randint(2, 8)
        rep.case(key=("oracle-sv", i), nontrivial=True, trace=False)
        v = np.array([g() for _ in range(2 ** n)])
        v = v / np.linalg.norm(v)
        nk = [tio.np_embed(n, k, tio.NOP) for k in range(n)]
        st = SV(torch.from_numpy(v), gpu=False)
        occ = cb.qubit_occupation_sv_impl(None, config=None, state=st, hamiltonian=None).numpy()
        cor = cb.correlation_matrix_sv_impl(None, config=None, state=st, hamiltonian=None).numpy()
        ref_o = np.array([np.vdot(v, nk[k] @ v).real for k in range(n)])
        ref_c = np.array([[np.vdot(v, nk[a] @ (nk[b] @ v)).real for b in range(n)] for a in range(n)])
        errs = {"occupation sv": abs(occ - ref_o).max(), "correlation sv": abs(cor - ref_c).max()}
        rng_bad = (occ.min() < -1e-12 or occ.max() > 1 + 1e-12 or cor.min() < -1e-12 or cor.max() > 1 + 1e-12)
        # Hamiltonian observables
        P = dict(n=n, om=[complex(rng.uniform(0, 12), 0) for _ in range(n)], de=[complex(rng.uniform(-20, 20), 0) for _ in range(n)],
                 U=[[0.0] * n for _ in range(n)], table={}, phis=[rng.choice([0.0, rng.uniform(-3, 3)]) for _ in range(n)])
        for a in range(n):
            for b in range(a + 1, n):
                P["U"][a][b] = P["U"][b][a] = rng.uniform(0, 30)
        Hn = tio.np_dense_h([z.real for z in P["om"]], [z.real for z in P["de"]], [math.cos(p) for p in P["phis"]],
                            [math.sin(p) for p in P["phis"]], P["U"], n)
        H = c06.build_h(P)
        e = float(H.expect(st))
        s2 = float(cb.energy_second_moment_sv_impl(None, config=None, state=st, hamiltonian=H))
        var = float(cb.energy_variance_sv_impl(None, config=None, state=st, hamiltonian=H))
        re = np.vdot(v, Hn @ v).real
        r2 = np.vdot(Hn @ v, Hn @ v).real
        sc = 1.0 + abs(r2)
        errs.update({"energy sv": abs(e - re) / sc, "second moment sv": abs(s2 - r2) / sc, "variance sv": abs(var - (r2 - re * re)) / sc})
        rng_bad = rng_bad or var < -1e-9 * sc
        if n <= 5:
            m = rng.randint(1, 3)
            vs = [np.array([g() for _ in range(2 ** n)]) for _ in range(m)]
            rho = sum(np.outer(w, w.conj()) for w in vs)
            rho = rho / np.trace(rho)
            sd = DM(torch.from_numpy(rho), gpu=False)
            occ_d = cb.qubit_occupation_sv_den_mat_impl(None, config=None, state=sd, hamiltonian=None).numpy()
            cor_d = cb.correlation_matrix_sv_den_mat_impl(None, config=None, state=sd, hamiltonian=None).numpy()
            L = c06.build_l(P, [])
            e_d = float(L.expect(sd))
            s_d = float(cb.energy_second_moment_den_mat_impl(None, config=None, state=sd, hamiltonian=L))
            v_d = float(cb.energy_variance_sv_den_mat_impl(None, config=None, state=sd, hamiltonian=L))
            ro = np.array([np.trace(nk[k] @ rho).real for k in range(n)])
            rc = np.array([[np.trace(nk[a] @ nk[b] @ rho).real for b in range(n)] for a in range(n)])
            te, t2 = np.trace(Hn @ rho).real, np.trace(Hn @ Hn @ rho).real
            sc = 1.0 + abs(t2)
            errs.update({"occupation dm": abs(occ_d - ro).max(), "correlation dm": abs(cor_d - rc).max(),
                         "energy dm": abs(e_d - te) / sc, "second moment dm": abs(s_d - t2) / sc,
                         "variance dm": abs(v_d - (t2 - te * te)) / sc})
            rng_bad = rng_bad or occ_d.min() < -1e-12 or occ_d.max() > 1 + 1e-12 or v_d < -1e-9 * sc
        w = max(errs.items(), key=lambda kv: kv[1])
        worst = max(worst, float(w[1]))
        data = dict(kind="sv", n=n, vec=[[z.real, z.imag] for z in v.tolist()], om=[z.real for z in P["om"]],
                    de=[z.real for z in P["de"]], phis=P["phis"], U=P["U"])
        if w[1] > RTOL_ORACLE:
            rep.fail(f"emu-sv {w[0]}: differs from the dense definition by {w[1]:.3e} > {RTOL_ORACLE:.0e}", data)
        if rng_bad:
            rep.fail("emu-sv observable outside its physical range on a normalised state", data)
    rep.extra["oracle_sv_max_err"] = worst


# ------------------------------------------------------------------ oracle: emu-mps vs dense contraction
def mps_to_dense(np, factors):
    acc = factors[0].numpy()                    # (1, d, b)
    for f in factors[1:]:
        acc = np.tensordot(acc, f.numpy(), axes=([acc.ndim - 1], [0]))
    return acc.reshape(-1)


def mps_case(rng, n_well, mask, chi):
    """one fill_results-like evaluation on the real emu-mps classes; returns dict of (reported, reference)"""
    np, torch, tio = _imports()
    from emu_mps.mps import MPS
    from emu_mps.mpo import MPO
    from emu_mps.hamiltonian import make_H, update_H
    from emu_mps.utils import extended_mps_factors, extended_mpo_factors, get_extended_site_index
    from emu_mps.observables import EntanglementEntropy
    import emu_mps.custom_callback_implementations as mcb
    from emu_base.pulser_adapter import HamiltonianType
    g = lambda *s: torch.complex(torch.tensor([[rng.gauss(0, 1) for _ in range(_prod(s))]]).reshape(s),
                                 torch.tensor([[rng.gauss(0, 1) for _ in range(_prod(s))]]).reshape(s)).to(torch.complex128)
    bonds = [1] + [rng.randint(1, chi) for _ in range(n_well - 1)] + [1]
    factors = [g(bonds[i], 2, bonds[i + 1]) for i in range(n_well)]
    ref_factors = [f.clone() for f in factors]
    state = MPS(factors, orthogonality_center=None, num_gpus_to_use=0)
    normalized = 1 / state.norm() * state               # what fill_results does first
    om = [rng.uniform(0, 10) for _ in range(n_well)]
    de = [rng.uniform(-15, 15) for _ in range(n_well)]
    ph = [rng.choice([0.0, rng.uniform(-3, 3)]) for _ in range(n_well)]
    U = [[0.0] * n_well for _ in range(n_well)]
    for a in range(n_well):
        for b in range(a + 1, n_well):
            U[a][b] = U[b][a] = rng.uniform(0, 20)
    ham = make_H(interaction_matrix=torch.tensor(U, dtype=torch.float64), hamiltonian_type=HamiltonianType.Rydberg,
                 dim=2, num_gpus_to_use=0)
    update_H(ham, torch.tensor(om, dtype=torch.complex128), torch.tensor(de, dtype=torch.complex128),
             torch.tensor(ph, dtype=torch.complex128), torch.zeros(2, 2, dtype=torch.complex128))
    n = len(mask)
    if all(mask):
        st, hm = normalized, ham
    else:
        w = torch.tensor(mask)
        hm = MPO(extended_mpo_factors(ham.factors, w))
        st = MPS(extended_mps_factors(normalized.factors, w), num_gpus_to_use=None,
                 orthogonality_center=get_extended_site_index(w, normalized.orthogonality_center),
                 eigenstates=normalized.eigenstates)
    # dense reference
    psi = mps_to_dense(np, ref_factors)
    psi = psi / np.linalg.norm(psi)
    Hw = tio.np_dense_h(om, de, [math.cos(p) for p in ph], [math.sin(p) for p in ph], U, n_well)
    g0 = np.array([1.0, 0.0], dtype=complex)
    # interleave dark atoms (|g>) : reshape psi to (2,)*n_well and insert axes
    t = psi.reshape((2,) * n_well)
    full = np.zeros((2,) * n, dtype=complex)
    idx = tuple(slice(None) if m else 0 for m in mask)
    full[idx] = t
    full = full.reshape(-1)
    well = [q for q, m in enumerate(mask) if m]
    Hf = np.zeros((2 ** n, 2 ** n), dtype=complex)
    # H_full = H_well on the well-prepared positions, identity elsewhere: build from embeds
    for k, q in enumerate(well):
        Hf += tio.np_embed(n, q, (om[k] / 2) * (math.cos(ph[k]) * tio.SX + math.sin(ph[k]) * tio.SY) - de[k] * tio.NOP)
    for a in range(n_well):
        for b in range(a + 1, n_well):
            Hf += U[a][b] * (tio.np_embed(n, well[a], tio.NOP) @ tio.np_embed(n, well[b], tio.NOP))
    nk = [tio.np_embed(n, q, tio.NOP) for q in range(n)]
    out = {}
    out["occupation"] = (mcb.qubit_occupation_mps_impl(None, config=None, state=st, hamiltonian=hm).numpy(),
                         np.array([np.vdot(full, nk[q] @ full).real for q in range(n)]))
    out["correlation"] = (mcb.correlation_matrix_mps_impl(None, config=None, state=st, hamiltonian=hm).numpy(),
                          np.array([[np.vdot(full, nk[a] @ (nk[b] @ full)).real for b in range(n)] for a in range(n)]))
    e, e2 = np.vdot(full, Hf @ full).real, np.vdot(Hf @ full, Hf @ full).real
    out["energy"] = (mcb.energy_mps_impl(None, config=None, state=st, hamiltonian=hm).numpy(), e)
    out["second moment"] = (mcb.energy_second_moment_mps_impl(None, config=None, state=st, hamiltonian=hm).numpy(), e2)
    out["variance"] = (mcb.energy_variance_mps_impl(None, config=None, state=st, hamiltonian=hm).numpy(), e2 - e * e)
    out["norm"] = (st.norm().numpy(), 1.0)
    b = rng.randrange(n - 1)
    ent = EntanglementEntropy(b).apply(state=st)
    sv = np.linalg.svd(full.reshape(2 ** (b + 1), -1), compute_uv=False)
    p = sv ** 2
    p = p[p > 1e-300]
    out["entanglement entropy"] = (ent.numpy(), float(-(p * np.log(p)).sum()))
    out["_entropy_bound"] = math.log(2) * min(b + 1, n - b - 1)
    out["_scale"] = 1.0 + abs(e2)
    out["_data"] = dict(kind="mps", n=n, mask=list(mask), bonds=bonds, om=om, de=de, ph=ph, U=U, bond=b,
                        factors=[[[z.real, z.imag] for z in f.reshape(-1).tolist()] for f in ref_factors])
    return out


def _prod(s):
    r = 1
    for x in s:
        r *= x
    return r


def oracle_mps(rep: Report, rng, count: int) -> None:
    np, torch, tio = _imports()
    worst = 0.0
    for i in range(count):
        n = rng.randint(2, 8)
        if rng.random() < 0.4 and n >= 3:
            n_dark = rng.randint(1, n - 2)
            mask = [True] * n
            for q in rng.sample(range(n), n_dark):
                mask[q] = False
        else:
            mask = [True] * n
        n_well = sum(mask)
        rep.case(key=("oracle-mps", i), nontrivial=True, trace=False)
        rep.hist("mps_n", n)
        rep.hist("mps_dark", n - n_well)
        try:
            out = mps_case(rng, n_well, mask, 4)
        except Exception as e:
            rep.fail(f"emu-mps observable raised {type(e).__name__}: {e}", dict(kind="mps-raise", n=n, mask=mask), klass=None)
            continue
        data = out["_data"]
        for name, val in out.items():
            if name.startswith("_"):
                continue
            got, ref = val
            sc = out["_scale"] if name in ("energy", "second moment", "variance") else 1.0
            err = float(np.abs(np.asarray(got) - np.asarray(ref)).max()) / sc
            worst = max(worst, err)
            if not err <= _mps_tol(name):
                rep.fail(f"emu-mps {name}: differs from the dense definition on the contracted normalised state by {err:.3e} "
                         f"> {_mps_tol(name):.0e}", dict(data, observable=name))
        occ, cor = out["occupation"][0], out["correlation"][0]
        ent, var = float(out["entanglement entropy"][0]), float(out["variance"][0])
        if (occ.min() < -1e-9 or occ.max() > 1 + 1e-9 or cor.min() < -1e-9 or cor.max() > 1 + 1e-9
                or var < -1e-9 * out["_scale"] or ent < -1e-9 or ent > out["_entropy_bound"] + 1e-9):
            rep.fail("emu-mps observable outside its physical range", dict(data, observable="range"))
    rep.extra["oracle_mps_max_err"] = max(worst, rep.extra.get("oracle_mps_max_err", 0.0))



# ------------------------------------------------------------------ oracle: emu-mps with every recorded orthogonality centre
def _rand_factors(rng, torch, n, d, chi):
    bonds = [1] + [rng.randint(1, chi) for _ in range(n - 1)] + [1]
    fs = []
    for i in range(n):
        sh = (bonds[i], d, bonds[i + 1])
        k = _prod(sh)
        fs.append(torch.complex(torch.tensor([rng.gauss(0, 1) for _ in range(k)]).reshape(sh),
                                torch.tensor([rng.gauss(0, 1) for _ in range(k)]).reshape(sh)).to(torch.complex128))
    return bonds, fs


def _embed_d(np, n, d, q, op):
    out = np.array([[1.0 + 0j]])
    for k in range(n):
        out = np.kron(out, op if k == q else np.eye(d, dtype=complex))
    return out


def _ser_factors(fs):
    return [[[z.real, z.imag] for z in f.reshape(-1).tolist()] for f in fs]


def centre_case(np, torch, d, bonds, fs, prep, ops, cut):
    """evaluate every MPS observable on a state whose *recorded* orthogonality centre was set by `prep`
    (("none",) | ("orthogonalize", k) | ("apply", k, op) | ("correlation",)); returns {name: (reported, reference)}"""
    from emu_mps.mps import MPS
    from emu_mps.observables import EntanglementEntropy
    import emu_mps.custom_callback_implementations as mcb
    n = len(fs)
    eig = ("r", "g") if d == 2 else ("r", "g", "x")
    st = MPS([f.clone() for f in fs], orthogonality_center=None, num_gpus_to_use=0, eigenstates=eig)
    psi = mps_to_dense(np, fs)
    if prep[0] == "orthogonalize":
        st.orthogonalize(prep[1])
    elif prep[0] == "apply":
        st.apply(prep[1], prep[2])
        psi = _embed_d(np, n, d, prep[1], prep[2].numpy()) @ psi
    elif prep[0] == "correlation":
        st.get_correlation_matrix()
    centre_before = st.orthogonality_center
    out = {}
    nrm2 = float(np.vdot(psi, psi).real)
    eb = st.expect_batch(ops).numpy()                                # (n, len(ops)), unnormalised state
    out["expect_batch"] = (eb, np.array([[np.vdot(psi, _embed_d(np, n, d, q, o.numpy()) @ psi) for o in ops] for q in range(n)]))
    nop = np.zeros((d, d), dtype=complex)
    nop[1, 1] = 1.0
    nk = [_embed_d(np, n, d, q, nop) for q in range(n)]
    out["occupation"] = (mcb.qubit_occupation_mps_impl(None, config=None, state=st, hamiltonian=None).numpy(),
                         np.array([np.vdot(psi, nk[q] @ psi).real for q in range(n)]))
    out["norm"] = (float(st.norm()) ** 2, nrm2)
    out["correlation"] = (st.get_correlation_matrix().numpy(),
                          np.array([[np.vdot(psi, nk[a] @ (nk[b] @ psi)).real for b in range(n)] for a in range(n)]))
    o2 = ops[0]
    ok = [_embed_d(np, n, d, q, o2.numpy()) for q in range(n)]
    # NB (outside C13, which only uses the idempotent n): for a general operator the *diagonal* returned by
    # get_correlation_matrix(operator=O) is <O_i>, not <O_i O_i> as its docstring says; compared here as implemented
    out["correlation(operator)"] = (st.get_correlation_matrix(operator=o2).numpy(),
                                    np.array([[(np.vdot(psi, ok[a] @ psi) if a == b else np.vdot(psi, ok[a] @ (ok[b] @ psi))).real
                                               for b in range(n)] for a in range(n)]))
    # occupation once more: the correlation matrix above left the centre on the last site
    out["occupation after correlation"] = (mcb.qubit_occupation_mps_impl(None, config=None, state=st, hamiltonian=None).numpy(),
                                           out["occupation"][1])
    out["expect_batch after correlation"] = (st.expect_batch(ops).numpy(), out["expect_batch"][1])
    stn = 1 / st.norm() * st
    ent = float(EntanglementEntropy(cut).apply(state=stn))
    sv = np.linalg.svd((psi / math.sqrt(nrm2)).reshape(d ** (cut + 1), -1), compute_uv=False) ** 2
    sv = sv[sv > 1e-300]
    out["entanglement entropy"] = (ent, float(-(sv * np.log(sv)).sum()))
    out["occupation after entropy"] = (mcb.qubit_occupation_mps_impl(None, config=None, state=stn, hamiltonian=None).numpy(),
                                       out["occupation"][1] / nrm2)
    out["_scale"] = max(1.0, nrm2)
    out["_centre"] = centre_before
    return out


def oracle_mps_centres(rep: Report, rng, count: int) -> None:
    np, torch, tio = _imports()
    worst = 0.0
    for i in range(count):
        d = 2 if i % 3 else 3
        n = rng.randint(2, 6 if d == 2 else 4)
        bonds, fs = _rand_factors(rng, torch, n, d, 3)
        ops = torch.stack([torch.complex(torch.tensor([[rng.gauss(0, 1) for _ in range(d)] for _ in range(d)]),
                                         torch.tensor([[rng.gauss(0, 1) for _ in range(d)] for _ in range(d)])).to(torch.complex128)
                           for _ in range(3)])
        preps = [("none",), ("correlation",)] + [("orthogonalize", k) for k in range(n)] + [("apply", k, ops[1]) for k in range(n)]
        for prep in preps:
            cut = rng.randrange(n - 1)
            rep.case(key=("mps-centre", i, prep[0], prep[1] if len(prep) > 1 else -1), nontrivial=True, trace=False)
            rep.hist("mps_centre_prep", f"d={d}/{prep[0]}")
            data = dict(kind="mps-centre", d=d, bonds=bonds, factors=_ser_factors(fs), prep=[prep[0]] + ([prep[1]] if len(prep) > 1 else []),
                        ops=_ser_factors(list(ops)), cut=cut)
            try:
                out = centre_case(np, torch, d, bonds, fs, prep, ops, cut)
            except Exception as e:
                rep.fail(f"emu-mps observable raised {type(e).__name__}: {e} (recorded centre set by {prep[0]})", data, klass=None)
                continue
            rep.hist("mps_recorded_centre", out["_centre"])
            for name, val in out.items():
                if name.startswith("_"):
                    continue
                err = float(np.abs(np.asarray(val[0]) - np.asarray(val[1])).max()) / out["_scale"]
                worst = max(worst, err)
                if not err <= _mps_tol(name):
                    rep.fail(f"emu-mps {name} (d={d}, n={n}, recorded orthogonality centre {out['_centre']} set by {prep[0]}): differs from the "
                             f"dense definition by {err:.3e} > {_mps_tol(name):.0e}", dict(data, observable=name))
    rep.extra["oracle_mps_centres_max_err"] = max(worst, rep.extra.get("oracle_mps_centres_max_err", 0.0))


# ------------------------------------------------------------------ oracle: order of the callbacks within one fill_results pass
def order_case(np, torch, tio, rng, n_well, mask, order, fs, bonds, drive):
    """fill_results-style pass: one shared (normalised, padded) state, observables applied in `order`"""
    from emu_mps.mps import MPS
    from emu_mps.mpo import MPO
    from emu_mps.hamiltonian import make_H, update_H
    from emu_mps.utils import extended_mps_factors, extended_mpo_factors, get_extended_site_index
    from emu_mps.observables import EntanglementEntropy
    import emu_mps.custom_callback_implementations as mcb
    from emu_base.pulser_adapter import HamiltonianType
    om, de, ph, U, cut = drive
    state = MPS([f.clone() for f in fs], orthogonality_center=None, num_gpus_to_use=0)
    normalized = 1 / state.norm() * state
    ham = make_H(interaction_matrix=torch.tensor(U, dtype=torch.float64), hamiltonian_type=HamiltonianType.Rydberg, dim=2, num_gpus_to_use=0)
    update_H(ham, torch.tensor(om, dtype=torch.complex128), torch.tensor(de, dtype=torch.complex128),
             torch.tensor(ph, dtype=torch.complex128), torch.zeros(2, 2, dtype=torch.complex128))
    if all(mask):
        st, hm = normalized, ham
    else:
        w = torch.tensor(mask)
        hm = MPO(extended_mpo_factors(ham.factors, w))
        st = MPS(extended_mps_factors(normalized.factors, w), num_gpus_to_use=None,
                 orthogonality_center=get_extended_site_index(w, normalized.orthogonality_center), eigenstates=normalized.eigenstates)
    fns = {
        "correlation": lambda: mcb.correlation_matrix_mps_impl(None, config=None, state=st, hamiltonian=hm).numpy(),
        "occupation": lambda: mcb.qubit_occupation_mps_impl(None, config=None, state=st, hamiltonian=hm).numpy(),
        "energy": lambda: mcb.energy_mps_impl(None, config=None, state=st, hamiltonian=hm).numpy(),
        "variance": lambda: mcb.energy_variance_mps_impl(None, config=None, state=st, hamiltonian=hm).numpy(),
        "second moment": lambda: mcb.energy_second_moment_mps_impl(None, config=None, state=st, hamiltonian=hm).numpy(),
        "entropy": lambda: EntanglementEntropy(cut).apply(state=st).numpy(),
    }
    return {name: fns[name]() for name in order}


def order_reference(np, tio, n_well, mask, fs, drive):
    om, de, ph, U, cut = drive
    n = len(mask)
    psi = mps_to_dense(np, fs)
    psi = psi / np.linalg.norm(psi)
    full = np.zeros((2,) * n, dtype=complex)
    full[tuple(slice(None) if m else 0 for m in mask)] = psi.reshape((2,) * n_well)
    full = full.reshape(-1)
    well = [q for q, m in enumerate(mask) if m]
    Hf = np.zeros((2 ** n, 2 ** n), dtype=complex)
    for k, q in enumerate(well):
        Hf += tio.np_embed(n, q, (om[k] / 2) * (math.cos(ph[k]) * tio.SX + math.sin(ph[k]) * tio.SY) - de[k] * tio.NOP)
    for a in range(n_well):
        for b in range(a + 1, n_well):
            Hf += U[a][b] * (tio.np_embed(n, well[a], tio.NOP) @ tio.np_embed(n, well[b], tio.NOP))
    nk = [tio.np_embed(n, q, tio.NOP) for q in range(n)]
    e, e2 = np.vdot(full, Hf @ full).real, np.vdot(Hf @ full, Hf @ full).real
    sv = np.linalg.svd(full.reshape(2 ** (cut + 1), -1), compute_uv=False) ** 2
    sv = sv[sv > 1e-300]
    return {"occupation": np.array([np.vdot(full, nk[q] @ full).real for q in range(n)]),
            "correlation": np.array([[np.vdot(full, nk[a] @ (nk[b] @ full)).real for b in range(n)] for a in range(n)]),
            "energy": e, "second moment": e2, "variance": e2 - e * e, "entropy": float(-(sv * np.log(sv)).sum())}, 1.0 + abs(e2)


def oracle_mps_order(rep: Report, rng, count: int) -> None:
    np, torch, tio = _imports()
    names = ["correlation", "occupation", "energy", "variance", "second moment", "entropy"]
    worst = 0.0
    for i in range(count):
        n = rng.randint(2, 6)
        mask = [True] * n
        if rng.random() < 0.4 and n >= 3:
            for q in rng.sample(range(n), rng.randint(1, n - 2)):
                mask[q] = False
        n_well = sum(mask)
        bonds, fs = _rand_factors(rng, torch, n_well, 2, 4)
        U = [[0.0] * n_well for _ in range(n_well)]
        for a in range(n_well):
            for b in range(a + 1, n_well):
                U[a][b] = U[b][a] = rng.uniform(0, 20)
        drive = ([rng.uniform(0, 10) for _ in range(n_well)], [rng.uniform(-15, 15) for _ in range(n_well)],
                 [rng.choice([0.0, rng.uniform(-3, 3)]) for _ in range(n_well)], U, rng.randrange(n - 1))
        ref, sc = order_reference(np, tio, n_well, mask, fs, drive)
        orders = [names, list(reversed(names)), ["correlation", "occupation"], ["entropy", "occupation", "correlation", "energy"]]
        for _ in range(4):
            o = names[:]
            rng.shuffle(o)
            orders.append(o)
        for order in orders:
            rep.case(key=("mps-order", i, tuple(order)), nontrivial=True, trace=False)
            data = dict(kind="mps-order", mask=mask, bonds=bonds, factors=_ser_factors(fs), order=order, om=drive[0], de=drive[1], ph=drive[2],
                        U=U, cut=drive[4])
            try:
                got = order_case(np, torch, tio, rng, n_well, mask, order, fs, bonds, drive)
            except Exception as e:
                rep.fail(f"emu-mps observables in order {order} raised {type(e).__name__}: {e}", data, klass=None)
                continue
            for name, val in got.items():
                s_ = sc if name in ("energy", "second moment", "variance") else 1.0
                err = float(np.abs(np.asarray(val) - np.asarray(ref[name])).max()) / s_
                worst = max(worst, err)
                if not err <= _mps_tol(name):
                    rep.fail(f"emu-mps {name} evaluated in the callback order {order}: differs from the dense definition by {err:.3e} "
                             f"> {_mps_tol(name):.0e} (the result depends on what ran before it on the shared state)", dict(data, observable=name))
    rep.extra["oracle_mps_order_max_err"] = max(worst, rep.extra.get("oracle_mps_order_max_err", 0.0))


# ------------------------------------------------------------------ oracle: real emu-mps runs, observable lists in different orders
def oracle_mps_runs(rep: Report, rng, count: int) -> None:
    np, torch, tio = _imports()
    from harness import compat
    from harness.props import c29
    import pulser.backend as pb
    worst = 0.0
    for i in range(count):
        n = rng.randint(3, 4)
        case = c29.gen_seq(rng, n, rng.randint(2, 4))
        tt = [case["dt"] * k for k in range(case["steps"] + 1)]
        ev = [0.5, 1.0] if case["steps"] % 2 == 0 else [1.0]

        def run(obs_names):
            mk = {"correlation_matrix": pb.CorrelationMatrix, "occupation": pb.Occupation, "energy": pb.Energy}
            data = compat.make_sequence_data(case["om"], case["de"], case["ph"], case["U"], tt)
            cfg = compat.mps_config(observables=[mk[x](evaluation_times=ev) for x in obs_names], dt=int(case["dt"]), precision=1e-10,
                                    optimize_qubit_ordering=False)
            r = compat.run_mps(data, cfg)
            return {x: [np.asarray(torch.as_tensor(r.get_result(x, t)).tolist()) for t in ev] for x in obs_names}
        rep.case(key=("mps-run", i), nontrivial=True, trace=False)
        data = dict(kind="mps-run", **case)
        try:
            alone = run(["occupation"])
            variants = {"[CorrelationMatrix, Occupation]": run(["correlation_matrix", "occupation"]),
                        "[Energy, CorrelationMatrix, Occupation]": run(["energy", "correlation_matrix", "occupation"]),
                        "[Occupation, CorrelationMatrix]": run(["occupation", "correlation_matrix"])}
            ref = c29.reference(case, case["ph"])
            for name, got in variants.items():
                for k in range(len(ev)):
                    dd = float(np.abs(got["occupation"][k] - alone["occupation"][k]).max())
                    dc = float(np.abs(np.diag(got["correlation_matrix"][k]) - got["occupation"][k]).max())
                    worst = max(worst, dd, dc)
                    if dd > 1e-8 or dc > 1e-8:
                        rep.fail(f"emu-mps run with observables {name}: occupation differs from the run with [Occupation] alone by {dd:.3e} "
                                 f"(and from the diagonal of its own correlation matrix by {dc:.3e}) at evaluation time {ev[k]}",
                                 dict(data, variant=name))
            dref = float(np.abs(alone["occupation"][-1] - ref[0]).max())
            if dref > 1e-3:
                rep.fail(f"emu-mps run: final occupation differs from the expm reference by {dref:.3e}", dict(data, variant="reference"))
        except Exception as e:
            rep.fail(f"emu-mps run raised {type(e).__name__}: {e}", data, klass=None)
    rep.extra["oracle_mps_runs_max_diff"] = max(worst, rep.extra.get("oracle_mps_runs_max_diff", 0.0))


# ------------------------------------------------------------------ check
def check(rep: Report, tier: str, seed: int) -> None:
    import time
    import torch
    torch.manual_seed(seed)
    rep.rule = ("cases from one PRNG; correspondence: dyadic unnormalised state vectors (1-8 qubits), Hermitian and general "
                "dyadic matrices (1-5), C06-style dyadic Hamiltonian parameters with exact (cos,sin) tables, CPU and batched "
                "h_eff; oracle: gaussian normalised states / mixed states for emu-sv, gaussian unnormalised non-canonical MPS "
                "(2-8 atoms, bond <= 4, 0..n-2 dark atoms, random cut for the entropy) for emu-mps; every MPS observable (incl. expect_batch with 3 "
                "random operators, correlation with a custom operator) on qubit and qutrit states whose recorded orthogonality centre is None / "
                "every site (set by orthogonalize, apply, get_correlation_matrix); 8 callback orders per shared fill_results-style state; real "
                "emu-mps runs of 3-4 atoms with [CorrelationMatrix, Occupation] (and two more lists) vs [Occupation] alone; the REAL "
                "MPSBackendImpl/NoisyMPSBackendImpl.fill_results (hand-built impl, spy observable recording the state and Hamiltonian handed "
                "to the callbacks) in {Lindblad noise, none} x {dark atoms, none} (+ 3 levels, + max_bond_dim=1 / precision=0.2): injected "
                "states of norm 0.3..3 and 2-4 step runs whose norm decays without a jump (random.uniform patched to 0) or is truncated away")
    rep.assumptions = [
        "emu-mps: entanglement entropy and the truncation inside hamiltonian @ hamiltonian are validated against dense definitions "
        "(1e-9), not proved",
        "torch.linalg.vector_norm(x)**2 is compared with the exact sum of squares at 1e-12 relative",
        "binary64 rounding outside the theorems",
    ]
    t0 = time.time()
    lean_stage(rep, PROP_MODULE, AUDIT, thorough=(tier == "thorough"))
    ob, cmd = list(rep.obligations), rep.checker_cmd
    lean_stage(rep, MPS_MODULE, MPS_AUDIT, thorough=(tier == "thorough"))
    rep.obligations = ob + [o for o in rep.obligations if o not in ob]
    rep.checker_cmd = cmd + " ; " + rep.checker_cmd
    rep.extra["t_lean_stage_s"] = round(time.time() - t0, 1)
    # third Lean stage (Props/C13Energy: heavier Mathlib imports) on a scratch report, concurrently with the Python side
    from harness.props.extra_stage import ExtraLeanStage
    energy_stage = ExtraLeanStage(rep, [(ENERGY_MODULE, ENERGY_AUDIT)], thorough=(tier == "thorough"))
    energy_stage.start()
    correspondence(rep, seeded(seed * 7919 + 13), tier)
    oracle_sv(rep, seeded(seed * 104729 + 13), 24 if tier == "quick" else 300)
    oracle_mps(rep, seeded(seed * 1299709 + 13), 60 if tier == "quick" else 600)
    oracle_mps_centres(rep, seeded(seed * 15485863 + 13), 6 if tier == "quick" else 120)
    oracle_mps_order(rep, seeded(seed * 32452843 + 13), 6 if tier == "quick" else 100)
    oracle_mps_runs(rep, seeded(seed * 49979687 + 13), 2 if tier == "quick" else 20)
    t1 = time.time()
    from harness.props import c13_mps
    c13_mps.run(rep, tier, seed, Driver())
    rep.extra["t_mps_correspondence_s"] = round(time.time() - t1, 1)
    t1 = time.time()
    from harness.props import c13_energy
    c13_energy.run(rep, tier, seed, Driver())
    rep.extra["t_energy_bridge_s"] = round(time.time() - t1, 1)
    energy_stage.merge()
    rep.extra["t_total_s"] = round(time.time() - t0, 1)
    if rep.broken and not rep.unknown_failing():
        search(rep, seed, 100 if tier == "quick" else 1000)


def search(rep: Report, seed: int, count: int) -> None:
    oracle_sv(rep, seeded(seed * 15485863 + 13), count)
    rep.extra["search_cases"] = count


def replay(rep: Report, path: str) -> int:
    """re-evaluates stored emu-sv inputs against numpy; MPS inputs are rebuilt from the stored factors"""
    np, torch, tio = _imports()
    cb, SV, DM, RH, RL = _sv_impls()
    from harness.props import c06
    data = json.load(open(path))
    bad = 0
    for f in data.get("failing_inputs", []):
        d = f["data"]
        if d.get("kind") == "sv":
            n = d["n"]
            v = np.array([complex(*z) for z in d["vec"]])
            st = SV(torch.from_numpy(v), gpu=False)
            nk = [tio.np_embed(n, k, tio.NOP) for k in range(n)]
            occ = cb.qubit_occupation_sv_impl(None, config=None, state=st, hamiltonian=None).numpy()
            cor = cb.correlation_matrix_sv_impl(None, config=None, state=st, hamiltonian=None).numpy()
            err = max(abs(occ - np.array([np.vdot(v, nk[k] @ v).real for k in range(n)])).max(),
                      abs(cor - np.array([[np.vdot(v, nk[a] @ (nk[b] @ v)).real for b in range(n)] for a in range(n)])).max())
            P = dict(n=n, om=[complex(x) for x in d["om"]], de=[complex(x) for x in d["de"]], U=d["U"], phis=d["phis"], table={})
            Hn = tio.np_dense_h(d["om"], d["de"], [math.cos(p) for p in d["phis"]], [math.sin(p) for p in d["phis"]], d["U"], n)
            H = c06.build_h(P)
            r2 = np.vdot(Hn @ v, Hn @ v).real
            err = max(err, abs(float(H.expect(st)) - np.vdot(v, Hn @ v).real) / (1 + abs(r2)),
                      abs(float(cb.energy_second_moment_sv_impl(None, config=None, state=st, hamiltonian=H)) - r2) / (1 + abs(r2)))
            print(f"replay: emu-sv n={n} worst err {err:.3e}", "FAILS" if err > RTOL_ORACLE else "holds now")
            bad += err > RTOL_ORACLE
        elif d.get("kind") == "mps":
            from emu_mps.mps import MPS
            import emu_mps.custom_callback_implementations as mcb
            bonds, n_well = d["bonds"], sum(d["mask"])
            fs = [torch.tensor([complex(*z) for z in f], dtype=torch.complex128).reshape(bonds[i], 2, bonds[i + 1])
                  for i, f in enumerate(d["factors"])]
            psi = mps_to_dense(np, fs)
            psi = psi / np.linalg.norm(psi)
            st = MPS([f.clone() for f in fs], orthogonality_center=None, num_gpus_to_use=0)
            st = 1 / st.norm() * st
            occ = mcb.qubit_occupation_mps_impl(None, config=None, state=st, hamiltonian=None).numpy()
            nk = [tio.np_embed(n_well, k, tio.NOP) for k in range(n_well)]
            err = abs(occ - np.array([np.vdot(psi, nk[k] @ psi).real for k in range(n_well)])).max()
            cor = mcb.correlation_matrix_mps_impl(None, config=None, state=st, hamiltonian=None).numpy()
            err_c = abs(cor - np.array([[np.vdot(psi, nk[a] @ (nk[b] @ psi)).real for b in range(n_well)] for a in range(n_well)])).max()
            err = max(err, err_c)
            print(f"replay: emu-mps occupation / correlation (well-prepared part) n={n_well} err {err:.3e}",
                  "FAILS" if err > RTOL_ORACLE else "holds now")
            bad += err > RTOL_ORACLE
        elif d.get("kind") == "mps-centre":
            dd, bonds = d["d"], d["bonds"]
            fs = [torch.tensor([complex(*z) for z in f], dtype=torch.complex128).reshape(bonds[i], dd, bonds[i + 1])
                  for i, f in enumerate(d["factors"])]
            ops = torch.stack([torch.tensor([complex(*z) for z in o], dtype=torch.complex128).reshape(dd, dd) for o in d["ops"]])
            pr = d["prep"]
            prep = (pr[0],) if len(pr) == 1 else ((pr[0], pr[1], ops[1]) if pr[0] == "apply" else (pr[0], pr[1]))
            out = centre_case(np, torch, dd, bonds, fs, prep, ops, d["cut"])
            errs = {k: float(np.abs(np.asarray(v[0]) - np.asarray(v[1])).max()) / out["_scale"] for k, v in out.items() if not k.startswith("_")}
            w = max(errs.items(), key=lambda kv: kv[1])
            print(f"replay: emu-mps, recorded centre {out['_centre']} (set by {pr[0]}): worst {w[0]} err {w[1]:.3e}",
                  "FAILS" if w[1] > RTOL_ORACLE else "holds now")
            bad += w[1] > RTOL_ORACLE
        elif d.get("kind") == "mps-order":
            bonds, mask = d["bonds"], d["mask"]
            fs = [torch.tensor([complex(*z) for z in f], dtype=torch.complex128).reshape(bonds[i], 2, bonds[i + 1])
                  for i, f in enumerate(d["factors"])]
            drive = (d["om"], d["de"], d["ph"], d["U"], d["cut"])
            import random
            got = order_case(np, torch, tio, random.Random(0), sum(mask), mask, d["order"], fs, bonds, drive)
            ref, sc = order_reference(np, tio, sum(mask), mask, fs, drive)
            errs = {k: float(np.abs(np.asarray(v) - np.asarray(ref[k])).max()) / (sc if k in ("energy", "second moment", "variance") else 1.0)
                    for k, v in got.items()}
            w = max(errs.items(), key=lambda kv: kv[1])
            print(f"replay: emu-mps callbacks in order {d['order']}: worst {w[0]} err {w[1]:.3e}", "FAILS" if w[1] > RTOL_ORACLE else "holds now")
            bad += w[1] > RTOL_ORACLE
        elif d.get("kind") == "mps-run":
            from harness import compat
            import pulser.backend as pb
            case = {x: d[x] for x in ("n", "steps", "om", "de", "ph", "U", "dt")}
            tt = [case["dt"] * k for k in range(case["steps"] + 1)]

            def run(obs):
                data_ = compat.make_sequence_data(case["om"], case["de"], case["ph"], case["U"], tt)
                cfg = compat.mps_config(observables=[o(evaluation_times=[1.0]) for o in obs], dt=int(case["dt"]), precision=1e-10,
                                        optimize_qubit_ordering=False)
                return np.asarray(torch.as_tensor(compat.run_mps(data_, cfg).get_result("occupation", 1.0)).tolist())
            e = float(np.abs(run([pb.CorrelationMatrix, pb.Occupation]) - run([pb.Occupation])).max())
            print(f"replay: emu-mps run, [CorrelationMatrix, Occupation] vs [Occupation]: occupation differs by {e:.3e}",
                  "FAILS" if e > 1e-8 else "holds now")
            bad += e > 1e-8
        elif d.get("kind") == "mps-fill-real":
            from harness.props import c13_mps
            bad += c13_mps.replay_fill(d)
        elif d.get("kind") in ("energy-exact", "energy-run"):
            from harness.props import c13_energy
            bad += c13_energy.replay_case(d)
        else:
            print("replay: no stored input for", f["what"][:100])
    return 1 if bad else 0
