"""C13 (energy) — the C05 <-> C11 bridge on the real code (not a check by itself: called from c13.check).

Lean: `EmuVerif.Props.C13Energy` — the enumerated factors of `Model/HamMPO` read as Tensor-model MPO factors
(`Model/HamBridge.toTensor`) have the dense Hamiltonian as operator semantics, hence `MPO.expect(H-MPO, psi)` =
`sum conj(psi_s) <s|H_dense|t> psi_t` for every MPS, after any `update_H` sequence, with dark-atom padding, and the
reported energy of a normalised MPS is >= the ground energy of H_dense.

(i) exact stream — the REAL `make_H` / `update_H` factors fed to the REAL `MPO.expect` on Gaussian-integer product and
    entangled MPS, compared (as exact rationals, no tolerance) with the driver's `hb.energy`:
      E = `Model.Tensor.expect` on `toTensor (updateH ... (factors P))`   (left-hand side of `energy_eq_denseEnergy`)
      D = `denseEnergy (denseElem P ...)`                                   (its right-hand side, the dense builder)
      V = `validChain`                                                      (`ham_mpo_valid`)
    N = 2..6; every sparsity pattern of the pairs for N <= 4 (both Hamiltonian types), sampled N = 5, 6 and dim 3;
    0, 1 or 2-3 `update_H` calls with dyadic complex drives, taped cos/sin and complex noise blocks.
    A disagreement is re-examined against an independent numpy dense Hamiltonian (c05.dense_reference style, exact
    inputs): if the real code deviates it becomes a failing input with replay, otherwise the correspondence is broken.
(ii) always-on numeric oracle — the real `Energy` observable of short emu-mps runs (hand-built `SequenceData`, real
    `MPSBackendImpl` / `NoisyMPSBackendImpl.progress()`, with and without dark atoms, qubits and 3 levels, Rydberg and
    XY) against <psi|H_dense|psi> with H_dense built independently from the drive rows and the interaction matrix of
    the step (1e-9 relative to 1 + ||H||), psi = the normalised state handed to the callbacks.
"""
from __future__ import annotations

import contextlib
import io
import itertools
from fractions import Fraction
from unittest import mock

from harness.common import Driver, LeanError, Report

TOL_ORACLE = 1e-9
MAX_FAIL = 8          # failing inputs recorded per stream (the counts are in the evidence)
EIG = {2: ("r", "g"), 3: ("g", "r", "x")}
EIG_XY = {2: ("u", "d"), 3: ("u", "d", "x")}
THEOREM = ("Props.C13Energy.energy_eq_dense_hamiltonian / energy_after_updates / padded_energy_eq_dense: MPO.expect of the "
           "Hamiltonian factors is sum conj(psi_s) <s|H_dense|t> psi_t with the dense Pulser Hamiltonian of the step")


def _imports():
    import numpy as np
    import torch
    from harness import compat
    compat.install()
    from harness.props import tensor_util as tu
    from harness.props import c05
    from emu_mps.mps import MPS
    return np, torch, tu, c05, MPS


# ----------------------------------------------------------------------------- exact helpers
def parse_cq(tok: str):
    a, b = tok.split("@")
    return Fraction(a), Fraction(b)


def show_cq(q) -> str:
    return "none" if q is None else f"{q[0]}{'+' if q[1] >= 0 else '-'}{abs(q[1])}i"


def frac_of_complex(z):
    z = complex(z)
    return Fraction(z.real), Fraction(z.imag)


def parse_reply(line: str):
    """`V=1 E=a@b D=c@d` -> (valid, E or None, D)"""
    parts = dict(p.split("=", 1) for p in line.split())
    return parts["V"] == "1", (None if parts["E"] == "none" else parse_cq(parts["E"])), parse_cq(parts["D"])


def exact_dense_energy(np, c05, typ, dim, U, last, fs):
    """independent dense reference on exact (dyadic) inputs: numpy Hamiltonian built Pulser-style from the LAST
    update (oc = omega*cos, os = omega*sin given) and the contracted state; float64, exact for these magnitudes"""
    n = len(U)
    Uf = [[float(x) for x in r] for r in U]
    H = c05.dense_reference(typ, dim, Uf, [0.0] * n, [0.0] * n, [0.0] * n, [[0j] * dim for _ in range(dim)])
    if last is not None:
        om, de, cs, sn, noise = last

        def kb(a, b):
            m = np.zeros((dim, dim), dtype=complex)
            m[a, b] = 1.0
            return m
        for k in range(n):
            oc, os_ = om[k] * cs[k], om[k] * sn[k]
            hk = oc * 0.5 * (kb(0, 1) + kb(1, 0)) + os_ * (-0.5j * kb(0, 1) + 0.5j * kb(1, 0)) - de[k] * kb(1, 1) \
                + np.array(noise, dtype=complex)
            m = np.ones((1, 1), dtype=complex)
            for i in range(n):
                m = np.kron(m, hk if i == k else np.eye(dim, dtype=complex))
            H = H + m
    psi = fs[0].numpy()
    for f in fs[1:]:
        psi = np.tensordot(psi, f.numpy(), axes=([psi.ndim - 1], [0]))
    psi = psi.reshape(-1)
    return complex(np.vdot(psi, H @ psi)), float(np.abs(H).max()), float(np.vdot(psi, psi).real)


def real_energy(torch, c05, MPS, typ, dim, U, steps, fs):
    """the real code: make_H, the update_H calls in sequence on the same MPO, MPO.expect on the MPS"""
    n = len(U)
    Uf = [[float(x) for x in r] for r in U]
    ham = c05.impl_make(typ, dim, Uf)
    for (om, de, cs, sn, noise) in steps:
        c05.impl_update(ham, om, de, [0.0] * n, noise, cos_sin=(cs, sn))
    st = MPS([f.clone() for f in fs], num_gpus_to_use=0, eigenstates=EIG[dim], orthogonality_center=None)
    return complex(ham.expect(st))


def ser_case(typ, dim, U, steps, fs):
    return dict(kind="energy-exact", typ=typ, dim=dim, U=[[str(x) for x in r] for r in U],
                steps=[dict(om=[[z.real, z.imag] for z in om], de=[[z.real, z.imag] for z in de], cs=cs, sn=sn,
                            noise=[[[z.real, z.imag] for z in r] for r in noise]) for om, de, cs, sn, noise in steps],
                bonds=[f.shape[0] for f in fs] + [1],
                factors=[[[complex(z).real, complex(z).imag] for z in f.reshape(-1).tolist()] for f in fs])


def deser_case(torch, d):
    U = [[Fraction(x) for x in r] for r in d["U"]]
    steps = [([complex(*z) for z in s["om"]], [complex(*z) for z in s["de"]], s["cs"], s["sn"],
              [[complex(*z) for z in r] for r in s["noise"]]) for s in d["steps"]]
    b, dim = d["bonds"], d["dim"]
    fs = [torch.tensor([complex(*z) for z in f], dtype=torch.complex128).reshape(b[i], dim, b[i + 1])
          for i, f in enumerate(d["factors"])]
    return d["typ"], dim, U, steps, fs


def confirm_exact(rep: Report, what: str, typ, dim, U, steps, fs) -> bool:
    """model and real code disagree on an exact case: decide on the real code against numpy. True = real code deviates."""
    np, torch, tu, c05, MPS = _imports()
    try:
        got = real_energy(torch, c05, MPS, typ, dim, U, steps, fs)
    except Exception as e:
        rep.fail(f"emu-mps make_H/update_H/MPO.expect raised {type(e).__name__}: {e}", ser_case(typ, dim, U, steps, fs))
        return True
    ref, hmax, nrm = exact_dense_energy(np, c05, typ, dim, U, steps[-1] if steps else None, fs)
    err = abs(got - ref) / (1.0 + hmax * nrm)
    if err > TOL_ORACLE:
        rep.fail(f"emu-mps energy: MPO.expect(make_H/update_H factors, psi) = {got:.12g} but <psi|H_dense|psi> = {ref:.12g} "
                 f"({what}; type {typ}, dim {dim}, N {len(U)}, {len(steps)} update_H calls). Violates {THEOREM}",
                 ser_case(typ, dim, U, steps, fs))
        return True
    return False


# ----------------------------------------------------------------------------- (i) exact stream
def rand_mps(rng, torch, n, d, chi):
    """dense Gaussian-integer MPS: entries re, im in {-1, 0, 1} (about a third zero), no all-zero factor;
    magnitudes: |amp| <= (chi*sqrt2)^n, so every intermediate of MPO.expect stays far below 2^53 / 2^7"""
    bonds = [1] + [rng.randint(1, chi) for _ in range(n - 1)] + [1]
    fs = []
    for i in range(n):
        vals = [complex(rng.choice([-1, 0, 1, 1]), rng.choice([-1, 0, 0, 1])) for _ in range(bonds[i] * d * bonds[i + 1])]
        if all(v == 0 for v in vals):
            vals[rng.randrange(len(vals))] = 1j
        fs.append(torch.tensor(vals, dtype=torch.complex128).reshape(bonds[i], d, bonds[i + 1]))
    return fs


def exact_plan(rng, c05, tier):
    quick = tier == "quick"
    plan = []
    for n in (2, 3, 4):
        for bits in c05.all_patterns(n):
            for typ in ("ryd", "xy"):
                plan.append((typ, 2, n, bits))
    extra = [(5, 2, 24), (6, 2, 10), (2, 3, 4), (3, 3, 8), (4, 3, 6)] if quick else \
        [(5, 2, 1024), (6, 2, 200), (2, 3, 8), (3, 3, 64), (4, 3, 128), (5, 3, 40)]
    for n, dim, cnt in extra:
        if not quick and n == 5 and dim == 2:
            for bits in c05.all_patterns(5):
                plan.append((rng.choice(["ryd", "xy"]), 2, 5, bits))
            continue
        for _ in range(cnt):
            plan.append((rng.choice(["ryd", "xy"]), dim, n, c05.random_pattern(n, rng)))
    return plan


def exact_stream(rep: Report, rng, tier: str, drv: Driver) -> None:
    np, torch, tu, c05, MPS = _imports()
    lines, cases, raised = [], [], 0
    for ci, (typ, dim, n, bits) in enumerate(exact_plan(rng, c05, tier)):
        U = c05.pattern_U(n, bits, rng)
        nupd = rng.choice([0, 1, 1, 2, 3]) if ci % 3 else 1
        kinds = [rng.choice(c05.STEP_KINDS) for _ in range(nupd)]
        if nupd >= 2 and rng.random() < 0.4:
            kinds[-1] = "zero"                      # an all-zero step after driven ones: no stale terms
        steps = [c05.gen_single(rng, n, dim, noisy=rng.random() < 0.6, kind=k) for k in kinds]
        chi = 1 if rng.random() < 0.3 else (rng.choice([2, 2, 3]) if n <= 4 else 2)
        fs = rand_mps(rng, torch, n, dim, chi)
        try:
            got = real_energy(torch, c05, MPS, typ, dim, U, steps, fs)
        except Exception as e:
            raised += 1
            if raised <= MAX_FAIL:
                rep.fail(f"emu-mps make_H/update_H/MPO.expect raised {type(e).__name__}: {e}", ser_case(typ, dim, U, steps, fs))
            continue
        if steps:
            args = [c05.single_args(*s) for s in steps]
            sites, noises = ";".join(a[0] for a in args), ";".join(a[1] for a in args)
        else:
            sites, noises = "make", "-"
        lines.append(" ".join(["hb.energy", typ, str(dim), str(n), c05.qlist(x for r in U for x in r), sites, noises,
                               tu.enc_chain(fs, "z")]))
        cases.append((typ, dim, U, steps, fs, got, kinds))
        rep.hist("energy_exact_N_dim", f"{n}/{dim}")
        rep.hist("energy_exact_type", typ)
        rep.hist("energy_exact_updates", len(steps))
        rep.hist("energy_exact_mps", "product" if all(f.shape[0] == 1 for f in fs) else "entangled")
    try:
        out = c05.batch_parallel(lines, 12 if tier == "thorough" else 3)
    except LeanError as e:
        rep.broke("driver (hb.energy): " + str(e)[-800:])
        return
    dis = nonzero = 0
    for line, reply, (typ, dim, U, steps, fs, got, kinds) in zip(lines, out, cases):
        n = len(U)
        nontriv = any(x != 0 for r in U for x in r)
        rep.case(key=line, nontrivial=nontriv, trace=False,
                 sample=dict(stream="energy-exact", type=typ, dim=dim, N=n, updates=kinds, energy=str(got)))
        try:
            valid, E, D = parse_reply(reply)
        except Exception:
            rep.broke(f"driver reply not understood for `{line[:200]}`: {reply[:200]}")
            continue
        g = frac_of_complex(got)
        nonzero += g != (0, 0)
        bad = []
        if not valid:
            bad.append("model: toTensor(factors) is not a valid MPO chain (ham_mpo_valid)")
        if E is None or E != D:
            bad.append(f"model: Tensor.expect on the converted factors {show_cq(E)} != dense builder {show_cq(D)} (energy_eq_denseEnergy)")
        if E != g:
            bad.append(f"real MPO.expect {show_cq(g)} != model Tensor.expect {show_cq(E)}")
        if D != g:
            bad.append(f"real MPO.expect {show_cq(g)} != model dense <psi|H|psi> {show_cq(D)}")
        if bad:
            dis += 1
            if dis > MAX_FAIL:
                continue
            if not confirm_exact(rep, "; ".join(bad), typ, dim, U, steps, fs) and dis <= 5:
                rep.broke(f"correspondence energy bridge (Model.HamBridge / Model.Tensor vs make_H, update_H, MPO.expect) "
                          f"typ={typ} dim={dim} N={n} updates={kinds} U={[[str(x) for x in r] for r in U]}: " + "; ".join(bad))
    rep.extra["energy_exact_cases"] = len(lines)
    rep.extra["energy_exact_disagreements"] = dis
    rep.extra["energy_exact_real_code_raised"] = raised
    rep.extra["energy_exact_nonzero_values"] = nonzero


# ----------------------------------------------------------------------------- (ii) oracle on real runs
def run_params(rng, typ, d, noise, dark):
    n = rng.randint(2, 4) + (1 if dark else 0)
    mask = [True] * n
    if dark:
        for q in rng.sample(range(n), rng.randint(1, n - 2)):
            mask[q] = False
    steps = rng.randint(2, 3)
    om = [[rng.uniform(2, 12) for _ in range(n)] for _ in range(steps)]
    de = [[rng.uniform(-8, 8) for _ in range(n)] for _ in range(steps)]
    ph = [[rng.choice([0.0, rng.uniform(-3, 3)]) for _ in range(n)] for _ in range(steps)]
    if rng.random() < 0.3:                              # a step with no drive at all (all-zero single-site terms)
        k = rng.randrange(steps)
        om[k], de[k], ph[k] = [0.0] * n, [0.0] * n, [0.0] * n
    U = [[0.0] * n for _ in range(n)]
    for a in range(n):
        for b in range(a + 1, n):
            if rng.random() < 0.75:
                U[a][b] = U[b][a] = rng.choice([-1, 1]) * rng.uniform(0.3, 9.0) if typ == "xy" else rng.uniform(0.3, 12.0)
    return dict(kind="energy-run", typ=typ, n=n, d=d, mask=mask, noise=noise, gamma=rng.uniform(2.0, 8.0), steps=steps, dt=100.0,
                om=om, de=de, ph=ph, U=U, seed=rng.randrange(10 ** 6))


def run_impl(P):
    np, torch, tu, c05, MPS = _imports()
    from harness import compat
    from harness.props import c13_mps
    import pulser.backend as pb
    from emu_mps.mps_backend_impl import create_impl
    n, d, steps = P["n"], P["d"], P["steps"]
    ev = [k / steps for k in range(steps + 1)]
    ops = []
    if P["noise"]:
        L = torch.zeros(d, d, dtype=tu.DT)
        L[0, 1] = P["gamma"] ** 0.5
        ops.append(L)
    bad = [not m for m in P["mask"]]
    xy = P["typ"] == "xy"
    data = compat.make_sequence_data(P["om"], P["de"], P["ph"], P["U"], [P["dt"] * k for k in range(steps + 1)],
                                     bad_atoms=bad, state_prep_error=0.1 if any(bad) else 0.0, lindblad_ops=ops,
                                     eigenstates=(EIG_XY[d] if xy else (EIG[d] if d == 3 else ("r", "g"))),
                                     hamiltonian_type="XY" if xy else "Rydberg")
    spy = c13_mps.spy_class()(evaluation_times=ev)
    cfg = compat.mps_config(observables=[spy, pb.Energy(evaluation_times=ev)], dt=int(P["dt"]), precision=1e-10,
                            optimize_qubit_ordering=False)
    return create_impl(data, cfg), ev


def run_case(P):
    """real emu-mps run; returns the deviations (what, err) of the reported Energy from <psi|H_dense|psi>"""
    np, torch, tu, c05, MPS = _imports()
    import random as pyrandom
    n, d, mask, steps = P["n"], P["d"], P["mask"], P["steps"]
    with contextlib.redirect_stdout(io.StringIO()):               # XYHamiltonianMPOFactors prints on construction
        impl, ev = run_impl(P)
    pyrandom.seed(P["seed"])
    torch.manual_seed(P["seed"])
    with mock.patch("random.uniform", lambda a, b: 0.0), contextlib.redirect_stdout(io.StringIO()):   # no quantum jump
        impl.init()
        while not impl.is_finished():
            impl.progress()
    good = [i for i, m in enumerate(mask) if m]
    Ug = [[P["U"][a][b] for b in good] for a in good]
    zn = [[0j] * d for _ in range(d)]
    out = []
    P["_worst"], P["_emax"] = 0.0, 0.0
    for k, t in enumerate(ev):
        if k == 0:
            continue                                            # before the first step no drive row has been applied
        rec = impl.results.get_result("verif_handed_state", t)
        psi = rec["psi"]
        nrm2 = float(np.vdot(psi, psi).real)
        full = (psi / np.sqrt(nrm2)).reshape((d,) * n)
        red = full[tuple(slice(None) if m else 0 for m in mask)].reshape(-1)     # dark atoms sit in level 0
        lost = 1.0 - float(np.vdot(red, red).real)
        row = k - 1
        H = c05.dense_reference(P["typ"], d, Ug, [P["om"][row][i] for i in good], [P["de"][row][i] for i in good],
                                [P["ph"][row][i] for i in good], zn)
        want = float(np.vdot(red, H @ red).real)
        got = float(torch.as_tensor(impl.results.get_result("energy", t)).real)
        scale = 1.0 + float(np.abs(H).sum(axis=1).max())
        if lost > 1e-9:
            out.append((f"at t={t:g} the padded state handed to the callbacks has weight {lost:.3e} outside the dark atoms' level 0", lost))
        err = abs(got - want) / scale
        P["_worst"], P["_emax"] = max(P["_worst"], err), max(P["_emax"], abs(want))
        if not err <= TOL_ORACLE:
            out.append((f"Energy at t={t:g} (drive row {row}) = {got:.12g}, but <psi|H_dense|psi> = {want:.12g} on the normalised "
                        f"state handed to the callbacks (rel. err {err:.3e})", err))
    return out


def oracle_runs(rep: Report, rng, tier: str) -> None:
    quick = tier == "quick"
    plan = [("ryd", 2, False, False), ("ryd", 2, False, True), ("ryd", 2, True, False), ("ryd", 3, False, False),
            ("xy", 2, False, False), ("ryd", 2, True, True), ("xy", 2, False, True), ("ryd", 3, True, False)]
    worst, cnt, seen, emax, nfail = 0.0, 0, 0.0, 0.0, 0
    for rnd in range(2 if quick else 16):
        for typ, d, noise, dark in plan:
            P = run_params(rng, typ, d, noise, dark)
            cnt += 1
            rep.case(key=("energy-run", rnd, typ, d, noise, dark), nontrivial=True, trace=False)
            rep.hist("energy_run", f"{typ}/d={d}/{'noise' if noise else 'noiseless'}/{'dark' if dark else 'all-good'}")
            try:
                dev = run_case(P)
            except Exception as e:
                P.pop("_worst", None), P.pop("_emax", None)
                rep.fail(f"emu-mps run (type {typ}, d={d}, noise={noise}, dark atoms={dark}) raised {type(e).__name__}: {e}", P)
                continue
            seen, emax = max(seen, P.pop("_worst", 0.0)), max(emax, P.pop("_emax", 0.0))
            for what, err in dev[:2]:
                worst = max(worst, err)
                nfail += 1
                if nfail > MAX_FAIL:
                    continue
                rep.fail(f"emu-mps Energy observable [{typ}; d={d}; {'Lindblad noise' if noise else 'no noise'}; mask {P['mask']}]: "
                         f"{what}. Violates {THEOREM}", P)
    rep.extra["energy_run_cases"] = cnt
    rep.extra["energy_run_max_dev"] = worst
    rep.extra["energy_run_max_err_observed"] = seen
    rep.extra["energy_run_max_abs_energy"] = emax


# ----------------------------------------------------------------------------- entry points
def run(rep: Report, tier: str, seed: int, drv: Driver | None = None) -> None:
    from harness.common import seeded
    drv = drv or Driver()
    exact_stream(rep, seeded(seed * 5003 + 137), tier, drv)
    oracle_runs(rep, seeded(seed * 5011 + 137), tier)
    rep.assumptions += [
        "energy bridge (Props.C13Energy): the model factors of Model.HamMPO are the torch tensors of make_H/update_H (C05's exact "
        "entry-by-entry correspondence; here additionally MPO.expect on the real factors = the model's Tensor.expect on the converted "
        "model factors = the dense builder, exactly, on Gaussian-integer MPS); binary64 rounding outside the theorems; the "
        "variational corollary takes <psi|psi> = 1 as a hypothesis (fill_results normalises: normalised_of_inverse_norm)",
    ]


def replay_case(d) -> int:
    np, torch, tu, c05, MPS = _imports()
    if d.get("kind") == "energy-exact":
        typ, dim, U, steps, fs = deser_case(torch, d)
        try:
            got = real_energy(torch, c05, MPS, typ, dim, U, steps, fs)
        except Exception as e:
            print(f"replay: emu-mps make_H/update_H/MPO.expect raised {type(e).__name__}: {e} FAILS")
            return 1
        ref, hmax, nrm = exact_dense_energy(np, c05, typ, dim, U, steps[-1] if steps else None, fs)
        err = abs(got - ref) / (1.0 + hmax * nrm)
        print(f"replay: emu-mps energy (type {typ}, dim {dim}, N {len(U)}, {len(steps)} update_H calls): MPO.expect = {got:.12g}, "
              f"<psi|H_dense|psi> = {ref:.12g}", "FAILS" if err > TOL_ORACLE else "holds now")
        return int(err > TOL_ORACLE)
    try:
        dev = run_case(d)
    except Exception as e:
        print(f"replay: emu-mps run (type {d['typ']}, d={d['d']}, mask={d['mask']}) raised {type(e).__name__}: {e} FAILS")
        return 1
    w = max(dev, key=lambda x: x[1]) if dev else None
    print(f"replay: emu-mps Energy of a real run (type {d['typ']}, d={d['d']}, noise={d['noise']}, mask={d['mask']}):",
          (w[0] + " FAILS") if w else "equals <psi|H_dense|psi> at every evaluation time: holds now")
    return 1 if dev else 0
