"""C13, emu-mps half — correspondence for `Model/MpsObs.lean` (not a check by itself: called from c13.check).

Ties the theorems of `Props/C13Mps.lean` to emu_mps/mps.py (`MPS.expect_batch`, `MPS.norm`,
`MPS.get_correlation_matrix`) and emu_mps/custom_callback_implementations.py (`qubit_occupation_mps_impl`):

* exact stream (Gaussian integers, every number compared as an integer): matrix product states that are
  *exactly* in canonical form around a recorded centre `c` (left/right isometries built from unit entries
  1, -1, i, -i on distinct rows, arbitrary Gaussian-integer centre), every centre position incl. 0 and n-1,
  qubits and qutrits; `torch.linalg.qr` replaced by an exact isometric factorisation `q = P†`, `r = P·m`
  (`P` a phase-permutation matrix: `q·r = m`, `q†·q = 1` hold exactly, which is all the theorems assume).
  Compared: `expect_batch` (3 random non-Hermitian operators) with the model's two loops *and* with the
  model's dense sums `Σ conj(amp s)·Π f_k·amp t` (the right-hand side of `expect_batch_eq_dense`),
  `qubit_occupation_mps_impl`, `norm()**2`, `get_correlation_matrix` (default `n` and a custom operator; the
  table from the factor snapshots after each `orthogonalize(left)`, and the dense two-site sums).
* tape stream (real `torch.linalg.qr`, model at binary64, 1e-10): random complex MPS with a recorded centre or
  `None`; the recorded `r` factors are the model's tape; the hypotheses of the theorems (canonical form of the
  factors, Gram identity `r†r = m†m` of every recorded `r`) are validated numerically on every case.
* `fill_results` stream (1e-10): `1/norm * state`, `extended_mps_factors`, recorded centre mapped by
  `get_extended_site_index`: reported occupations / correlations of the padded normalised state against the model's
  dense sums on the *reduced unnormalised* factors divided by `norm²` (`scaled_*`, `padded_*` theorems): dark atoms 0.
* the REAL `fill_results` (`oracle_fill_results`): `create_impl` on hand-built SequenceData in {Lindblad noise, none} x
  {dark atoms, none} (+ 3 levels, + `max_bond_dim=1` / `precision=0.2`), a spy observable records the state and the
  Hamiltonian handed to the callbacks; (a) `impl.state` replaced by an MPS of norm 0.3..3, (b) 2-4 step runs with
  `random.uniform` patched to 0 (no jump: the norm decays) or lossy truncation. Checked: the state handed over has
  `<psi|psi> = 1`, is the padded back-end state, and every reported observable equals its definition on the normalised
  state (1e-8) — what `normalised_of_inverse_norm` / `scaled_observable` require.
"""
from __future__ import annotations

import json
from unittest import mock

from harness.common import Driver, LeanError, Report

RTOL_TAPE = 1e-10
EIG = {2: ("r", "g"), 3: ("g", "r", "x")}
UNITS = [1, -1, 1j, -1j]


def _imports():
    import numpy as np
    import torch
    from harness import compat
    compat.install()
    from harness.props import tensor_util as tu
    from emu_mps.mps import MPS
    return np, torch, tu, MPS


# ----------------------------------------------------------------------------- generators
def canonical_bonds(rng, n, d, c, chi):
    """bond dimensions compatible with exact isometries around centre c"""
    b = [1] * (n + 1)
    for i in range(c):                      # left isometry (b_i*d) x b_{i+1}: b_{i+1} <= b_i*d
        b[i + 1] = rng.randint(1, min(chi, b[i] * d))
    for i in range(n - 1, c, -1):           # right isometry b_i x (d*b_{i+1}): b_i <= d*b_{i+1}
        b[i] = rng.randint(1, min(chi, d * b[i + 1]))
    return b


def exact_isometry(rng, torch, tu, rows, cols):
    """(rows x cols) matrix with orthonormal columns and entries in {0, 1, -1, i, -i}"""
    m = torch.zeros(rows, cols, dtype=tu.DT)
    for j, r in enumerate(rng.sample(range(rows), cols)):
        m[r, j] = rng.choice(UNITS)
    return m


def canonical_chain(rng, torch, tu, n, d, c, chi, cap=2):
    b = canonical_bonds(rng, n, d, c, chi)
    fs = []
    for i in range(n):
        if i < c:
            fs.append(exact_isometry(rng, torch, tu, b[i] * d, b[i + 1]).reshape(b[i], d, b[i + 1]))
        elif i > c:
            fs.append(exact_isometry(rng, torch, tu, d * b[i + 1], b[i]).T.contiguous().reshape(b[i], d, b[i + 1]))
        else:
            fs.append(tu.rand_int_site(rng, b[i], (d,), b[i + 1], cap))
    return b, fs


class IsoQr:
    """exact replacement of torch.linalg.qr: q = P^dagger (rows x rows), r = P m with P a phase-permutation matrix;
    q r = m and q^dagger q = 1 hold exactly on Gaussian-integer input. Records (m, q, r)."""

    def __init__(self, rng, torch, tu):
        self.rng, self.torch, self.tu, self.calls = rng, torch, tu, []

    def __call__(self, m, *a, **kw):
        torch = self.torch
        rows = m.shape[0]
        P = torch.zeros(rows, rows, dtype=self.tu.DT)
        perm = list(range(rows))
        self.rng.shuffle(perm)
        for i, p in enumerate(perm):
            P[i, p] = self.rng.choice(UNITS)
        q, r = P.conj().T.contiguous(), P @ m.to(self.tu.DT)
        self.calls.append((m.detach().clone(), q.clone(), r.clone()))
        return q, r


class RecQr:
    """real torch.linalg.qr, recording (m, q, r)"""

    def __init__(self, torch):
        self._real, self.calls = torch.linalg.qr, []

    def __call__(self, m, *a, **kw):
        q, r = self._real(m, *a, **kw)
        self.calls.append((m.detach().clone(), q.detach().clone(), r.detach().clone()))
        return q, r


def enc_rmat(tu, r, kind):
    return f"{r.shape[0]}:{r.shape[1]}|{tu.enc_vals(r, kind)}"


def enc_ops(tu, ops, kind):
    return " ".join([str(len(ops))] + [tu.enc_vals(o, kind) for o in ops])


def dec_rows(tu, tok, kind):
    if tok == "-":
        return []
    return [[tu.DEC[kind](v) for v in row.split(",")] for row in tok.split(";")]


def rand_ops(rng, torch, tu, d, k=3):
    return [torch.tensor([[complex(rng.randint(-2, 2), rng.randint(-2, 2)) for _ in range(d)] for _ in range(d)], dtype=tu.DT)
            for _ in range(k)]


def np_embed(np, n, d, q, op):
    out = np.array([[1.0 + 0j]])
    for k in range(n):
        out = np.kron(out, op if k == q else np.eye(d, dtype=complex))
    return out


def is_canonical(np, fs, c, tol):
    """numerical check of the hypothesis `Canonical fs c`"""
    worst = 0.0
    for i, f in enumerate(fs):
        a = f.numpy()
        if i < c:
            m = a.reshape(-1, a.shape[2])
            worst = max(worst, float(np.abs(m.conj().T @ m - np.eye(m.shape[1])).max()))
        elif i > c:
            m = a.reshape(a.shape[0], -1)
            worst = max(worst, float(np.abs(m @ m.conj().T - np.eye(m.shape[0])).max()))
    return worst <= tol, worst


def gram_defect(np, m, r):
    m, r = m.numpy(), r.numpy()
    return float(np.abs(r.conj().T @ r - m.conj().T @ m).max()) / max(1.0, float(np.abs(m).max()) ** 2)


# ----------------------------------------------------------------------------- the streams
class Stream:
    def __init__(self, rep):
        self.rep, self.lines, self.cmp, self.post = rep, [], [], []

    def add(self, name, line, fn, data=None):
        self.lines.append(line)
        self.cmp.append((name, fn, data))

    def run(self, drv):
        if not self.lines:
            return
        try:
            out = drv.batch(self.lines)
        except LeanError as e:
            self.rep.broke("driver (Model.MpsObs): " + str(e)[-800:])
            return
        bad = {}
        for line, reply, (name, fn, data) in zip(self.lines, out, self.cmp):
            self.rep.case(key=hash(line), nontrivial=True, sample={"what": name})
            self.rep.hist("mps_corr_kind", name)
            try:
                msg = fn(reply)
            except Exception as e:
                msg = f"unreadable model reply {reply[:80]!r}: {type(e).__name__}: {e}"
            if msg:
                bad[name] = bad.get(name, 0) + 1
                if bad[name] <= 2:
                    self.rep.broke(f"correspondence Model.MpsObs vs emu_mps [{name}]: {msg}; line={line[:240]}")
                if data is not None and bad[name] <= 3:
                    confirm_on_real_code(self.rep, name, data)
        self.rep.extra["mps_correspondence_lines"] = self.rep.extra.get("mps_correspondence_lines", 0) + len(self.lines)
        self.rep.extra["mps_correspondence_disagreements"] = self.rep.extra.get("mps_correspondence_disagreements", 0) + sum(bad.values())


def confirm_on_real_code(rep, name, data):
    """a disagreement between model and code is turned into a concrete failing input when the real code (real qr,
    nothing patched) also deviates from the dense definition on the same factors"""
    np, torch, tu, MPS = _imports()
    if data.get("kind") == "mps":
        return confirm_fill(rep, name, data)
    d, bonds = data["d"], data["bonds"]
    fs = [torch.tensor([complex(*z) for z in f], dtype=tu.DT).reshape(bonds[i], d, bonds[i + 1]) for i, f in enumerate(data["factors"])]
    ops = torch.stack([torch.tensor([complex(*z) for z in o], dtype=tu.DT).reshape(d, d) for o in data["ops"]])
    n = len(fs)
    psi = tu.dense_state(fs).numpy()
    c = data["prep"][1] if len(data["prep"]) > 1 else 0
    ref = np.array([[np.vdot(psi, np_embed(np, n, d, q, o.numpy()) @ psi) for o in ops] for q in range(n)])
    ok_ = [np_embed(np, n, d, q, ops[0].numpy()) for q in range(n)]
    refc = np.array([[(np.vdot(psi, ok_[a] @ psi) if a == b else np.vdot(psi, ok_[a] @ (ok_[b] @ psi))).real for b in range(n)] for a in range(n)])
    nop = np.zeros((d, d), dtype=complex)
    nop[1, 1] = 1.0
    refo = np.array([np.vdot(psi, np_embed(np, n, d, q, nop) @ psi).real for q in range(n)])
    sc = max(1.0, float(np.vdot(psi, psi).real))
    try:
        import emu_mps.custom_callback_implementations as mcb
        st = MPS([f.clone() for f in fs], orthogonality_center=None, num_gpus_to_use=0, eigenstates=EIG[d])
        st.orthogonalize(c)
        eb = st.expect_batch(ops).numpy()
        occ = mcb.qubit_occupation_mps_impl(None, config=None, state=st, hamiltonian=None).numpy()
        cm = st.get_correlation_matrix(operator=ops[0]).numpy()
    except Exception as e:  # the real code raising on a valid state is itself a failing input
        rep.fail(f"emu-mps observable raised {type(e).__name__}: {e}", dict(data, observable="raise"), klass=None)
        return
    e1, e2, e3 = float(np.abs(eb - ref).max()) / sc, float(np.abs(cm - refc).max()) / sc, float(np.abs(occ - refo).max()) / sc
    if e1 > 1e-9:
        rep.fail(f"emu-mps expect_batch (d={d}, n={n}, recorded orthogonality centre {c}): differs from the dense definition by {e1:.3e} "
                 f"(found through the Model.MpsObs correspondence [{name}])", dict(data, observable="expect_batch"))
    if e3 > 1e-9:
        rep.fail(f"emu-mps occupation (d={d}, n={n}, recorded orthogonality centre {c}): differs from <psi|n_i|psi> by {e3:.3e} "
                 f"(found through the Model.MpsObs correspondence [{name}])", dict(data, observable="occupation"))
    if e2 > 1e-9:
        rep.fail(f"emu-mps get_correlation_matrix(operator) (d={d}, n={n}): differs from <O_i O_j> (diagonal <O_i>) by {e2:.3e} "
                 f"(found through the Model.MpsObs correspondence [{name}])", dict(data, observable="correlation(operator)"))


def confirm_fill(rep, name, data):
    """fill_results-style input (kind "mps" of c13.replay): occupation of the normalised state vs numpy"""
    np, torch, tu, MPS = _imports()
    bonds, nw = data["bonds"], sum(data["mask"])
    fs = [torch.tensor([complex(*z) for z in f], dtype=tu.DT).reshape(bonds[i], 2, bonds[i + 1]) for i, f in enumerate(data["factors"])]
    psi = tu.dense_state(fs).numpy()
    psi = psi / np.linalg.norm(psi)
    nop = np.array([[0, 0], [0, 1]], dtype=complex)
    ref = np.array([np.vdot(psi, np_embed(np, nw, 2, q, nop) @ psi).real for q in range(nw)])
    try:
        import emu_mps.custom_callback_implementations as mcb
        st = MPS([f.clone() for f in fs], orthogonality_center=None, num_gpus_to_use=0)
        st = 1 / st.norm() * st
        occ = mcb.qubit_occupation_mps_impl(None, config=None, state=st, hamiltonian=None).numpy()
    except Exception as e:
        rep.fail(f"emu-mps observable raised {type(e).__name__}: {e}", dict(data, observable="raise"), klass=None)
        return
    err = float(np.abs(occ - ref).max())
    if err > 1e-9:
        rep.fail(f"emu-mps occupation of the normalised state (n={nw}): differs from the dense definition by {err:.3e} "
                 f"(found through the Model.MpsObs correspondence [{name}])", dict(data, observable="occupation"))


def guarded(rep, data, fn):
    """run real-code calls; an exception escaping the real code is a candidate finding, not a harness error"""
    try:
        return True, fn()
    except Exception as e:
        rep.fail(f"emu-mps observable raised {type(e).__name__}: {e}", dict(data, observable="raise"), klass=None)
        return False, None


def _ser(fs):
    return [[[z.real, z.imag] for z in f.reshape(-1).tolist()] for f in fs]


def exact_stream(rep: Report, rng, tier: str, S: Stream) -> None:
    np, torch, tu, MPS = _imports()
    import emu_mps.custom_callback_implementations as mcb
    quick = tier == "quick"
    # ---- expect_batch / occupation / norm on exactly canonical states, every centre
    shapes = []
    for n in ([2, 3, 4, 5] if quick else [2, 3, 4, 5, 6, 7]):
        for d in (2, 3):
            if d == 3 and n > (4 if quick else 5):
                continue
            for c in range(n):
                shapes.append((n, d, c))
    if quick:
        keep = [s for s in shapes if s[2] in (0, s[0] - 1)]            # both edge centres always
        rest = [s for s in shapes if s not in keep]
        rng.shuffle(rest)
        shapes = keep + rest[:10]
    else:
        shapes = shapes * 3                                            # every centre of every size, three states each
    for (n, d, c) in shapes:
        bonds, fs = canonical_chain(rng, torch, tu, n, d, c, 3)
        ops = rand_ops(rng, torch, tu, d)
        st = MPS([f.clone() for f in fs], orthogonality_center=c, num_gpus_to_use=0, eigenstates=EIG[d])
        tape = IsoQr(rng, torch, tu)
        data = dict(kind="mps-centre", d=d, bonds=bonds, factors=_ser(fs), prep=["orthogonalize", c], ops=_ser(ops), cut=0)

        def real_eb(st=st, tape=tape, ops=ops):
            with mock.patch("torch.linalg.qr", tape):
                return st.expect_batch(torch.stack(ops))
        ok, res = guarded(rep, data, real_eb)
        if not ok:
            continue
        nr = n - 1 - c
        rt, lt = [r for _, _, r in tape.calls[:nr]], [r for _, _, r in tape.calls[nr:]]
        rep.hist("mps_exact_centre", f"n={n}/c={'0' if c == 0 else ('n-1' if c == n - 1 else 'mid')}")
        if not tu.is_exact(res, *rt, *lt):                      # magnitude guard only; a wrong number of qr calls is a finding:
            rep.count("mps_exact_cases_skipped")             # the model then answers `none` (tape too short) or a different table
            continue
        want = [[complex(z) for z in row] for row in res.tolist()]

        def cmp_rows(reply, want=want):
            if not reply.startswith("ok "):
                return f"model answered {reply[:40]!r}, the real code returned a table"
            got = dec_rows(tu, reply[3:], "z")
            return None if got == want else f"table differs: model {got} real {want}"
        chain = tu.enc_chain(fs, "z")
        S.add("expect_batch", f"mo.eb z {d} {c} {chain} {enc_ops(tu, ops, 'z')} {len(rt)} " + " ".join(enc_rmat(tu, r, 'z') for r in rt)
              + f" {len(lt)} " + " ".join(enc_rmat(tu, r, 'z') for r in lt), cmp_rows, data)
        if d ** n <= 32:
            S.add("expect_batch = dense definition", f"mo.dense1 z {d} {chain} {enc_ops(tu, ops, 'z')}", cmp_rows, data)
        # occupation (fresh tape: the callback runs expect_batch again)
        tape2 = IsoQr(rng, torch, tu)

        def real_occ(st=st, tape2=tape2):
            with mock.patch("torch.linalg.qr", tape2):
                return mcb.qubit_occupation_mps_impl(None, config=None, state=st, hamiltonian=None)
        ok, occ = guarded(rep, data, real_occ)
        if not ok:
            continue
        rt2, lt2 = [r for _, _, r in tape2.calls[:nr]], [r for _, _, r in tape2.calls[nr:]]
        wocc = [float(x) for x in occ.tolist()]

        def cmp_occ(reply, wocc=wocc):
            if not reply.startswith("ok "):
                return f"model answered {reply[:40]!r}"
            got = [tu.dec_z(v) for v in reply[3:].split(",")]
            if any(z.imag != 0 for z in got):
                return f"model occupation not real: {got}"
            return None if [z.real for z in got] == wocc else f"occupation differs: model {got} real {wocc}"
        S.add("qubit_occupation_mps_impl", f"mo.occ z {d} {c} {chain} {len(rt2)} " + " ".join(enc_rmat(tu, r, 'z') for r in rt2)
              + f" {len(lt2)} " + " ".join(enc_rmat(tu, r, 'z') for r in lt2), cmp_occ, data)

        def cmp_diag(reply, wocc=wocc, nrm=float(st.norm()) ** 2):
            toks = reply.split()
            got = [tu.dec_z(v) for v in toks[2].split(",")]
            n2 = tu.dec_z(toks[1])
            if [z.real for z in got] != wocc or any(z.imag for z in got):
                return f"dense occupation differs: model {got} real {wocc}"
            return None if abs(n2.real - nrm) <= 1e-12 * max(1.0, nrm) and n2.imag == 0 else f"dense norm² {n2} vs norm()**2 {nrm}"
        if n <= 6:
            S.add("occupation/norm = dense definition", f"mo.diag z {d} {chain}", cmp_diag, data)

        def cmp_norm(reply, nrm=float(st.norm()) ** 2):
            z = tu.dec_z(reply.split()[1])
            return None if abs(z.real - nrm) <= 1e-12 * max(1.0, nrm) and z.imag == 0 else f"norm² differs: model {z} real {nrm}"
        S.add("norm", f"mo.norm z {d} {c} {chain}", cmp_norm, data)
    # ---- rejecting branches
    bonds, fs = canonical_chain(rng, torch, tu, 3, 2, 1, 2)
    st = MPS([f.clone() for f in fs], orthogonality_center=1, num_gpus_to_use=0)
    for ctr, dd in [(3, 2), (7, 2), (1, 3)]:
        st.orthogonality_center = ctr
        try:
            with mock.patch("torch.linalg.qr", IsoQr(rng, torch, tu)):
                st.expect_batch(torch.zeros(1, dd, dd, dtype=tu.DT))
            raised = None
        except (IndexError, RuntimeError) as e:
            raised = type(e).__name__
        S.add("expect_batch rejecting", f"mo.eb z {dd} {ctr} {tu.enc_chain(fs, 'z')} 1 {','.join(['0@0'] * (dd * dd))} 0 0",
              lambda reply, raised=raised: None if (reply == "none") == (raised is not None) else f"real code raised {raised}, model {reply[:30]}")
    # ---- get_correlation_matrix with exactly isometric orthogonalize steps
    for i in range(6 if quick else 40):
        d = 2 if i % 3 else 3
        n = rng.choice([2, 3, 3, 4, 4] if d == 2 else [2, 3, 3])
        fs = tu.rand_int_chain(rng, n, (d,), 2, 2)
        bonds = [1] + [f.shape[2] for f in fs]
        op = rand_ops(rng, torch, tu, d, 1)[0] if i % 2 else None
        st = MPS([f.clone() for f in fs], orthogonality_center=None, num_gpus_to_use=0, eigenstates=EIG[d])
        snaps, real_orth = [], MPS.orthogonalize

        def rec_orth(self, k=0, snaps=snaps):
            r = real_orth(self, k)
            snaps.append((k, [f.clone() for f in self.factors]))
            return r
        nop = torch.zeros(d, d, dtype=tu.DT)
        nop[1, 1] = 1
        opm = nop if op is None else op
        data = dict(kind="mps-centre", d=d, bonds=bonds, factors=_ser(fs), prep=["none"], ops=_ser([opm, opm, opm]), cut=0)

        def real_cm(st=st, op=op, rec_orth=rec_orth):
            with mock.patch("torch.linalg.qr", IsoQr(rng, torch, tu)), mock.patch.object(MPS, "orthogonalize", rec_orth):
                return st.get_correlation_matrix() if op is None else st.get_correlation_matrix(operator=op)
        ok, cm = guarded(rep, data, real_cm)
        if not ok:
            continue
        if [k for k, _ in snaps] != list(range(n)) or not tu.is_exact(cm, *[f for _, s in snaps for f in s]):
            rep.count("mps_exact_cases_skipped")
            continue
        for k, s in snaps:                                 # the hypothesis of the theorems, exactly
            if not is_canonical(np, s, k, 0.0)[0]:
                rep.broke(f"harness: snapshot after orthogonalize({k}) with the exact isometric qr is not canonical")
        want = [[float(x.real) for x in row] for row in cm.tolist()]

        def cmp_tab(reply, want=want):
            if not reply.startswith("ok "):
                return f"model answered {reply[:40]!r}"
            got = [[z.real for z in row] for row in dec_rows(tu, reply[3:], "z")]
            return None if got == want else f"correlation table differs: model {got} real {want}"
        S.add("get_correlation_matrix" + ("" if op is None else "(operator)"),
              f"mo.corr z {d} {tu.enc_vals(opm, 'z')} {len(snaps)} " + " ".join(tu.enc_chain(s, 'z') for _, s in snaps), cmp_tab, data)
        S.add("correlation = dense definition", f"mo.dense2 z {d} {tu.enc_vals(opm, 'z')} {tu.enc_chain(fs, 'z')}", cmp_tab, data)
        if op is None:
            def cmp_dtab(reply, want=want):
                got = [[z.real for z in row] for row in dec_rows(tu, reply.split()[3], "z")]
                return None if got == want else f"Σ[s_i=1][s_j=1]|amp|² differs: model {got} real {want}"
            S.add("correlation(n) = Σ[s_i=1][s_j=1]|amp s|²", f"mo.diag z {d} {tu.enc_chain(fs, 'z')}", cmp_dtab, data)


def tape_stream(rep: Report, rng, tier: str, S: Stream) -> None:
    np, torch, tu, MPS = _imports()
    gen = torch.Generator().manual_seed(rng.randrange(2 ** 31))
    worst = {"canonical": 0.0, "gram": 0.0}
    state = {"worst": 0.0}
    for i in range(10 if tier == "quick" else 120):
        d = 2 if i % 3 else 3
        n = rng.randint(2, 6 if d == 2 else 4)
        bonds = [1] + [rng.randint(1, 4) for _ in range(n - 1)] + [1]
        fs = tu.rand_float_chain(gen, n, (d,), bonds)
        c = rng.choice([None] + list(range(n)))
        st = MPS([f.clone() for f in fs], orthogonality_center=None, num_gpus_to_use=0, eigenstates=EIG[d])
        ops = [torch.randn(d, d, dtype=torch.float64, generator=gen) + 1j * torch.randn(d, d, dtype=torch.float64, generator=gen)
               for _ in range(2)]
        ops = [o.to(tu.DT) for o in ops]
        data = dict(kind="mps-centre", d=d, bonds=bonds, factors=_ser(fs), prep=["none"] if c is None else ["orthogonalize", c],
                    ops=_ser(ops + [ops[0]]), cut=0)
        if c is not None:
            if not guarded(rep, data, lambda: st.orthogonalize(c))[0]:
                continue
        real_orth, at = MPS.orthogonalize, {}

        def rec_orth(self, k=0, at=at):
            r = real_orth(self, k)
            at["n_qr"] = len(tape.calls)
            return r
        tape = RecQr(torch)

        def real_eb(st=st, tape=tape, ops=ops, rec_orth=rec_orth):
            with mock.patch("torch.linalg.qr", tape), mock.patch.object(MPS, "orthogonalize", rec_orth):
                return st.expect_batch(torch.stack(ops))
        ok, res = guarded(rep, data, real_eb)
        if not ok:
            continue
        skip = at.get("n_qr", 0)                      # qr calls of the internal orthogonalize(0)
        cc = 0 if c is None else c
        facs = [f.clone() for f in st.factors]        # expect_batch does not modify them after its orthogonalize
        calls = tape.calls[skip:]
        nr = n - 1 - cc
        rt, lt = [r for _, _, r in calls[:nr]], [r for _, _, r in calls[nr:]]
        okc, wc = is_canonical(np, facs, cc, 1e-10)
        worst["canonical"] = max(worst["canonical"], wc)
        for m, _, r in calls:
            worst["gram"] = max(worst["gram"], gram_defect(np, m, r))
        rep.hist("mps_tape_centre", "None" if c is None else ("edge" if c in (0, n - 1) else "mid"))
        want = res.numpy()

        def cmp_rows(reply, want=want, state=state):
            if not reply.startswith("ok "):
                return f"model answered {reply[:40]!r}"
            got = np.array(dec_rows(tu, reply[3:], "f"))
            if got.shape != want.shape:
                return f"shape {got.shape} vs {want.shape}"
            err = float(np.abs(got - want).max()) / max(1.0, float(np.abs(want).max()))
            state["worst"] = max(state["worst"], err)
            return None if err <= RTOL_TAPE else f"expect_batch differs from the model run on the recorded r factors by {err:.3e}"
        S.add("expect_batch (real qr tape)", f"mo.eb f {d} {cc} {tu.enc_chain(facs, 'f')} {enc_ops(tu, ops, 'f')} {len(rt)} "
              + " ".join(enc_rmat(tu, r, 'f') for r in rt) + f" {len(lt)} " + " ".join(enc_rmat(tu, r, 'f') for r in lt), cmp_rows, data)
        # correlation matrix with the real qr: snapshots after each orthogonalize(left)
        if i % 2 == 0 and n <= 5:
            st2 = MPS([f.clone() for f in fs], orthogonality_center=None, num_gpus_to_use=0, eigenstates=EIG[d])
            snaps = []

            def rec2(self, k=0, snaps=snaps):
                r = real_orth(self, k)
                snaps.append((k, [f.clone() for f in self.factors]))
                return r
            def real_cm(st2=st2, rec2=rec2, ops=ops):
                with mock.patch.object(MPS, "orthogonalize", rec2):
                    return st2.get_correlation_matrix(operator=ops[0]).numpy()
            ok, cm = guarded(rep, data, real_cm)
            if not ok:
                continue
            for k, s in snaps:
                worst["canonical"] = max(worst["canonical"], is_canonical(np, s, k, 1e-10)[1])

            def cmp_tab(reply, cm=cm, state=state):
                got = np.array([[z.real for z in row] for row in dec_rows(tu, reply[3:], "f")])
                err = float(np.abs(got - cm.real).max()) / max(1.0, float(np.abs(cm).max()))
                state["worst"] = max(state["worst"], err)
                return None if err <= RTOL_TAPE else f"correlation table differs from the model on the recorded snapshots by {err:.3e}"
            S.add("get_correlation_matrix(operator) (real qr)", f"mo.corr f {d} {tu.enc_vals(ops[0], 'f')} {len(snaps)} "
                  + " ".join(tu.enc_chain(s, 'f') for _, s in snaps), cmp_tab, data)
    rep.extra["mps_hypothesis_canonical_max_defect"] = worst["canonical"]
    rep.extra["mps_hypothesis_gram_max_defect"] = worst["gram"]
    if worst["canonical"] > 1e-10 or worst["gram"] > 1e-10:
        rep.broke(f"contract: canonical form after orthogonalize / Gram identity of the recorded r violated numerically "
                  f"(defects {worst['canonical']:.2e}, {worst['gram']:.2e}) — the hypotheses of Props.C13Mps (supplied by C10) do not hold")
    S.post.append(lambda: rep.extra.__setitem__("mps_tape_max_rel_err", state["worst"]))


def fill_results_stream(rep: Report, rng, tier: str, S: Stream) -> None:
    """`1/norm * state` + `extended_mps_factors`: reported values vs the model's dense sums on the reduced unnormalised factors"""
    np, torch, tu, MPS = _imports()
    import emu_mps.custom_callback_implementations as mcb
    from emu_mps.utils import extended_mps_factors, get_extended_site_index
    gen = torch.Generator().manual_seed(rng.randrange(2 ** 31))
    state = {"worst": 0.0}
    for i in range(8 if tier == "quick" else 80):
        n = rng.randint(2, 6)
        mask = [True] * n
        if i % 2 and n >= 3:
            for q in rng.sample(range(n), rng.randint(1, n - 2)):
                mask[q] = False
        nw = sum(mask)
        bonds = [1] + [rng.randint(1, 3) for _ in range(nw - 1)] + [1]
        fs = tu.rand_float_chain(gen, nw, (2,), bonds)
        c = rng.choice([None] + list(range(nw)))
        well = [q for q, m in enumerate(mask) if m]
        rep.hist("mps_fill_dark", n - nw)
        data = dict(kind="mps", n=n, mask=mask, bonds=bonds, om=[0.0] * nw, de=[0.0] * nw, ph=[0.0] * nw, U=[[0.0] * nw] * nw, bond=0,
                    factors=_ser(fs))

        def real_fill(fs=fs, c=c, mask=mask, i=i):
            st = MPS([f.clone() for f in fs], orthogonality_center=None, num_gpus_to_use=0)
            if c is not None:
                st.orthogonalize(c)
            normalized = 1 / st.norm() * st
            if all(mask):
                full = normalized
            else:
                w = torch.tensor(mask)
                full = MPS(extended_mps_factors(normalized.factors, w), num_gpus_to_use=None,
                           orthogonality_center=get_extended_site_index(w, normalized.orthogonality_center),
                           eigenstates=normalized.eigenstates)
            # order as in a run with [CorrelationMatrix, Occupation]: the second callback sees the centre left by the first
            if i % 3 == 0:
                cor = mcb.correlation_matrix_mps_impl(None, config=None, state=full, hamiltonian=None).numpy()
                occ = mcb.qubit_occupation_mps_impl(None, config=None, state=full, hamiltonian=None).numpy()
            else:
                occ = mcb.qubit_occupation_mps_impl(None, config=None, state=full, hamiltonian=None).numpy()
                cor = mcb.correlation_matrix_mps_impl(None, config=None, state=full, hamiltonian=None).numpy()
            return occ, cor
        ok, oc = guarded(rep, data, real_fill)
        if not ok:
            continue
        occ, cor = oc

        def cmp_fill(reply, occ=occ, cor=cor, well=well, n=n, state=state):
            toks = reply.split()
            n2 = tu.dec_f(toks[1]).real
            o = [tu.dec_f(v).real / n2 for v in toks[2].split(",")]
            t = [[z.real / n2 for z in row] for row in dec_rows(tu, toks[3], "f")]
            eo, ec = np.zeros(n), np.zeros((n, n))
            for a, p in enumerate(well):
                eo[p] = o[a]
                for b, p2 in enumerate(well):
                    ec[p, p2] = t[a][b]
            err = max(float(np.abs(eo - occ).max()), float(np.abs(ec - cor).max()))
            state["worst"] = max(state["worst"], err)
            return None if err <= RTOL_TAPE else (f"occupation/correlation of the normalised padded state differ from (reduced dense sums)/norm² "
                                                  f"with 0 for dark atoms by {err:.3e}")
        S.add("fill_results: normalise + pad", f"mo.diag f 2 {tu.enc_chain(fs, 'f')}", cmp_fill, data)
    S.post.append(lambda: rep.extra.__setitem__("mps_fill_max_err", state["worst"]))


# ----------------------------------------------------------------------------- the REAL fill_results
THEOREMS = ("Props.C13Mps.normalised_of_inverse_norm / scaled_observable: fill_results must hand `(1/norm)·state` to the "
            "callbacks — observables of λψ are |λ|²× those of ψ, so an unnormalised state of norm c reports c²× the definition")
TOL_FILL = 1e-8
_SPY = {}


def spy_class():
    """an Observable that records what `fill_results` hands to the callbacks (dense state and dense Hamiltonian)"""
    if "cls" in _SPY:
        return _SPY["cls"]
    np, torch, tu, MPS = _imports()
    from pulser.backend.observable import Observable

    class HandedState(Observable):
        @property
        def _base_tag(self):
            return "verif_handed_state"

        def apply(self, *, config, state, hamiltonian=None, **kw):
            return dict(psi=tu.dense_state([f.clone() for f in state.factors]).numpy(),
                        H=tu.dense_op([f.clone() for f in hamiltonian.factors]).numpy(),
                        centre=state.orthogonality_center)
    _SPY["cls"] = HandedState
    return HandedState


def fill_impl(P):
    """hand-built MPSBackendImpl / NoisyMPSBackendImpl for the parameters P (see fill_params)"""
    np, torch, tu, MPS = _imports()
    from harness import compat
    import pulser.backend as pb
    from emu_mps.mps_backend_impl import create_impl
    n, d, steps = P["n"], P["d"], P["steps"]
    ev = [k / steps for k in range(steps + 1)]
    ops = []
    if P["noise"]:
        L = torch.zeros(d, d, dtype=tu.DT)
        L[0, 1] = P["gamma"] ** 0.5                      # relaxation r -> g: the no-jump evolution loses norm
        ops.append(L)
        if d == 3:
            L2 = torch.zeros(d, d, dtype=tu.DT)
            L2[2, 1] = (P["gamma"] / 2) ** 0.5             # leakage r -> x
            ops.append(L2)
    bad = [not m for m in P["mask"]]
    data = compat.make_sequence_data(P["om"], P["de"], P["ph"], P["U"], [P["dt"] * k for k in range(steps + 1)],
                                     bad_atoms=bad, state_prep_error=0.1 if any(bad) else 0.0, lindblad_ops=ops,
                                     eigenstates=EIG[d] if d == 3 else ("r", "g"))
    spy = spy_class()(evaluation_times=ev)
    obs = [spy, pb.Occupation(evaluation_times=ev), pb.CorrelationMatrix(evaluation_times=ev), pb.Energy(evaluation_times=ev),
           pb.EnergySecondMoment(evaluation_times=ev), pb.EnergyVariance(evaluation_times=ev)]
    if P.get("order") == "corr-first":
        obs = [obs[0], obs[2], obs[1]] + obs[3:]
    kw = dict(observables=obs, dt=int(P["dt"]), precision=P["precision"], optimize_qubit_ordering=False)
    if P.get("max_bond_dim"):
        kw["max_bond_dim"] = P["max_bond_dim"]
    cfg = compat.mps_config(**kw)
    return create_impl(data, cfg), ev


def fill_reference(np, d, n, psi, H):
    """dense definitions on the NORMALISED state"""
    nrm2 = float(np.vdot(psi, psi).real)
    v = psi / np.sqrt(nrm2)
    p = (np.abs(v) ** 2).reshape((d,) * n)
    occ = np.array([p.take(1, axis=i).sum() for i in range(n)])
    cor = np.array([[occ[i] if i == j else p.take(1, axis=max(i, j)).take(1, axis=min(i, j)).sum() for j in range(n)] for i in range(n)])
    Hv = H @ v
    e, e2 = float(np.vdot(v, Hv).real), float(np.vdot(Hv, Hv).real)
    return nrm2, dict(occupation=occ, correlation_matrix=cor, energy=e, energy_second_moment=e2, energy_variance=e2 - e * e)


def fill_case(P):
    """drive the real fill_results; returns a list of (what, error) deviations above tolerance"""
    np, torch, tu, MPS = _imports()
    import random as pyrandom
    n, d, mask = P["n"], P["d"], P["mask"]
    impl, ev = fill_impl(P)
    pyrandom.seed(P["seed"])
    torch.manual_seed(P["seed"])
    out = []
    with mock.patch("random.uniform", lambda a, b: 0.0):       # jump threshold 0: the Monte-Carlo wave function never jumps
        impl.init()
        if P["mode"] == "inject":
            bonds = P["bonds"]
            fs = [torch.tensor([complex(*z) for z in f], dtype=tu.DT).reshape(bonds[i], d, bonds[i + 1]) for i, f in enumerate(P["factors"])]
            st = MPS([f.clone() for f in fs], precision=impl.config.precision, max_bond_dim=impl.config.max_bond_dim,
                     num_gpus_to_use=0, eigenstates=impl.state.eigenstates, orthogonality_center=None)
            if P.get("centre") is not None:
                st.orthogonalize(P["centre"])
            impl.state = st
            impl.current_time = impl.target_times[-1]
            if P["noise"]:
                impl.update_H_no_noise()                 # what NoisyMPSBackendImpl.timestep_complete does before fill_results
            impl.fill_results()
            times = [1.0]
            inj = tu.dense_state(fs).numpy()
            inj = inj / np.linalg.norm(inj)
            full = np.zeros((d,) * n, dtype=complex)
            full[tuple(slice(None) if m else 0 for m in mask)] = inj.reshape((d,) * sum(mask))
            inj_full = full.reshape(-1)
        else:
            while not impl.is_finished():
                impl.progress()
            times = ev
    res = impl.results
    P["_raw_norm"] = float(impl.state.norm())            # norm of the evolving state of the back-end (not handed to callbacks)
    for t in times:
        rec = res.get_result("verif_handed_state", t)
        nrm2, ref = fill_reference(np, d, n, rec["psi"], rec["H"])
        if abs(nrm2 - 1.0) > TOL_FILL:
            out.append((f"the state handed to the callbacks at t={t:g} has <psi|psi> = {nrm2:.6f}, not 1", abs(nrm2 - 1.0)))
        if P["mode"] == "inject":
            ov = abs(np.vdot(inj_full, rec["psi"] / np.sqrt(nrm2)))
            if abs(ov - 1.0) > TOL_FILL:
                out.append((f"the state handed to the callbacks is not the (padded) state of the back-end: |overlap| = {ov:.6f}", abs(ov - 1.0)))
        sc = 1.0 + abs(ref["energy_second_moment"])
        for name, want in ref.items():
            got = np.asarray(torch.as_tensor(res.get_result(name, t)).tolist(), dtype=complex).real
            s_ = sc if name.startswith("energy") else 1.0
            err = float(np.abs(got - np.asarray(want)).max()) / s_
            if not err <= TOL_FILL:
                out.append((f"{name} at t={t:g} differs from its definition on the normalised state by {err:.3e} "
                            f"(<psi|psi> of the state handed over = {nrm2:.6f})", err))
    return out


def fill_params(rng, torch, tu, mode, noise, dark, d, lossy=False):
    n = rng.randint(3, 4) if mode == "run" else rng.randint(2, 5)
    mask = [True] * n
    if dark:
        for q in rng.sample(range(n), rng.randint(1, n - 2) if n > 2 else 0):
            mask[q] = False
        if all(mask):                                   # n = 2 cannot lose an atom (MPS.make needs two sites): add one
            n += 1
            mask = [True, False, True]
    nw = sum(mask)
    steps = rng.randint(2, 4)
    om = [[rng.uniform(4, 12) for _ in range(n)] for _ in range(steps)]
    de = [[rng.uniform(-8, 8) for _ in range(n)] for _ in range(steps)]
    ph = [[rng.choice([0.0, rng.uniform(-3, 3)]) for _ in range(n)] for _ in range(steps)]
    U = [[0.0] * n for _ in range(n)]
    for a in range(n):
        for b in range(a + 1, n):
            U[a][b] = U[b][a] = rng.uniform(0, 12)
    P = dict(kind="mps-fill-real", mode=mode, n=n, d=d, mask=mask, noise=noise, gamma=rng.uniform(4.0, 12.0), steps=steps, dt=100.0,
             om=om, de=de, ph=ph, U=U, precision=1e-10, max_bond_dim=None, seed=rng.randrange(10 ** 6),
             order=rng.choice(["occ-first", "corr-first"]))
    if lossy:                                           # truncation that loses weight: capped bond dimension or coarse precision
        if rng.random() < 0.5:
            P["max_bond_dim"] = 1
        else:
            P["precision"] = 0.2
    if mode == "inject":
        bonds = [1] + [rng.randint(1, 3) for _ in range(nw - 1)] + [1]
        gen = torch.Generator().manual_seed(P["seed"])
        fs = tu.rand_float_chain(gen, nw, (d,), bonds)
        target = rng.uniform(0.3, 3.0)                  # deliberately unnormalised
        nrm = float(torch.linalg.vector_norm(tu.dense_state(fs)))
        fs[rng.randrange(nw)] *= target / nrm
        P.update(bonds=bonds, factors=_ser(fs), centre=rng.choice([None] + list(range(nw))), target_norm=target)
    return P


def oracle_fill_results(rep: Report, rng, tier: str) -> None:
    """the real `MPSBackendImpl.fill_results` / `NoisyMPSBackendImpl` in {noise, none} x {dark atoms, none} (+ 3 levels, + lossy
    truncation): injected states of norm 0.3..3 and short runs whose norm decays (no jump) or is truncated away"""
    np, torch, tu, MPS = _imports()
    quick = tier == "quick"
    plan = []
    for noise in (False, True):
        for dark in (False, True):
            plan.append(("inject", noise, dark, 2, False))
            plan.append(("inject", noise, dark, 3 if noise else 2, False))
            plan.append(("run", noise, dark, 2, not noise))      # noiseless runs lose norm through truncation only
    plan.append(("run", True, True, 3, False))
    plan.append(("run", False, False, 2, True))
    worst = 0.0
    for rnd in range(3 if quick else 24):
        for mode, noise, dark, d, lossy in plan:
            P = fill_params(rng, torch, tu, mode, noise, dark, d, lossy)
            rep.case(key=("fill-real", rnd, mode, noise, dark, d, lossy), nontrivial=True, trace=False)
            rep.hist("mps_fill_real", f"{mode}/{'noise' if noise else 'noiseless'}/{'dark' if dark else 'all-good'}/d={d}{'/lossy' if lossy else ''}")
            try:
                dev = fill_case(P)
            except Exception as e:
                rep.fail(f"emu-mps fill_results ({mode}, noise={noise}, dark atoms={dark}, d={d}) raised {type(e).__name__}: {e}", P, klass=None)
                continue
            rep.hist("mps_fill_real_backend_norm", "lost weight (<0.999)" if P["_raw_norm"] < 0.999 else
                     ("unnormalised (>1.001)" if P["_raw_norm"] > 1.001 else "~1"))
            P.pop("_raw_norm", None)
            for what, err in dev[:3]:
                worst = max(worst, err)
                rep.fail(f"emu-mps fill_results [{mode}; {'Lindblad noise' if noise else 'no noise'}; mask {P['mask']}; d={d}"
                         f"{'; max_bond_dim=' + str(P['max_bond_dim']) if P['max_bond_dim'] else ''}"
                         f"{'; precision=' + str(P['precision']) if P['precision'] > 1e-9 else ''}]: {what}. Violates {THEOREMS}", P)
    rep.extra["mps_fill_real_cases"] = rep.extra.get("mps_fill_real_cases", 0) + len(plan) * (3 if quick else 24)
    rep.extra["mps_fill_real_max_dev"] = worst


def replay_fill(d) -> int:
    try:
        dev = fill_case(d)
    except Exception as e:      # the real code raising on this input is the failure that was recorded
        print(f"replay: real fill_results ({d['mode']}, noise={d['noise']}, mask={d['mask']}, d={d['d']}): raised {type(e).__name__}: {e} FAILS")
        return 1
    w = max(dev, key=lambda x: x[1]) if dev else None
    print(f"replay: real fill_results ({d['mode']}, noise={d['noise']}, mask={d['mask']}, d={d['d']}):",
          (w[0] + " FAILS") if w else "every observable equals its definition on the normalised state: holds now")
    return 1 if dev else 0


def run(rep: Report, tier: str, seed: int, drv: Driver | None = None) -> None:
    from harness.common import seeded
    drv = drv or Driver()
    S = Stream(rep)
    exact_stream(rep, seeded(seed * 6007 + 131), tier, S)
    tape_stream(rep, seeded(seed * 7019 + 131), tier, S)
    fill_results_stream(rep, seeded(seed * 8011 + 131), tier, S)
    oracle_fill_results(rep, seeded(seed * 9001 + 131), tier)
    S.run(drv)
    for h in S.post:
        h()
    rep.assumptions += [
        "MPS theorems (Props.C13Mps) assume the canonical form around the recorded centre (left/right isometries: C10's "
        "orthogonalize contract) and the Gram identity r†r = m†m of every r returned by torch.linalg.qr; both are validated "
        "numerically on every tape case (1e-10) and hold exactly on the exact stream",
    ]
