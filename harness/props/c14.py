"""C14 — observables are recorded exactly at their requested times
(emu_sv/sv_backend_impl.py `_is_evaluation_time`/`_apply_observables`/`_run`,
emu_mps/mps_backend_impl.py `_is_evaluation_time`/`fill_results`/`timestep_complete`, pulser's
`Observable.__call__`, `Results._store_raw`, `EmulationConfig.is_evaluation_time`).

Lean: EmuVerif.Props.C14. Correspondence: both real back-ends (TDVP and DMRG for emu-mps) run with the
evolution replaced by a recorder on hand-built SequenceData whose target times come from the real
`_get_target_times`; `results.get_result_times(obs)` of real pulser observables and the state tag read by
a probe observable are compared bit for bit with `Model.TimeGrid.runObs` at binary64; the ℚ model on
the exact rational inputs must give the same number of records. Oracle: the statement of C14 on the
real results.
"""
from __future__ import annotations

import json
import math
import random
from fractions import Fraction as Fr
from types import SimpleNamespace

from harness.common import Driver, LeanError, Report, f2b, b2f, lst, q2s, lean_stage, seeded
from harness.props import tg_common as T

REGISTRY = dict(
    text=("Lean 4 theorems over every linear ordered field (duration>0, dt>0, times in [0,1], relTol<=tol1<=tol2, any "
          "number of observables/times): a run of either back-end never raises in the bookkeeping; its records are the "
          "visited grid fractions passing both filters; record times strictly increase; a record (t,k) is computed from "
          "the state of grid index k with G[k]=t*duration; every requested time has a record within relTol and every "
          "record is within tol1 of a requested time; under SepObs (every other grid candidate further than "
          "tol1*duration from each requested time) the recorded times ARE the requested times: each exactly once, nothing "
          "else, in order, at the grid point tau*duration. SepObs is necessary (kernel-checked counterexample), and "
          "kernel-checked counterexamples document the two repaired defects D7c/D20. FULL in exact arithmetic under "
          "SepObs. Model tied to both back-ends (TDVP, DMRG, emu-sv) by bit-exact comparison of result times and state "
          "tags with the evolution stubbed out."),
    note=("Trusted: Lean kernel + propext/Classical.choice/Quot.sound; Mathlib; hand-written Model.TimeGrid tied by "
          "correspondence only; binary64 rounding outside the theorems (the recorded float tau*D/D can differ from tau by "
          "an ulp: measured); evolution kernels are stubbed (the state is abstract: the record carries the index of the "
          "grid point whose state was passed to apply); harness/compat.py shim; noisy (quantum-jump) emu-mps runs are "
          "C18's, not covered here."),
    technique="Lean 4 proof (induction over the visit loop, sorted-list extensionality) + bit-exact model/implementation correspondence",
    design_ref="DESIGN.md §5 C14",
)

PROP_MODULE = "EmuVerif.Props.C14"
AUDIT = "Audit/C14.lean"
BACKENDS = ["sv", "mps", "dmrg"]
KNIFE = "timegrid-merge-threshold-equals-pulser-tolerance"


def _ser(c, backend):
    return dict(D=c["D"], dtq=str(c["dtq"]), backend=backend,
                dflt=("Full" if c["dflt"] == "Full" else [p[1] for p in c["dflt"]]),
                obs=[None if o is None else [p[1] for p in o] for o in c["obs"]],
                grid=c.get("grid"), nsteps=c.get("nsteps"))


def _deser(d):
    def ts(l):
        return [(Fr(x), x) for x in l]
    c = dict(D=d["D"], dtq=Fr(d["dtq"]), dt=float(Fr(d["dtq"])),
             dflt=("Full" if d["dflt"] == "Full" else ts(d["dflt"])),
             obs=[None if o is None else ts(o) for o in d["obs"]])
    if d.get("grid"):
        c["grid"], c["nsteps"] = d["grid"], d["nsteps"]
    return c, d["backend"]


def backend_cfg(c, backend, observables):
    kw = {}
    if backend != "sv":
        kw["optimize_qubit_ordering"] = False
        if backend == "dmrg":
            from emu_mps import Solver
            kw["solver"] = Solver.DMRG
    return T.make_config(c, "sv" if backend == "sv" else "mps", observables, **kw)


DEMO_NOISY = dict(D=600, dtq=Fr(10), dt=10.0, dflt=[(Fr(1), 1.0)],
                  obs=[[(Fr(i, 60), i / 60) for i in range(61)], None, [(Fr(i, 60), i / 60) for i in range(0, 61, 5)]])


def real_run(c, backend):
    """Run the real bookkeeping. The last entry of c['obs'] is given to the state-tag probe.
    Returns dict(status, grid, times=[...per observable], tags=[...]) ."""
    std = dict(c, obs=c["obs"][:-1])
    observables = T.make_observables(std)
    probe_times = c["obs"][-1]
    probe = T.state_tag(None if probe_times is None else [p[1] for p in probe_times])
    observables.append(probe)
    cfg = backend_cfg(c, backend, observables)
    if "grid" in c:
        st, tt = "ok", list(c["grid"])
        nsteps = c["nsteps"]
    else:
        st, tt = T.real_grid(c, cfg)
        nsteps = len(tt) - 1 if st == "ok" else 0
    if st != "ok":
        return dict(status="err " + tt)
    nq = 2 if backend != "mps" or c["D"] % 2 else 3
    if backend == "noisy":
        plan, rate = jump_plan(c, tt)
        import torch
        lind = [math.sqrt(rate) * torch.eye(2, dtype=torch.complex128)]
        data = T.zero_data(nsteps, nq, tt, lindblad_ops=lind)
        res, log = T.run_stubbed(backend, data, cfg, jump_plan=plan, rate=rate)
    else:
        data = T.zero_data(nsteps, nq, tt)
        res, log = T.run_stubbed(backend, data, cfg)
    times = [T.result_times(res, o) for o in observables]
    tags = list(getattr(res, probe.tag)) if probe.tag in res.get_result_tags() else []
    stats = res.get_result_times("statistics") if "statistics" in res.get_result_tags() else []
    return dict(status="ok", grid=tt, nsteps=nsteps, times=times, tags=tags, log=log, stats=stats, nq=nq)


def jump_plan(c, tt):
    """Planned quantum-jump times of a noisy emu-mps run (absolute ns) and the decay rate of the stub
    evolution: jumps 0.1-0.9 ns before the end of steps whose end is a requested evaluation time (the jump is
    then located inside the last ns of the step), plus jumps in the middle and just after the start of steps."""
    rng = random.Random(c["D"] * 1000003 + len(tt))
    last = tt[-1]
    req = set()
    for j in range(len(c["obs"])):
        for _, x in eff_times(c, j):
            req.add(x)
    ends = [k for k in range(1, len(tt)) if tt[k] - tt[k - 1] > 1.5 and any(abs(tt[k] / last - x) <= 1e-10 for x in req)]
    plan = []
    for k in rng.sample(ends, min(len(ends), 4)):
        plan.append(tt[k] - rng.choice([0.1, 0.3, 0.5, 0.9]))
    for _ in range(rng.randint(0, 2)):
        k = rng.randrange(1, len(tt))
        plan.append(tt[k - 1] + rng.choice([0.5, 0.05]) * (tt[k] - tt[k - 1]))
    return sorted(set(plan)), 3.0 / last


def eff_times(c, j):
    o = c["obs"][j]
    if o is not None:
        return o
    return [] if c["dflt"] == "Full" else c["dflt"]


def sep_margin(c, j):
    """min over requested τ of observable j and other exact candidates c≠τD of |c-τD|/D (None if no other)."""
    s, _ = T.exact_candidates(c)
    D = Fr(c["D"])
    best = None
    import bisect
    for q, _x in eff_times(c, j):
        v = q * D
        i = bisect.bisect_left(s, v)
        for k in (i - 1, i, i + 1):
            if 0 <= k < len(s) and s[k] != v:
                g = abs(s[k] - v) / D
                if best is None or g < best:
                    best = g
    return best


def oracle(c, backend, r):
    """The statement of C14 on one real run (r from real_run, status ok). Returns failure or None."""
    tt = r["grid"]
    last = tt[-1]
    if r["log"]["steps"] != r["nsteps"]:
        return f"{r['log']['steps']} solver steps for {r['nsteps']} rows of Omega"
    for j in range(len(c["obs"])):
        Tj = [x for _, x in eff_times(c, j)]
        recs = r["times"][j]
        for a, b in zip(recs, recs[1:]):
            if not a < b:
                return f"observable {j}: record times not increasing ({a!r}, {b!r})"
        for t in recs:
            if not any(abs(t - x) <= T.TOL1 * (1 + 1e-6) + 1e-15 for x in Tj):
                return f"observable {j}: recorded at {t!r}, which is not a requested time {Tj[:6]}"
        for x in Tj:
            if not any(abs(t - x) <= 1e-9 for t in recs):
                return f"observable {j}: requested time {x!r} was not recorded (records {recs[:6]})"
        if "grid" not in c:
            m = sep_margin(c, j)
            if m is None or m > 2 * Fr(T.TOL1):
                if len(recs) != len(Tj):
                    return f"observable {j}: {len(recs)} records for {len(Tj)} separated requested times"
                for t, x in zip(recs, Tj):
                    if abs(t - x) > 4 * math.ulp(x):
                        return f"observable {j}: requested {x!r} recorded as {t!r}"
    # the value is computed from the state of that grid index
    probe = r["times"][-1]
    fr = [g / last for g in tt]
    if backend != "sv":
        fr[0] = 0.0 / last
    acc, accs = 0.0, [0.0]
    for k in range(r["nsteps"]):
        d = tt[k + 1] - tt[k]
        if backend == "sv":
            acc += d * 0.001
        elif backend == "mps" and r["nq"] == 3:
            acc += d / 2            # TDVP evolves the pair (0,1) by dt/2 in each half sweep
            acc += d / 2
        elif backend == "mps":
            acc += d
        accs.append(acc)
    for t, (steps, a, idx) in zip(probe, r["tags"]):
        if not (0 <= steps < len(fr)) or fr[steps] != t:
            return f"value recorded at {t!r} was computed from the state after {steps} steps (grid time {tt[min(steps, len(tt) - 1)]!r})"
        if backend in ("sv", "mps") and a != accs[steps]:
            return f"value recorded at {t!r}: evolved time {a!r} != {accs[steps]!r}"
        if idx is not None and idx != steps:
            return f"value recorded at {t!r}: back-end step index {idx} != evolution steps {steps}"
    return None


def fixed_cases():
    """Always run: the witnesses of the repaired defects D7c and D20 (must now behave), boundary cases."""
    one = [(Fr(1), 1.0)]
    tau = 0.5 - 5e-10
    return [
        ("D7c-lost-record", dict(D=1000, dtq=Fr(10), dt=10.0, dflt=one, obs=[[(Fr(tau), tau)], [(Fr(tau), tau)]])),
        ("D7c-lost-record-2", dict(D=1000, dtq=Fr(10), dt=10.0, dflt=one, obs=[[(Fr(tau), tau)], [(Fr(1, 2), 0.5)], None])),
        ("D20-spurious-default", dict(D=1000, dtq=Fr(10), dt=10.0, dflt=one, obs=[[(Fr(0.9996), 0.9996)], [(Fr(0.9996), 0.9996)]])),
        ("D20-spurious-full", dict(D=100, dtq=Fr(1, 4), dt=0.25, dflt="Full", obs=[[(Fr(0.55), 0.55)], [(Fr(0.55), 0.55)]])),
        ("D7d-knife-edge", dict(D=888, dtq=Fr(10), dt=10.0, dflt=one, obs=[[(Fr(240 / 888 + 1e-12), 240 / 888 + 1e-12)], None])),
        ("D7-dup-final", dict(D=63, dtq=Fr(7, 10), dt=0.7, dflt=one, obs=[None, None])),
        ("zero-and-one", dict(D=10, dtq=Fr(3), dt=3.0, dflt=[(Fr(0), 0.0), (Fr(1), 1.0)], obs=[None, [(Fr(0), 0.0), (Fr(1), 1.0)]])),
        ("dt-above-duration", dict(D=10, dtq=Fr(25), dt=25.0, dflt=one, obs=[[(Fr(1, 3), 1 / 3)], None])),
        ("sub-ns", dict(D=2, dtq=Fr(1, 10), dt=0.1, dflt=one, obs=[[(Fr(0.05), 0.05), (Fr(0.975), 0.975)], None])),
    ]


SEP_WITNESS = dict(D=10, dtq=Fr(5), dt=5.0, dflt=[(Fr(1), 1.0)],
                   obs=[[(Fr(1, 2) + Fr(5, 10**11), 0.5 + 5e-11)], [(Fr(1, 2) + Fr(5, 10**11), 0.5 + 5e-11)]])


def run_correspondence(rep, rng, n, tier):
    cases = [(name, c, b) for name, c in fixed_cases() for b in BACKENDS + ["noisy"]]
    cases.append(("noisy-jump-in-last-ns", DEMO_NOISY, "noisy"))
    for i in range(n // 4):
        c = T.gen_case(rng, max_points=300, small=(rng.random() < 0.3))
        c["obs"] = c["obs"] + [T.gen_times(rng, c["D"], c["dtq"], rng.choice([2, 4, 8])) or [(Fr(1), 1.0)]]
        cases.append(("gen", c, "noisy"))
    for i in range(n):
        c = T.gen_case(rng, max_points=(700 if tier == "quick" else 2000), small=(rng.random() < 0.3))
        # the probe observable gets its own times (or the default)
        k = rng.random()
        if c["dflt"] == "Full" or k < 0.6:
            pt = T.gen_times(rng, c["D"], c["dtq"], rng.choice([1, 2, 4, 8])) or [(Fr(1), 1.0)]
        elif k < 0.8 and c["obs"][0]:
            pt = list(c["obs"][0])
        else:
            pt = None
        c["obs"] = c["obs"] + [pt]
        cases.append(("gen", c, BACKENDS[i % 3]))
    # unreachable hand-built grids: fewer rows than intervals, grid not starting at 0
    for g, ns in [([0.0, 2.0, 5.0, 10.0], 2), ([2.0, 5.0, 10.0], 2), ([0.0, 2.5, 5.0, 7.5, 10.0], 1), ([1.0, 10.0], 1),
                  ([0.0, 4.999999999, 5.0, 10.0], 3)]:
        for b in BACKENDS:
            c = dict(D=10, dtq=Fr(5), dt=5.0, dflt=[(Fr(0), 0.0), (Fr(1, 2), 0.5), (Fr(1), 1.0)],
                     obs=[None, [(Fr(1, 5), 0.2), (Fr(1, 2), 0.5)], [(Fr(0), 0.0), (Fr(1, 4), 0.25), (Fr(1), 1.0)]],
                     grid=g, nsteps=ns)
            cases.append(("handbuilt", c, b))
    lines, meta = [], []
    for name, c, b in cases:
        try:
            r = real_run(c, b)
        except Exception as e:
            rep.fail(f"{b} back-end bookkeeping raised {type(e).__name__}: {str(e)[:200]}", _ser(c, b),
                     klass=(KNIFE if "unique up to" in str(e) else None))
            continue
        rep.hist("backend", b)
        rep.hist("run_status", r["status"])
        if r["status"] != "ok":
            lines.append(T.grid_line(c))
            meta.append((name, c, b, r, "grid"))
            continue
        msg = oracle(c, b, r) if name != "handbuilt" else None
        if msg:
            rep.fail(f"[{name}] {msg}", _ser(c, b), klass=None)
        rep.hist("records_per_run", min(sum(len(t) for t in r["times"]), 30))
        if b == "noisy":
            rep.hist("noisy_jumps_per_run", min(len(r["log"].get("jumps", [])) - 1, 8))
        lines.append(T.run_line(c, b != "sv", r["nsteps"], r["grid"]))
        meta.append((name, c, b, r, "run"))
        if "grid" not in c and len(r["grid"]) <= 1500:
            lines.append(f"tg.chainq {q2s(T.Q_REL_TOL)} {int(b != 'sv')} {q2s(T.Q_TOL1)} {q2s(T.Q_HALF)} {q2s(T.Q_TINY)} "
                         f"{q2s(Fr(c['D']))} {q2s(c['dtq'])} {T.dflt_arg(c['dflt'], True)} {T.obs_arg(c['obs'], True)}")
            meta.append((name, c, b, r, "chainq"))
    return lines, lambda out: _run_finish(rep, out, lines, meta)


def _run_finish(rep, out, lines, meta):
    dis = qdis = qties = qjudged = ulp = nrec = 0
    for l, m, (name, c, b, r, kind) in zip(lines, out, meta):
        if kind == "grid":
            if m != r["status"]:
                dis += 1
                rep.broke(f"correspondence (rejecting grid): model={m} impl={r['status']} {json.dumps(_ser(c, b))[:300]}")
            continue
        if kind == "run":
            rep.case(key=(b, c["D"], str(c["dtq"]), json.dumps(_ser(c, b)["obs"])), nontrivial=sum(len(t) for t in r["times"]) > 1,
                     sample=dict(backend=b, D=c["D"], dt=c["dt"], n_points=len(r["grid"]),
                                 records=[len(t) for t in r["times"]]))
            st, recs = T.parse_run(m)
            impl = [[f2b(t) for t in ts] for ts in r["times"]]
            model = [[f2b(t) for t, _ in ts] for ts in recs] if st == "ok" else None
            ok = model == impl
            if ok and r["tags"]:
                ok = [k for _, k in recs[-1]] == [s for s, _, _ in r["tags"]]
            if not ok:
                dis += 1
                if dis <= 3:
                    rep.broke(f"correspondence Model.TimeGrid.runObs (binary64) vs {b} back-end: {json.dumps(_ser(c, b))[:400]} "
                              f"model={m[:200]} impl_times={r['times']} tags={r['tags'][:5]}")
            for j, ts in enumerate(r["times"]):
                Tj = [x for _, x in eff_times(c, j)]
                for t in ts:
                    nrec += 1
                    if t not in Tj:
                        ulp += 1
        else:
            head, _, rest = m.partition(" ")
            if T.threshold_tie(c):
                qties += 1
                continue
            qjudged += 1
            if head != "ok":
                qdis += 1
                rep.broke(f"Q model raised on {json.dumps(_ser(c, b))[:300]}: {m}")
                continue
            npts, _, rs = rest.partition(" ")
            counts = [0 if p in ("-", "") else len(p.split(",")) for p in rs.split(";")]
            if int(npts) != len(r["grid"]) or counts != [len(t) for t in r["times"]]:
                qdis += 1
                if qdis <= 3:
                    rep.broke(f"Q model vs {b}: points {npts} vs {len(r['grid'])}, records {counts} vs "
                              f"{[len(t) for t in r['times']]} for {json.dumps(_ser(c, b))[:300]}")
                    rep.fail(f"rounding changes the number of records: exact {counts}, code {[len(t) for t in r['times']]}",
                             _ser(c, b), klass=None)
    rep.extra["run_disagreements"] = dis
    rep.extra["q_runs_judged"] = qjudged
    rep.extra["q_runs_near_ties_not_judged"] = qties
    rep.extra["q_record_count_disagreements"] = qdis
    rep.extra["records_total"] = nrec
    rep.extra["records_whose_float_differs_from_requested_by_rounding"] = ulp


EXC = {RuntimeError: "duptime", AssertionError: "notsorted", ValueError: "valueerror"}


def call_level(rep, rng, n):
    """Single statements from arbitrary (also unreachable) states: `is_evaluation_time`, both back-ends'
    `_is_evaluation_time`, and `Observable.__call__` + `_store_raw` on arbitrary stored lists."""
    from pulser.backend import Results
    import emu_sv.sv_backend_impl as svi
    import emu_mps.mps_backend_impl as mi
    lines, expect = [], []
    lat = [i / 16 for i in range(-2, 19)]
    for i in range(n):
        dflt = rng.choice(["Full", None, None, None])
        if dflt is None:
            dflt = [(Fr(x), x) for x in sorted(set(rng.choice(lat[2:19]) for _ in range(rng.randint(1, 4))))]
        own = None if rng.random() < 0.4 else [(Fr(x), x) for x in sorted(set(rng.choice(lat[2:19]) for _ in range(rng.randint(1, 4))))]
        base = rng.choice(lat)
        t = base + rng.choice([0.0, 0.0, 1e-10, -1e-10, 1.0000000001e-10, 9e-11, 2e-10, -2e-10, 1e-6, -1e-6, 1e-3, 6e-3, 0.03])
        c = dict(D=10, dtq=Fr(1), dt=1.0, dflt=dflt, obs=[own])
        probe = T.state_tag(None if own is None else [p[1] for p in own], suffix=f"c{i}")
        cfg_sv = T.make_config(c, "sv", [probe])
        cfg_mps = T.make_config(c, "mps", [probe])
        for cfg, fn, slf in ((cfg_sv, svi.SVBackendImpl._is_evaluation_time, SimpleNamespace(_config=cfg_sv)),
                             (cfg_mps, mi.MPSBackendImpl._is_evaluation_time, SimpleNamespace(config=cfg_mps))):
            # the stand-in carries what a changed implementation might plausibly read as well
            slf.results = SimpleNamespace(total_duration=c["D"])
            slf.target_times = [0.0, float(c["D"])]
            try:
                e = "ok " + ("1" if fn(slf, cfg.observables[0], t) else "0")
            except ValueError:
                e = "err valueerror"
            except Exception as ex:   # anything else escaping the real statement is a disagreement, not a harness error
                e = "err " + type(ex).__name__
            lines.append(f"tg.pass1 {f2b(T.TOL1)} {T.dflt_arg(dflt)} {T.obs_arg([own])} {f2b(t)}")
            expect.append(e)
        tol = rng.choice([1e-10, 1e-6, 0.05, 0.0])
        try:
            e = "ok " + ("1" if cfg_sv.is_evaluation_time(t, tol=tol) else "0")
        except ValueError:
            e = "err valueerror"
        lines.append(f"tg.cfg {f2b(tol)} {T.dflt_arg(dflt)} {f2b(t)}")
        expect.append(e)
        # Observable.__call__ + _store_raw from an arbitrary stored list
        td = rng.choice([0, 1, 10, 10, 100, 1000, 7])
        stored = sorted(set(rng.choice(lat[2:19]) for _ in range(rng.randint(0, 4))))
        if rng.random() < 0.15 and len(stored) > 1:
            stored = stored[::-1]                      # unreachable: not sorted
        res = Results(atom_order=("q0", "q1"), total_duration=td)
        if stored:
            res._times[probe.uuid] = list(stored)
            res._results[probe.uuid] = [None] * len(stored)
            res._tagmap[probe.tag] = probe.uuid
        try:
            probe(cfg_sv, t, None, None, res)
            e = "ok " + lst(f2b(x) for x in res._times.get(probe.uuid, []))
        except (RuntimeError, AssertionError, ValueError) as ex:
            e = "err " + EXC[type(ex)]
        lines.append(f"tg.call {f2b(T.HALF)} {f2b(T.TINY)} {td} {T.dflt_arg(dflt)} {T.obs_arg([own])} "
                     f"{lst(f2b(x) for x in stored)} {f2b(t)}")
        expect.append(e)
        rep.hist("call_outcome", e.split()[0] + (" " + e.split()[1] if e.startswith("err") else ""))
    return lines, expect


def check(rep: Report, tier: str, seed: int) -> None:
    rep.rule = ("cases = (duration, dt, default times, observables' times, back-end) from one PRNG (generator of C21: durations "
                "1..10000, dividing/non-dividing/oversized dt, rational and irrational fractions, 0 and 1, dt multiples, "
                "near-duplicates 1e-16..1e-6 across observables and next to dt multiples, 'Full'), run on emu-sv, emu-mps TDVP, "
                "DMRG and the noisy (quantum-jump) emu-mps back-end with scripted jumps inside the last ns of steps ending at a "
                "requested time, with real Occupation/Energy/BitStrings observables and a probe observable reading the state tag; "
                "plus the D7c/D20 witnesses, boundary cases, hand-built unreachable grids, and single calls of "
                "_is_evaluation_time / is_evaluation_time / Observable.__call__ from arbitrary stored lists on a 1/16 "
                "lattice hit at ±1e-10. non-trivial = more than one record; distinct = distinct (back-end, case)")
    rep.assumptions = [
        "evolution kernels stubbed: the state is abstract, identified by the number of evolution steps applied and the "
        "accumulated evolved time (emu-sv, TDVP) or the back-end's step index (DMRG)",
        "binary64: a requested tau is recorded as the float tau*D/D (counted in records_whose_float_differs…); the Q model "
        "must agree on the number of grid points and records except within a decade of the 1e-12 / 1e-10 thresholds "
        "(counted as near ties, not judged)",
        "SepObs (no other grid candidate within 1e-10*duration of a requested time) for the exactly-once clause; without it "
        "only 'at least once, nothing further than 1e-10 away' is checked",
        "tol1 <= tol2, i.e. int(duration) <= 5e9 ns",
    ]
    T.compat.install()
    lean_stage(rep, PROP_MODULE, AUDIT, thorough=(tier == "thorough"))
    rng = seeded(seed * 7919 + 14)
    l0, finish = run_correspondence(rep, rng, 150 if tier == "quick" else 1000, tier)
    l1, e1 = call_level(rep, rng, 500 if tier == "quick" else 10000)
    # the SepObs witness of Props.C14.sep_needed, replayed on the real code (documented, not a failure)
    try:
        r = real_run(SEP_WITNESS, "sv")
        rep.extra["sep_witness_records_real_code"] = r["times"][0]
        rep.notes.append("SepObs witness (duration 10, dt 5, tau = 0.5+5e-11): real emu-sv records "
                         f"{r['times'][0]} — two records for one requested time, as Props.C14.sep_needed predicts")
    except Exception as e:  # noqa
        rep.notes.append(f"SepObs witness raised {type(e).__name__}: {e}")
    try:
        out = Driver().batch(l0 + l1)
    except LeanError as e:
        rep.broke("driver: " + str(e)[-800:])
        out = None
    if out is not None:
        finish(out[:len(l0)])
        bad = 0
        for l, m, e in zip(l1, out[len(l0):], e1):
            rep.case(key=l[:160], nontrivial=True)
            if m != e:
                bad += 1
                if bad <= 3:
                    rep.broke(f"call-level correspondence: line={l[:300]} model={m[:120]} impl={e[:120]}")
        rep.extra["call_level_disagreements"] = bad
        rep.extra["call_level_cases"] = len(l1)
    if rep.broken and not rep.unknown_failing():
        search(rep, seed, 400 if tier == "quick" else 8000)


def search(rep: Report, seed: int, n: int) -> None:
    """Failing-input search on the real back-ends: the oracle on fresh cases, guided towards requested times
    next to other candidates (where every past defect of this property lived)."""
    rng = seeded(seed * 104729 + 14)
    for i in range(n):
        c = T.gen_case(rng, max_points=400, small=(i % 2 == 0))
        base = rng.choice([Fr(1), Fr(1, 2), Fr(rng.randint(0, 10), 10)])
        d = rng.choice([-1, 1]) * Fr(rng.choice([1, 4, 5]), 10 ** rng.choice([4, 6, 9, 10, 11, 13]))
        x = float(min(max(base + d, Fr(0)), Fr(1)))
        c["obs"] = c["obs"] + [[(Fr(x), x)]]
        b = BACKENDS[i % 3]
        try:
            r = real_run(c, b)
        except Exception as e:
            rep.fail(f"{b} back-end bookkeeping raised {type(e).__name__}: {str(e)[:200]}", _ser(c, b))
            return
        if r["status"] == "ok":
            msg = oracle(c, b, r)
            if msg:
                rep.fail(msg, _ser(c, b))
                return
    rep.extra["search_cases"] = n


def replay(rep: Report, path: str) -> int:
    T.compat.install()
    data = json.load(open(path))
    bad = 0
    for f in data.get("failing_inputs", []):
        c, b = _deser(f["data"])
        try:
            r = real_run(c, b)
            msg = oracle(c, b, r) if r["status"] == "ok" else r["status"]
        except Exception as e:
            msg = f"raised {type(e).__name__}: {e}"
        print("replay:", msg or "property holds on this input now")
        bad += bool(msg)
    return 1 if bad else 0
