"""C15 — sampled bitstrings follow the state's measurement distribution
(emu_mps/mps.py:MPS.sample, emu_sv/state_vector.py, emu_sv/density_matrix_state.py, emu_base/utils.py).

Lean: EmuVerif.Props.C15 (count invariant of the batch loop, telescoping of the conditional weights =
Born rule under the multinomial contract, outcome→bit map, read-out flips, guard precedence).
Correspondence: DETERMINISTIC — `torch.multinomial` and `random.random` are replaced by tapes
(unittest.mock.patch); `Model/Sampling.lean` and the real code must then produce the same Counter, and
the weights handed to `torch.multinomial` must equal the model's conditional weights (Gaussian-integer
states; 1e-14 relative because the code squares a `vector_norm`, i.e. a sqrt enters).
Oracle on the real code with the real RNG: total counts, key format, atom order, leakage level, the rate
0 / rate 1 read-out, and χ² / binomial acceptance tests at a fixed family-wise error of 1e-6 per run
(supporting validation of the two RNG contracts only).
"""
from __future__ import annotations

import json
import math
import random
from collections import Counter
from unittest import mock

from harness.common import Driver, LeanError, Report, lean_stage, seeded, f2b

REGISTRY = dict(
    text=("Lean 4 theorems: the batch loop of MPS.sample returns exactly num_shots counts for every num_shots and batch "
          "size (loop invariant); for a right-orthonormal factor the conditional weights add up to the squared norm of the "
          "accumulator, so under the multinomial contract the probability of a level string is |amp|^2/sum|amp|^2 (telescoping "
          "product of the conditionals the code computes; the general product form is also proved equal to the executable "
          "definition); '1' iff level 1, character i = site i, injective for qubits, leakage level reads 0; read-out: 0->1 iff "
          "u<p_false_pos, 1->0 iff u<p_false_neg, one fresh draw per character used for that character only, totals "
          "preserved, rates 0 and 1; the or/and guard of MPS.sample as Python parses it; state vectors: weights |psi_i|^2, "
          "bit i = binary digit n-1-i. ASSUMED (stated, validated statistically): torch.multinomial draws x with probability "
          "w_x/sum w, random.random is uniform on [0,1), draws independent; orthogonalize(0) makes the tail right-orthonormal "
          "(C10). Model tied to the code by deterministic tape-driven correspondence (identical Counters and weights)."),
    note=("Trusted: Lean kernel + propext/Classical.choice/Quot.sound; Mathlib; hand-written Model.Sampling tied by "
          "correspondence only; the RNG contracts (multinomial, uniform) are assumptions — the chi-square/binomial acceptance "
          "tests (family-wise error 1e-6 per run) only support them; measure-theoretic independence is not formalised: the "
          "theorems state it structurally (one fresh draw per character). torch.abs (a sqrt) in the sv/dm weights is compared "
          "with relative tolerance 4e-16·4."),
    technique="Lean 4 proof (loop invariant, telescoping identity via index bijection) + deterministic tape-driven model/implementation correspondence + statistical acceptance as supporting validation",
    design_ref="DESIGN.md §5 C15",
)

PROP_MODULE = "EmuVerif.Props.C15"
AUDIT = "Audit/C15.lean"
EIG = {2: ("r", "g"), 3: ("g", "r", "x")}
FWER = 1e-6          # family-wise error of all statistical tests of one run
N_STAT_TESTS = 1024  # Bonferroni denominator: upper bound on the number of tests of one run (thorough: 200, + search)


def _imports():
    import torch
    from emu_mps import MPS
    from emu_sv import StateVector, DensityMatrix
    from harness.props import tensor_util as tu
    return torch, MPS, StateVector, DensityMatrix, tu


# =============================================================================== tapes
class MultinomialTape:
    """stand-in for torch.multinomial: inverse-CDF on the weights it is given with uniforms from `rng`
    (so outcomes always have non-zero weight); records (weights, outcomes)."""

    def __init__(self, rng):
        self.rng, self.calls = rng, []

    def __call__(self, w, num_samples=1, replacement=False, **kw):
        import torch
        w2 = w.detach().to(torch.float64)
        rows = w2.reshape(1, -1) if w2.ndim == 1 else w2
        out = []
        for row in rows.tolist():
            tot = sum(row)
            if not tot > 0:     # what the real kernel does on an all-zero row
                raise RuntimeError("invalid multinomial distribution (sum of probabilities <= 0)")
            picks = []
            for _ in range(num_samples):
                u, acc, pick = self.rng.random() * tot, 0.0, None
                for i, x in enumerate(row):
                    acc += x
                    if x > 0 and u < acc:
                        pick = i
                        break
                if pick is None:
                    pick = max(i for i, x in enumerate(row) if x > 0)
                picks.append(pick)
            out.append(picks)
        res = torch.tensor(out, dtype=torch.int64)
        self.calls.append((w2.clone(), res.clone()))
        return res[0] if w2.ndim == 1 else res


class UniformTape:
    """stand-in for random.random: values from a lattice that hits `u == p` and 0.0 often"""

    def __init__(self, rng, rates):
        self.rng, self.rates, self.draws = rng, [r for r in rates if 0 < r < 1], []

    def __call__(self):
        r = self.rng.random()
        if r < 0.15 and self.rates:
            u = self.rng.choice(self.rates)                      # exactly the rate: `u < p` is False
        elif r < 0.2:
            u = 0.0
        elif r < 0.3 and self.rates:
            u = math.nextafter(self.rng.choice(self.rates), 0.0)  # one ulp below the rate
        else:
            u = self.rng.random()
        self.draws.append(u)
        return u


class ErrorsSpy:
    """wraps apply_measurement_errors where the sample methods look it up: records input, draws used, output"""

    def __init__(self, ut: "UniformTape"):
        self.ut, self.calls = ut, []

    def __call__(self, bitstrings, *, p_false_pos, p_false_neg):
        from emu_base.utils import apply_measurement_errors
        k0 = len(self.ut.draws)
        out = apply_measurement_errors(bitstrings, p_false_pos=p_false_pos, p_false_neg=p_false_neg)
        self.calls.append((dict(bitstrings), p_false_pos, p_false_neg, list(self.ut.draws[k0:]), dict(out)))
        return out

    def judge(self, rep):
        for ctr, pfp, pfn, draws, out in self.calls:
            msg = errors_tape_oracle(ctr, pfp, pfn, draws, out)
            if msg and len(draws) <= 4000:
                rep.fail(msg, {"kind": "errors_tape", "counter": ctr, "pfp": pfp, "pfn": pfn, "draws": draws})


def _rates(rng):
    return rng.choice([0.0, 0.0, 1.0, 0.25, 0.5, 0.01, rng.random()])


def _counter_line(c: Counter) -> str:
    return ",".join(f"{k}:{v}" for k, v in c.items()) or "-"


def _parse_res(reply: str):
    if reply.startswith("ok"):
        body = reply[3:].strip()
        if body in ("", "-"):
            return {}
        return {kv.split(":")[0]: int(kv.split(":")[1]) for kv in body.split(",")}
    return reply


SHOTS_QUICK = [1, 2, 31, 32, 33, 63, 64, 65, 96, 100, 257, 1000]
SHOTS_THOROUGH = SHOTS_QUICK + [4095, 4096, 4097, 19999, 20000]


# =============================================================================== correspondence
def gen_correspondence(rep: Report, rng, tier: str):
    torch, MPS, StateVector, DensityMatrix, tu = _imports()
    lines, cmps = [], []

    def add(name, line, fn, sample=None):
        lines.append(line)
        cmps.append((name, fn, sample))

    shots_list = SHOTS_QUICK if tier == "quick" else SHOTS_THOROUGH
    reps = 1 if tier == "quick" else 4

    # ---------------- MPS.sample
    for i in range(len(shots_list) * reps + (2 if tier == "quick" else 0)):
        d = rng.choice([2, 2, 3])
        n = rng.randint(2, 8)
        shots = shots_list[i % len(shots_list)]
        if tier == "quick" and i >= len(shots_list):
            shots, n = (20000 if i == len(shots_list) else 4097), rng.randint(2, 3)
        if shots > 2000:
            n = min(n, 4)
        fs = tu.rand_int_chain(rng, n, (d,), rng.choice([1, 2, 3, 4, 8]), tu.site_cap(n, 44, 2))
        pfp, pfn = _rates(rng), _rates(rng)
        st = MPS([f.clone() for f in fs], eigenstates=EIG[d], num_gpus_to_use=0, orthogonality_center=0)
        mt, ut = MultinomialTape(rng), UniformTape(rng, [pfp, pfn])
        spy = ErrorsSpy(ut)
        try:
            try:
                with mock.patch("torch.multinomial", mt), mock.patch("random.random", ut), \
                        mock.patch("emu_mps.mps.apply_measurement_errors", spy):
                    res = st.sample(num_shots=shots, p_false_pos=pfp, p_false_neg=pfn)
            finally:
                spy.judge(rep)
            impl = dict(res)
            if sum(res.values()) != shots:
                rep.fail(f"MPS.sample returned {sum(res.values())} counts for num_shots={shots}",
                         {"kind": "tape_total", "shots": shots, "n": n, "d": d})
        except NotImplementedError:
            impl = "notimpl"
        except RuntimeError as e:
            if "invalid multinomial" not in str(e):
                raise
            rep.count("degenerate_state_skipped")   # a reachable prefix with no continuation (non-canonical integer state)
            continue
        rep.hist("mps_sample", f"d{d}" + (":notimpl" if impl == "notimpl" else "") + (":errors" if ut.draws else ""))
        rep.hist("shots", shots)
        calls = " ".join(",".join(str(int(x)) for x in out.reshape(-1).tolist()) for _, out in mt.calls)
        us = ",".join(f2b(u) for u in ut.draws) or "-"
        line = f"s.mps {d} {n} {shots} {f2b(pfp)} {f2b(pfn)} {len(mt.calls)} {calls} {us}"

        def cmp_mps(reply, impl=impl):
            got = _parse_res(reply)
            return None if got == impl else f"model {str(got)[:120]} real {str(impl)[:120]}"
        add("MPS.sample", line, cmp_mps, sample={"n": n, "d": d, "shots": shots, "pfp": pfp, "pfn": pfn,
                                                 "multinomial_calls": len(mt.calls), "uniform_draws": len(ut.draws)})
        # weights handed to torch.multinomial vs the model's conditional weights (first batch, ≤ 6 shots)
        nb = min(6, shots, 32)
        rows = [[int(mt.calls[q][1][j, 0]) for q in range(n)] for j in range(nb)]
        want = [[[float(x) for x in mt.calls[q][0][j].tolist()] for q in range(n)] for j in range(nb)]

        def cmp_w(reply, want=want):
            got = [[[tu.dec_z(v).real for v in site.split(",")] for site in shot.split(";")] for shot in reply.split("|")]
            # the code computes vector_norm(...)**2 = (sqrt Σ|·|²)²: a sqrt enters, so 1e-14 relative instead of exact
            same = len(got) == len(want) and all(
                len(gs) == len(ws) and all(len(g) == len(w) and all(abs(a - b) <= 1e-14 * max(1.0, abs(a)) for a, b in zip(g, w))
                                           for g, w in zip(gs, ws)) for gs, ws in zip(got, want))
            return None if same else f"weights differ: model {got[0][:2]} real {want[0][:2]}"
        add("MPS.sample weights", f"s.weights z {tu.enc_chain(fs, 'z')} {nb} " + " ".join(",".join(map(str, r)) for r in rows), cmp_w)

    # ---------------- the loop alone, arbitrary batch sizes (the model is generic in max_batch_size)
    for i in range(6 * reps):
        maxB, nS, N = rng.choice([1, 2, 3, 5, 32]), rng.randint(1, 4), rng.choice([0, 1, 2, 5, 7, 33, 64, 65])
        calls, done = [], 0
        while done < N:
            b = min(maxB, N - done)
            calls += [[rng.randrange(3) for _ in range(b)] for _ in range(nS)]
            done += b
        ctr = Counter()
        # reference: the Python loop structure re-stated (a check of the model's generic loop, not of /repo)
        k = 0
        done = 0
        while done < N:
            b = min(maxB, N - done)
            for j in range(b):
                ctr.update(["".join("1" if calls[k + q][j] == 1 else "0" for q in range(nS))])
            k += nS
            done += b

        def cmp_loop(reply, ctr=dict(ctr)):
            return None if _parse_res(reply) == ctr else f"model {reply[:80]}"
        add("loop", f"s.loop {maxB} {nS} {N} {len(calls)} " + " ".join(",".join(map(str, c)) for c in calls), cmp_loop)

    # ---------------- StateVector.sample / DensityMatrix.sample
    for i in range(10 * reps):
        n = rng.randint(1, 6)
        shots = rng.choice(shots_list)
        pyth = [3 + 4j, 4 - 3j, 5 + 12j, 1, 1j, -2, 0, 0, 2j, -1]
        vec = torch.tensor([rng.choice(pyth) for _ in range(2 ** n)], dtype=tu.DT)
        if float(vec.abs().sum()) == 0:
            vec[rng.randrange(2 ** n)] = 1
        is_dm = i % 2 == 1
        pfp, pfn = _rates(rng), _rates(rng)
        if is_dm:
            vec2 = torch.tensor([rng.choice(pyth) for _ in range(2 ** n)], dtype=tu.DT)
            rho = torch.outer(vec, vec.conj()) + torch.outer(vec2, vec2.conj())
            st = DensityMatrix(rho, gpu=False)
            wref = [float(abs(complex(rho[k, k]))) for k in range(2 ** n)]
        else:
            st = StateVector(vec, gpu=False)
            wref = None
        mt, ut = MultinomialTape(rng), UniformTape(rng, [pfp, pfn])
        spy = ErrorsSpy(ut)
        with mock.patch("torch.multinomial", mt), mock.patch("random.random", ut), \
                mock.patch("emu_sv.state_vector.apply_measurement_errors", spy), \
                mock.patch("emu_sv.density_matrix_state.apply_measurement_errors", spy):
            res = st.sample(num_shots=shots, p_false_pos=pfp, p_false_neg=pfn)
        spy.judge(rep)
        impl = dict(res)
        if sum(res.values()) != shots:
            rep.fail(f"{type(st).__name__}.sample returned {sum(res.values())} counts for num_shots={shots}",
                     {"kind": "tape_total", "shots": shots, "n": n})
        outs = ",".join(str(int(x)) for x in mt.calls[0][1].reshape(-1).tolist())
        us = ",".join(f2b(u) for u in ut.draws) or "-"

        def cmp_sv(reply, impl=impl):
            got = _parse_res(reply)
            return None if got == impl else f"model {str(got)[:120]} real {str(impl)[:120]}"
        add("DensityMatrix.sample" if is_dm else "StateVector.sample", f"s.sv {n} {f2b(pfp)} {f2b(pfn)} {outs} {us}", cmp_sv,
            sample={"n": n, "shots": shots, "dm": is_dm, "pfp": pfp, "pfn": pfn})
        rep.hist("sv_sample", ("dm" if is_dm else "sv") + (":errors" if ut.draws else ""))
        wreal = [float(x) for x in mt.calls[0][0].reshape(-1).tolist()]
        if is_dm:
            # model weights |ρ_kk| need the complex modulus (oracle): the diagonal here is real ≥ 0, so |ρ_kk| = ρ_kk exactly
            if wreal != wref:
                rep.broke(f"correspondence DensityMatrix weights: code {wreal[:4]} vs |diag ρ| {wref[:4]}")
        else:
            def cmp_svw(reply, wreal=wreal):
                got = [tu.dec_z(v).real for v in reply.split(",")]
                bad = [k for k, (a, b) in enumerate(zip(got, wreal)) if abs(a - b) > 16e-16 * max(a, 1.0)]
                return None if not bad and len(got) == len(wreal) else f"|ψ|² differs at {bad[:3]}: model {got[:3]} code {wreal[:3]}"
            add("StateVector weights", f"s.svw z {tu.enc_vals(vec, 'z')}", cmp_svw)

    # ---------------- apply_measurement_errors alone: arbitrary (also non-binary) keys, boundary draws
    from emu_base.utils import apply_measurement_errors
    for i in range(8 * reps):
        L = rng.randint(1, 6)
        keys = {"".join(rng.choice("01" if rng.random() < 0.9 else "01x2") for _ in range(L)) for _ in range(rng.randint(1, 5))}
        ctr = Counter({k: rng.randint(1, 7) for k in keys})
        pfp, pfn = _rates(rng), _rates(rng)
        ut = UniformTape(rng, [pfp, pfn])
        with mock.patch("random.random", ut):
            res = apply_measurement_errors(ctr, p_false_pos=pfp, p_false_neg=pfn)

        msg = errors_tape_oracle(dict(ctr), pfp, pfn, list(ut.draws), dict(res))
        if msg:
            rep.fail(msg, {"kind": "errors_tape", "counter": dict(ctr), "pfp": pfp, "pfn": pfn, "draws": list(ut.draws)})

        def cmp_err(reply, impl=dict(res)):
            got = _parse_res(reply)
            return None if got == impl else f"model {str(got)[:120]} real {str(impl)[:120]}"
        add("apply_measurement_errors", f"s.errors {f2b(pfp)} {f2b(pfn)} {_counter_line(ctr)} " + (",".join(f2b(u) for u in ut.draws) or "-"), cmp_err)

    # ---------------- index_to_bitstring
    from emu_sv.utils import index_to_bitstring
    for n in range(1, 7):
        for idx in {0, 1, 2 ** n - 1, 2 ** n, rng.randrange(2 ** n), rng.randrange(2 ** n)}:
            try:
                impl = index_to_bitstring(n, idx)
            except AssertionError:
                impl = "assert"
            add("index_to_bitstring", f"s.bits {n} {idx}", lambda reply, impl=impl: None if reply == impl else f"model {reply} real {impl}")
    return lines, cmps


def errors_tape_oracle(ctr: dict, pfp: float, pfn: float, draws: list, got: dict):
    """C15's read-out clause evaluated on one run of the real `apply_measurement_errors` whose uniform draws are
    known: every character gets its own draw u (in iteration order); '0' reads '1' iff u < p_false_pos, '1' reads
    '0' iff u < p_false_neg, anything else is kept."""
    want, k = Counter(), 0
    for key, count in ctr.items():
        for _ in range(count):
            out = []
            for ch in key:
                u = draws[k]
                k += 1
                out.append("1" if ch == "0" and u < pfp else "0" if ch == "1" and u < pfn else ch)
            want["".join(out)] += 1
    if k != len(draws):
        return f"apply_measurement_errors consumed {len(draws)} uniform draws for {k} characters"
    if dict(want) != got:
        return f"apply_measurement_errors with known draws returned {got}, per-bit flips give {dict(want)}"
    return None


def run_correspondence(rep: Report, lines, cmps) -> None:
    try:
        out = Driver().batch(lines)
    except LeanError as e:
        rep.broke("driver: " + str(e)[-800:])
        return
    bad = {}
    for line, reply, (name, fn, sample) in zip(lines, out, cmps):
        rep.case(key=hash(line), sample=sample, nontrivial=True)
        rep.hist("corr_kind", name)
        try:
            msg = fn(reply)
        except Exception as e:
            msg = f"unreadable model reply {reply[:80]!r}: {type(e).__name__}: {e}"
        if msg:
            bad[name] = bad.get(name, 0) + 1
            if bad[name] <= 2:
                rep.broke(f"correspondence Model.Sampling vs code [{name}]: {msg}; line={line[:240]}")
    rep.extra["correspondence_disagreements"] = sum(bad.values())
    rep.extra["correspondence_lines"] = len(lines)


# =============================================================================== oracle (real RNG)
ORACLE_KINDS = ["structure_mps", "structure_sv", "order", "readout_det", "chi2_mps", "chi2_sv", "chi2_dm", "readout_stat",
                "resample", "run_bitstrings"]


def _chi2_reject(obs: dict, probs: dict, N: int, alpha: float):
    """Pearson χ² with bins of expected count < 8 pooled; returns (reject?, statistic, df)."""
    from scipy.stats import chi2
    big = {k: p for k, p in probs.items() if N * p >= 8}
    stat, rest_p, rest_o = 0.0, 1.0, N
    for k, p in big.items():
        o = obs.get(k, 0)
        stat += (o - N * p) ** 2 / (N * p)
        rest_p -= p
        rest_o -= o
    df = len(big) - 1
    if N * rest_p >= 8:
        stat += (rest_o - N * rest_p) ** 2 / (N * rest_p)
        df += 1
    elif rest_o > 0 and rest_p < 1e-12:
        return True, float("inf"), df      # an outcome of probability zero was observed
    if df < 1:
        return False, stat, df
    return stat > chi2.isf(alpha, df), stat, df


def _binom_reject(k: int, N: int, p: float, alpha: float) -> bool:
    from scipy.stats import binom
    if p <= 0:
        return k != 0
    if p >= 1:
        return k != N
    tail = min(1.0, 2 * min(binom.cdf(k, N, p), binom.sf(k - 1, N, p)))
    return tail < alpha


def oracle_case(kind: str, cs: int):
    torch, MPS, StateVector, DensityMatrix, tu = _imports()
    rng = random.Random(cs)
    g = torch.Generator().manual_seed(cs)
    torch.manual_seed(cs)
    random.seed(cs)
    alpha = FWER / N_STAT_TESTS
    fails = []
    info = {"kind": kind, "case_seed": cs}

    def bad(msg, **kw):
        fails.append((msg, dict(info, **kw), None))

    def rand_mps(n, d, dmax=8):
        fs = tu.rand_float_chain(g, n, (d,), tu.rand_bonds(rng, n, dmax, d))
        return MPS([f.clone() for f in fs], eigenstates=EIG[d], num_gpus_to_use=0), fs

    def bits_probs(psi, n, d):
        p = (psi.abs() ** 2)
        p = p / p.sum()
        out = {}
        for idx, x in enumerate(p.tolist()):
            lv, r = [], idx
            for _ in range(n):
                lv.append(r % d)
                r //= d
            key = "".join("1" if v == 1 else "0" for v in reversed(lv))
            out[key] = out.get(key, 0.0) + x
        return out

    if kind == "structure_mps":
        d, n = rng.choice([2, 3]), rng.randint(2, 8)
        st, fs = rand_mps(n, d)
        psi = tu.dense_state(fs)
        if rng.random() < 0.5:
            st.orthogonalize(rng.randrange(n))
        shots = rng.choice(SHOTS_THOROUGH)
        pfn = rng.choice([0.0, 0.3])
        pfp = rng.choice([0.0, 0.2]) if d == 2 else 0.0
        c = st.sample(num_shots=shots, p_false_pos=pfp, p_false_neg=pfn)
        if sum(c.values()) != shots:
            bad(f"MPS.sample: total {sum(c.values())} ≠ num_shots {shots}", shots=shots)
        if any(len(k) != n or set(k) - {"0", "1"} for k in c):
            bad("MPS.sample: a key is not an n-character 0/1 string")
        now = tu.dense_state(st.factors)
        if float((now - psi).abs().max()) > 1e-9 * max(1.0, float(psi.abs().max())):
            bad("MPS.sample changed the represented state")
        # after orthogonalize(0) the tail is right-orthonormal (hypothesis of sample_prob_born)
        for A in st.factors[1:]:
            m = A.reshape(A.shape[0], -1)
            if float((m @ m.conj().T - torch.eye(m.shape[0], dtype=tu.DT)).abs().max()) > 1e-9:
                bad("tail factor not right-orthonormal after sample()'s orthogonalize(0)")
                break
        if d == 3:
            try:
                st.sample(num_shots=3, p_false_pos=0.1)
                bad("MPS.sample(dim 3, p_false_pos>0) did not raise NotImplementedError")
            except NotImplementedError:
                pass
    elif kind == "structure_sv":
        n = rng.randint(1, 8)
        v = torch.randn(2 ** n, dtype=torch.float64, generator=g) + 1j * torch.randn(2 ** n, dtype=torch.float64, generator=g)
        shots = rng.choice(SHOTS_THOROUGH)
        for st in (StateVector(v.to(tu.DT), gpu=False), DensityMatrix(torch.outer(v, v.conj()).to(tu.DT), gpu=False)):
            c = st.sample(num_shots=shots, p_false_pos=rng.choice([0.0, 0.1]), p_false_neg=rng.choice([0.0, 0.1]))
            if sum(c.values()) != shots:
                bad(f"{type(st).__name__}.sample: total {sum(c.values())} ≠ num_shots {shots}", shots=shots)
            if any(len(k) != n or set(k) - {"0", "1"} for k in c):
                bad(f"{type(st).__name__}.sample: a key is not an n-character 0/1 string")
    elif kind == "order":
        # basis states: deterministic outcome; '1' must sit at the position of the excited atom
        d, n = rng.choice([2, 3]), rng.randint(2, 8)
        lv = [rng.randrange(d) for _ in range(n)]
        fs = []
        for x in lv:
            t = torch.zeros(1, d, 1, dtype=tu.DT)
            t[0, x, 0] = 1.0
            fs.append(t)
        want = "".join("1" if x == 1 else "0" for x in lv)
        c = MPS(fs, eigenstates=EIG[d], num_gpus_to_use=0).sample(num_shots=40)
        if dict(c) != {want: 40}:
            bad(f"MPS basis state levels {lv}: sampled {dict(c)} instead of {{{want!r}: 40}}", levels=lv)
        bits = [rng.randrange(2) for _ in range(n)]
        idx = int("".join(map(str, bits)), 2)
        v = torch.zeros(2 ** n, dtype=tu.DT)
        v[idx] = 1.0
        # the state-vector convention: amplitude index = Σ bit_i·2^(n-1-i) (kron order, atom 0 first)
        kr = torch.ones(1, dtype=tu.DT)
        for b in bits:
            kr = torch.kron(kr, torch.tensor([1.0, 0.0] if b == 0 else [0.0, 1.0], dtype=tu.DT))
        assert torch.equal(kr, v)
        want = "".join(map(str, bits))
        for st in (StateVector(v, gpu=False), DensityMatrix(torch.outer(v, v.conj()), gpu=False)):
            c = st.sample(num_shots=40)
            if dict(c) != {want: 40}:
                bad(f"{type(st).__name__} basis state {bits}: sampled {dict(c)}", bits=bits)
    elif kind == "resample":
        # the distribution is that of the CURRENT amplitudes: sample, modify the state object, sample again
        n = rng.randint(1, 6)
        i1, i2 = rng.sample(range(2 ** n), 2) if n > 0 else (0, 1)
        e = lambda i: torch.nn.functional.one_hot(torch.tensor(i), 2 ** n).to(tu.DT)
        key = lambda i: format(i, f"0{n}b")
        for how in ("reassign", "inplace"):
            st = StateVector(e(i1).clone(), gpu=False)
            c1 = dict(st.sample(num_shots=30))
            if how == "reassign":
                st.data = e(i2).clone()          # what emu-sv does after every step
            else:
                st.data[i1], st.data[i2] = 0.0, 1.0
            c2 = dict(st.sample(num_shots=30))
            if c1 != {key(i1): 30} or c2 != {key(i2): 30}:
                bad(f"StateVector: sampled {c1} for |{key(i1)}⟩, then after {how} to |{key(i2)}⟩ sampled {c2}", how=how)
            dm = DensityMatrix(torch.outer(e(i1), e(i1)), gpu=False)
            c1 = dict(dm.sample(num_shots=30))
            if how == "reassign":
                dm.data = torch.outer(e(i2), e(i2))
            else:
                dm.data[i1, i1], dm.data[i2, i2] = 0.0, 1.0
            c2 = dict(dm.sample(num_shots=30))
            if c1 != {key(i1): 30} or c2 != {key(i2): 30}:
                bad(f"DensityMatrix: sampled {c1} for |{key(i1)}⟩, then after {how} to |{key(i2)}⟩ sampled {c2}", how=how)
        d, m = rng.choice([2, 3]), rng.randint(2, 6)
        lv = [rng.randrange(2) for _ in range(m)]
        fs = []
        for x in lv:
            t = torch.zeros(1, d, 1, dtype=tu.DT)
            t[0, x, 0] = 1.0
            fs.append(t)
        st = MPS(fs, eigenstates=EIG[d], num_gpus_to_use=0)
        c1 = dict(st.sample(num_shots=30))
        q = rng.randrange(m)
        flip = torch.zeros(d, d, dtype=tu.DT)
        flip[0, 1] = flip[1, 0] = 1.0
        st.apply(q, flip)
        lv2 = list(lv)
        lv2[q] = 1 - lv2[q]
        c2 = dict(st.sample(num_shots=30))
        w1, w2 = "".join(map(str, lv)), "".join(map(str, lv2))
        if c1 != {w1: 30} or c2 != {w2: 30}:
            bad(f"MPS: sampled {c1} for |{w1}⟩, then after apply(σx on {q}) sampled {c2} instead of {{{w2!r}: 30}}")
        # random states: χ² against the current amplitudes after a re-assignment
        n = rng.randint(1, 4)
        v1 = (torch.randn(2 ** n, dtype=torch.float64, generator=g) + 1j * torch.randn(2 ** n, dtype=torch.float64, generator=g)).to(tu.DT)
        v2 = (torch.randn(2 ** n, dtype=torch.float64, generator=g) + 1j * torch.randn(2 ** n, dtype=torch.float64, generator=g)).to(tu.DT)
        st = StateVector(v1, gpu=False)
        st.sample(num_shots=10)
        st.data = v2
        c = st.sample(num_shots=20000)
        rej, stat, df = _chi2_reject(dict(c), bits_probs(v2, n, 2), 20000, alpha)
        if rej:
            bad(f"StateVector re-sampled after its data changed: χ²={stat:.1f} ({df} d.o.f.) rejects the CURRENT distribution at {alpha:.1e}")
    elif kind == "run_bitstrings":
        # a back-end run with BitStrings at two evaluation times: π/2 at half time, π at the end (non-interacting atoms)
        from harness import compat
        import pulser.backend as pb
        n = rng.randint(2, 3)
        steps, T = 4, 100.0
        om = [[math.pi / (T * 1e-3)] * n for _ in range(steps)]
        zero = [[0.0] * n for _ in range(steps)]
        U = [[0.0] * n for _ in range(n)]
        tt = [T * k / steps for k in range(steps + 1)]
        N = 2000
        for backend in ("sv", "mps"):
            data = compat.make_sequence_data(om, zero, zero, U, tt)
            obs = [pb.BitStrings(evaluation_times=[0.5, 1.0], num_shots=N), pb.Occupation(evaluation_times=[0.5, 1.0])]
            r = compat.run_sv(data, compat.sv_config(observables=obs, dt=10)) if backend == "sv" else \
                compat.run_mps(data, compat.mps_config(observables=obs, dt=10, precision=1e-10))
            for t in (0.5, 1.0):
                bits = dict(r.get_result("bitstrings", t))
                occ = [complex(x).real for x in torch.as_tensor(r.get_result("occupation", t)).tolist()]
                if sum(bits.values()) != N:
                    bad(f"{backend} run: {sum(bits.values())} bitstrings at t={t} instead of {N}")
                for i in range(n):
                    k1 = sum(c for s_, c in bits.items() if s_[i] == "1")
                    p = min(1.0, max(0.0, occ[i]))
                    if (p > 1 - 1e-9 and k1 != N) or (p < 1e-9 and k1 != 0) or (1e-9 <= p <= 1 - 1e-9 and _binom_reject(k1, N, p, alpha)):
                        bad(f"{backend} run: atom {i} reads '1' in {k1}/{N} bitstrings at t={t}, its occupation then is {p:.6f}", t=t)
                        break
    elif kind == "readout_det":
        n = rng.randint(1, 6)
        bits = "".join(rng.choice("01") for _ in range(n))
        v = torch.zeros(2 ** n, dtype=tu.DT)
        v[int(bits, 2)] = 1.0
        st = StateVector(v, gpu=False)
        flip = {"0": "1", "1": "0"}
        for pfp, pfn, want in ((1.0, 0.0, bits.replace("0", "1")), (0.0, 1.0, bits.replace("1", "0")),
                               (1.0, 1.0, "".join(flip[c] for c in bits)), (0.0, 0.0, bits)):
            c = st.sample(num_shots=25, p_false_pos=pfp, p_false_neg=pfn)
            if dict(c) != {want: 25}:
                bad(f"read-out with rates ({pfp},{pfn}) on {bits}: {dict(c)} instead of {{{want!r}: 25}}", bits=bits)
        fs = []
        for ch in bits + "0":
            t = torch.zeros(1, 2, 1, dtype=tu.DT)
            t[0, int(ch), 0] = 1.0
            fs.append(t)
        c = MPS(fs, eigenstates=EIG[2], num_gpus_to_use=0).sample(num_shots=25, p_false_pos=1.0, p_false_neg=1.0)
        want = "".join(flip[c_] for c_ in bits + "0")
        if dict(c) != {want: 25}:
            bad(f"MPS read-out with rates (1,1): {dict(c)} instead of {{{want!r}: 25}}")
        # qutrits: a false-negative rate alone is applied (the guard is `pfn > 0 or (pfp > 0 and dim == 2)`)
        lv = [rng.randrange(3) for _ in range(n + 1)]
        fs = []
        for x in lv:
            t = torch.zeros(1, 3, 1, dtype=tu.DT)
            t[0, x, 0] = 1.0
            fs.append(t)
        c = MPS(fs, eigenstates=EIG[3], num_gpus_to_use=0).sample(num_shots=25, p_false_neg=1.0)
        if dict(c) != {"0" * (n + 1): 25}:
            bad(f"qutrit MPS levels {lv}, p_false_neg=1: {dict(c)} instead of all zeros", levels=lv)
    elif kind in ("chi2_mps", "chi2_sv", "chi2_dm"):
        N = 20000
        if kind == "chi2_mps":
            d, n = rng.choice([2, 3]), rng.randint(2, 4)
            st, fs = rand_mps(n, d, dmax=4)
            if rng.random() < 0.5:
                st.orthogonalize(rng.randrange(n))
            probs = bits_probs(tu.dense_state(fs), n, d)
        else:
            n = rng.randint(1, 4)
            v = (torch.randn(2 ** n, dtype=torch.float64, generator=g) + 1j * torch.randn(2 ** n, dtype=torch.float64, generator=g)).to(tu.DT)
            if kind == "chi2_sv":
                st = StateVector(v * rng.uniform(0.5, 2.0), gpu=False)      # not normalised on purpose
                probs = bits_probs(v, n, 2)
            else:
                w = (torch.randn(2 ** n, dtype=torch.float64, generator=g) + 1j * torch.randn(2 ** n, dtype=torch.float64, generator=g)).to(tu.DT)
                rho = 0.7 * torch.outer(v, v.conj()) / float(v.norm() ** 2) + 0.3 * torch.outer(w, w.conj()) / float(w.norm() ** 2)
                st = DensityMatrix(rho, gpu=False)
                p = rho.diagonal().real
                probs = {format(k, f"0{n}b"): float(x) for k, x in enumerate((p / p.sum()).tolist())}
        c = st.sample(num_shots=N)
        rej, stat, df = _chi2_reject(dict(c), probs, N, alpha)
        if sum(c.values()) != N:
            bad(f"total {sum(c.values())} ≠ {N}")
        if rej:
            bad(f"{kind}: χ²={stat:.1f} with {df} d.o.f. rejects the Born distribution at level {alpha:.1e}", stat=stat, df=df)
    elif kind == "readout_stat":
        n = rng.randint(2, 5)
        bits = "".join(rng.choice("01") for _ in range(n))
        if "0" not in bits or "1" not in bits:
            bits = "01" + bits[2:]
        v = torch.zeros(2 ** n, dtype=tu.DT)
        v[int(bits, 2)] = 1.0
        pfp, pfn = rng.choice([0.05, 0.3, 0.5]), rng.choice([0.1, 0.25, 0.6])
        N = 20000
        which = rng.choice(["sv", "mps"])
        if which == "sv":
            st = StateVector(v, gpu=False)
        else:
            fs = []
            for ch in bits:
                t = torch.zeros(1, 2, 1, dtype=tu.DT)
                t[0, int(ch), 0] = 1.0
                fs.append(t)
            st = MPS(fs, eigenstates=EIG[2], num_gpus_to_use=0)
        c = st.sample(num_shots=N, p_false_pos=pfp, p_false_neg=pfn)
        # independent flips: the whole distribution over 2^n strings is the product distribution
        probs = {}
        for k in range(2 ** n):
            s = format(k, f"0{n}b")
            p = 1.0
            for a, b in zip(bits, s):
                pf = pfp if a == "0" else pfn
                p *= pf if a != b else 1 - pf
            probs[s] = p
        rej, stat, df = _chi2_reject(dict(c), probs, N, alpha)
        if rej:
            bad(f"read-out ({which}) rates ({pfp},{pfn}) on {bits}: χ²={stat:.1f}, {df} d.o.f. rejects independent flips at {alpha:.1e}")
        i0 = bits.index("0")
        k0 = sum(v_ for s, v_ in c.items() if s[i0] == "1")
        if _binom_reject(k0, N, pfp, alpha):
            bad(f"0→1 flip frequency {k0}/{N} incompatible with p_false_pos={pfp} at level {alpha:.1e}")
    return fails


def run_oracle(rep: Report, rng, count: int, first_only=False) -> None:
    for i in range(count):
        kind = ORACLE_KINDS[i % len(ORACLE_KINDS)]
        cs = rng.randrange(2 ** 31)
        try:
            fails = oracle_case(kind, cs)
        except Exception as e:
            import traceback
            fails = [(f"real code raised {type(e).__name__}: {e}", {"kind": kind, "case_seed": cs,
                                                                  "trace": traceback.format_exc()[-600:]}, None)]
        rep.case(key=("oracle", kind, cs), nontrivial=True, trace=False)
        rep.hist("oracle_kind", kind)
        if kind.startswith("chi2") or kind in ("readout_stat", "resample", "run_bitstrings"):
            rep.count("statistical_tests", {"readout_stat": 2, "run_bitstrings": 12}.get(kind, 1))
        for msg, data, klass in fails:
            rep.fail(msg, data, klass=klass)
        if first_only and fails:
            return


# =============================================================================== check / search / replay
def check(rep: Report, tier: str, seed: int) -> None:
    rep.rule = ("correspondence cases = Gaussian-integer MPS (2–8 sites, bonds ≤ 8, qubits and qutrits, declared centre 0 so that no "
                "qr runs), state vectors / density matrices with Pythagorean entries, shot counts 1…20000 incl. 31/32/33/63/64/65 "
                "and 4095/4096/4097, rates ∈ {0, 1, .01, .25, .5, random}, uniform draws from a lattice hitting u == p, one ulp "
                "below p and 0.0; torch.multinomial answered by inverse-CDF on the weights it receives; Counters compared as "
                "dicts, weights to 1e-14 relative (vector_norm**2). statistical tests: Bonferroni level 1e-6/1024 each, torch/random seeded from the case "
                "seed (deterministic per VERIF_SEED). non-trivial = every case")
    rep.assumptions = [
        "torch.multinomial(w): index x with probability w_x/Σw, rows and draws independent (validated by χ² at family-wise error 1e-6)",
        "random.random(): uniform on [0,1), independent draws (validated by χ²/binomial tests at the same level)",
        "MPS.orthogonalize(0) leaves the tail right-orthonormal (C10); checked numerically on every structure_mps oracle case",
        "complex modulus in torch.abs (sqrt) for the sv/dm weights: compared with tolerance 16e-16 relative",
    ]
    import logging
    import torch
    torch.set_num_threads(1)
    logging.getLogger("emulators").setLevel(logging.ERROR)
    lean_stage(rep, PROP_MODULE, AUDIT, thorough=(tier == "thorough"))
    rng = seeded(seed * 7919 + 15)
    lines = cmps = None
    try:
        lines, cmps = gen_correspondence(rep, rng, tier)
    except Exception:
        import traceback
        rep.broke("correspondence generation: real code raised " + traceback.format_exc()[-700:])
    if lines:
        run_correspondence(rep, lines, cmps)
    run_oracle(rep, rng, 40 if tier == "quick" else 400)
    rep.extra["stat_level_per_test"] = FWER / N_STAT_TESTS
    if rep.broken and not rep.unknown_failing():
        search(rep, seed, 160 if tier == "quick" else 1600)


def search(rep: Report, seed: int, n: int) -> None:
    """Failing-input search on the real code: the oracle (deterministic structure checks + acceptance tests)
    on more inputs, and the tape-driven total/Counter checks of the correspondence generator."""
    rng = seeded(seed * 104729 + 15)
    run_oracle(rep, rng, n, first_only=True)
    rep.extra["search_cases"] = n


def replay(rep: Report, path: str) -> int:
    data = json.load(open(path))
    bad = 0
    for f in data.get("failing_inputs", []):
        d = f["data"]
        if d.get("kind") == "errors_tape":
            from emu_base.utils import apply_measurement_errors
            it = iter(d["draws"])
            with mock.patch("random.random", lambda: next(it)):
                res = apply_measurement_errors(Counter(d["counter"]), p_false_pos=d["pfp"], p_false_neg=d["pfn"])
            msg = errors_tape_oracle(d["counter"], d["pfp"], d["pfn"], d["draws"], dict(res))
            print("replay:", msg or "property holds on this input now")
            bad += bool(msg)
            continue
        if d.get("kind") not in ORACLE_KINDS:
            print("replay: recorded by the tape-driven correspondence; rerun ./vcheck C15 with the same VERIF_SEED")
            bad += 1
            continue
        fails = oracle_case(d["kind"], d["case_seed"])
        for msg, _, _ in fails:
            print("replay:", msg)
        if not fails:
            print("replay: property holds on this input now")
        bad += bool(fails)
    return 1 if bad else 0
