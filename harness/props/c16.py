"""C16 — emu-sv open-system runs solve the Lindblad equation and stay physical (PARTIAL).

Lean: EmuVerif.Props.C16 (trace annihilation, adjoint compatibility, the code's Heff-shortcut equals
the generator on Hermitian rho — with a counterexample for non-Hermitian rho —, the exact flow
exp(t L) preserves trace and Hermiticity). Correspondence: the recorded schedule of the real
`SVBackendImpl._run` with `stepper = EvolveDensityMatrix` against `Model.SvLoop` (exact).
Oracle (always on, real code): dense Liouvillian `scipy.linalg.expm` reference (<= 4 atoms) and
Hermiticity / trace / minimum eigenvalue at every evaluation time.
"""
from __future__ import annotations

import json
import math

import numpy as np

from harness.common import Report, lean_stage, seeded
from harness import ideal_common as ic

REGISTRY = dict(
    text=("PARTIAL. Lean 4 theorems over complex matrices of every dimension and every family of jump operators: "
          "generator_traceless (tr L(rho)=0), generator_adjoint (L(rho)^dagger = L(rho^dagger) for Hermitian H), "
          "code_evaluates_generator (what RydbergLindbladian.__matmul__ computes, times -1j*dt as in "
          "EvolveDensityMatrix.apply, i.e. -1j*dt*(Heff rho - (Heff rho)^dagger + 1j sum L rho L^dagger) with "
          "Heff = H - 0.5j sum L^dagger L, equals dt*L(rho) for Hermitian rho) with a kernel-checked counterexample "
          "for non-Hermitian rho (code_needs_hermitian_rho); iterate_hermitian / iterate_traceless (all powers L^k rho); "
          "flow_preserves_trace / flow_preserves_hermitian / run_preserves — the exact flow exp(t L) (exponential series "
          "in the Banach algebra of R-linear maps on the matrices) and every piecewise-constant product of such flows "
          "preserve the trace and Hermiticity. The run-loop schedule theorem is C01's (same code). NOT PROVED, ASSUMED: "
          "positivity (Lindblad's theorem, PositivityAssumed) — validated numerically by the minimum eigenvalue; Arnoldi "
          "accuracy (C07); matrix-free operator = dense generator (C06). No end-to-end error bound (the flow is not an "
          "isometry). 'Agrees with Pulser's master-equation reference' cannot be checked (QuTiP not installed): replaced "
          "by a dense Liouvillian expm reference."),
    note=("Trusted: Lean kernel + propext/Classical.choice/Quot.sound; Mathlib (incl. the option "
          "backward.isDefEq.respectTransparency false used exactly as Mathlib's MatrixExponential does, to put a norm on "
          "Matrix); Model.SvLoop tied to the code by the recorded-schedule correspondence; positivity and accuracy are "
          "validated by the dense Liouvillian reference only."),
    technique="Lean 4 proof (matrix algebra, exponential series) + exact schedule correspondence + dense Liouvillian oracle",
    design_ref="DESIGN.md §5 C16",
)

PROP_MODULE = "EmuVerif.Props.C16"
AUDIT = "Audit/C16.lean"
ROUND = 1e-10
STEP_ROUND = 1e-9


def jump_ops(case):
    """2x2 jump operators in emu-sv's (g, r) index order; the back-end applies each of them on every atom."""
    out = []
    for kind, rate, mat in case["noise"]:
        if kind == "dephasing":
            out.append(math.sqrt(rate / 2.0) * np.array([[1, 0], [0, -1]], dtype=complex))
        elif kind == "relaxation":
            out.append(math.sqrt(rate) * np.array([[0, 1], [0, 0]], dtype=complex))
        elif kind == "depolarizing":
            for s in (ic.SX, ic.SY, np.array([[1, 0], [0, -1]], dtype=complex)):
                out.append(math.sqrt(rate / 4.0) * s)
        else:
            out.append(np.array(mat[0], dtype=float) + 1j * np.array(mat[1], dtype=float))
    return out


def gen(rng, nmax=4):
    c = ic.gen_case(rng, nmin=1, nmax=nmax, max_steps=5, noisy=True)
    c["kt"] = rng.choice([1e-8, 1e-10, 1e-10, 1e-12])
    c["obs0"] = rng.random() < 0.75
    noise = []
    for kind in rng.sample(["dephasing", "relaxation", "depolarizing", "eff_noise"], rng.randint(1, 3)):
        rate = rng.choice([0.01, 0.1, 1.0, 5.0])
        mat = None
        if kind == "eff_noise":
            sc = math.sqrt(rate)
            mat = ([[rng.uniform(-sc, sc) for _ in range(2)] for _ in range(2)],
                   [[rng.uniform(-sc, sc) for _ in range(2)] for _ in range(2)])
        noise.append((kind, rate, mat))
    c["noise"] = noise
    # user-supplied initial density matrix: pure (projector of `init`) or a random *mixed* state
    # (purity < 1, trace 1) — the Frobenius norm of a mixed state is < 1, unlike its trace
    if rng.random() < 0.45:
        d = 2 ** c["n"]
        w = [rng.uniform(0.2, 1.0) for _ in range(rng.randint(2, 3))]
        c["init_mixed"] = [(x / sum(w), [rng.gauss(0, 1) for _ in range(d)], [rng.gauss(0, 1) for _ in range(d)]) for x in w]
        c["init"] = None
    return c


def gen_dark(rng):
    """state_prep_error > 0 with a bad-atom mask (hand-built SequenceData): 2-4 atoms, at least one dark atom with a
    HIGHER index than a well-prepared neighbour, strong interactions, and a channel that can excite |g> on the dark
    atom (depolarizing or an eff_noise operator with a g->r component). Reference = exact Lindblad evolution with the
    dark atoms undriven and non-interacting (= reduced system (x) the dark atoms' own single-atom noisy evolution)."""
    c = ic.gen_case(rng, nmin=2, nmax=4, max_steps=4, noisy=True)
    n = c["n"]
    bad = [False] * n
    j = rng.randrange(1, n)
    bad[j] = True
    for q in range(n):
        if q != j and q != j - 1 and rng.random() < 0.25:
            bad[q] = True
    c["bad"], c["spe"] = bad, rng.choice([0.05, 0.2])
    c["init"], c["init_mixed"] = None, None          # initial state + state_prep_error is rejected by the back-end
    U = [[0.0] * n for _ in range(n)]
    for a in range(n):
        for b in range(a + 1, n):
            U[a][b] = U[b][a] = rng.uniform(10.0, 40.0)
    c["U"], c["masked"], c["slm_end"] = U, [r[:] for r in U], 0.0
    c["kt"] = rng.choice([1e-8, 1e-10])
    c["obs0"] = True
    rate = rng.choice([1.0, 5.0])
    if rng.random() < 0.5:
        c["noise"] = [("depolarizing", rate, None)]
    else:
        sc = math.sqrt(rate)
        c["noise"] = [("eff_noise", rate, ([[0.0, 0.0], [sc, 0.0]], [[0.0, 0.0], [0.0, 0.0]]))]   # sqrt(rate)|r><g|
        if rng.random() < 0.5:
            c["noise"].append(("relaxation", rng.choice([0.1, 1.0]), None))
    return c


def observables(case):
    from pulser.backend import StateResult, Energy, Occupation
    T = case["times"][-1]
    ev = [t / T for t in case["times"]]
    if not case["obs0"]:
        ev = ev[1:]
    return [StateResult(evaluation_times=ev), Occupation(evaluation_times=ev), Energy(evaluation_times=ev)]


def run_case(case, config=None):
    import torch
    ops = [torch.tensor(m, dtype=torch.complex128) for m in jump_ops(case)]
    return ic.run_recorded(case, dict(krylov_tolerance=case["kt"]), lindblad_ops=ops, noisy=True,
                           observables=observables(case), config=config)


def has_user_state(case):
    return case.get("init") is not None or bool(case.get("init_mixed"))


def oracle(case, out):
    """C16 on one real run: rho at every evaluation time vs dense exp(dt·𝓛); Hermitian, trace 1, PSD."""
    from scipy.linalg import expm
    res = out["results"]
    n, kt = case["n"], case["kt"]
    d = 2 ** n
    jl = jump_ops(case)
    jumps = [ic.embed(L, q, n) for q in range(n) for L in jl]
    rho = ic.rho0(case)
    exact = [rho]
    pw = ic.piecewise(case)
    for dt, H in pw:
        S = ic.liouvillian(H, jumps)
        rho = (expm(dt * S) @ rho.reshape(-1)).reshape(d, d)
        exact.append(rho)
    first = 0 if case["obs0"] else 1
    worst = 0.0
    if len(res.state) != len(case["times"]) - first:
        return f"{len(res.state)} states reported, expected {len(case['times']) - first}", worst
    for pos, k in enumerate(range(first, len(case["times"]))):
        r = res.state[pos].data.numpy()
        # per exponentiation: ten times the tolerance plus the same 1e-9 rounding/kernel floor as C07's and C01's oracles
        # (torch.matrix_exp itself is only accurate to 1e-10…1e-8 for the small Krylov matrices, see notes/frechet.md)
        allowed = k * (10.0 * kt + STEP_ROUND) + ROUND
        herm = float(np.max(np.abs(r - r.conj().T)))
        tr = abs(complex(np.trace(r)) - 1.0)
        mine = float(np.linalg.eigvalsh(0.5 * (r + r.conj().T))[0])
        err = float(np.linalg.norm(r - exact[k]))           # Frobenius = the 2-norm the Arnoldi tolerance uses
        worst = max(worst, err / allowed, herm / allowed, tr / allowed, -mine / (allowed + 1e-9))
        if not herm <= allowed:
            return f"rho at index {k} is not Hermitian: max|rho-rho^dagger| = {herm:.3e} > {allowed:.3e}", worst
        if not tr <= allowed:
            return f"trace of rho at index {k} deviates from 1 by {tr:.3e} > {allowed:.3e}", worst
        if not mine >= -(allowed + 1e-9):
            return f"rho at index {k} has eigenvalue {mine:.3e} < -{allowed + 1e-9:.3e}", worst
        if not err <= allowed:
            return f"rho at index {k} differs from exact Lindblad evolution by {err:.3e} > {allowed:.3e}", worst
        occ = res.occupation[pos].numpy()
        occ_ex = np.array([float(np.real(np.trace(exact[k] @ ic.embed(ic.NN, q, n)))) for q in range(n)])
        eo = float(np.max(np.abs(occ - occ_ex)))
        if not eo <= 2 * allowed:
            return f"occupation at index {k} differs from exact by {eo:.3e} > {2 * allowed:.3e}", worst
        if k == 0:
            t0, t1 = case["times"][0], case["times"][1]
            U = case["masked"] if 0.5 * (t0 + t1) < case["slm_end"] else case["U"]
            H = ic.dense_h(case["omega"][0], case["delta"][0], case["phi"][0], U)
        else:
            H = pw[k - 1][1]
        hn = max(1.0, float(np.linalg.norm(H, 2)))
        ee = abs(float(res.energy[pos]) - float(np.real(np.trace(H @ exact[k]))))
        if not ee <= 2 * hn * math.sqrt(d) * allowed:
            return f"energy at index {k} differs from exact by {ee:.3e} > {2 * hn * math.sqrt(d) * allowed:.3e}", worst
    return None, worst


KLASS = "krylov-early-accept-weak-drive-dm"

# Witness of finding D20-C16 (known_findings.d/ideal.json; first seen by `VERIF_SEED=11 ./vcheck C16 --tier thorough`):
# a weakly driven first step, then two laser-off steps in which only U and the noise act.
WITNESS = dict(n=2, nsteps=3, grid_kind="witness", times=[0.0, 7.0, 8.0, 18.0],
               omega=[[0.1951620479151358, 0.07727364143556614], [0.0, 0.0], [0.0, 0.0]],
               delta=[[0.7563658423293106, 0.2651589026593739], [0.0, 0.0], [0.0, 0.0]],
               phi=[[0.0, 0.0], [0.0, 0.0], [0.0, 0.0]], pmode="zero",
               U=[[0.0, 2.7373075910697624], [2.7373075910697624, 0.0]],
               masked=[[0.0, 2.7373075910697624], [2.7373075910697624, 0.0]], slm_end=7.5, init=None, delay=[1, 2],
               kt=1e-10, obs0=True, noise=[("relaxation", 0.1, None), ("dephasing", 1.0, None)])


def classify(case, msg, out=None):
    """Narrow witness class of an oracle failure — the density-matrix twin of C01's classifier.
    `krylov-early-accept-weak-drive-dm` iff for some step of the run, started from the *exact* rho, the real
    `krylov_exp_impl` (Arnoldi, on vec(rho) with the dense dt·L) (a) returns converged, not by happy breakdown,
    (b) is off by more than the per-step allowance (10·tol + 1e-9)·|rho|_F, and (c) would NOT have accepted had its
    Expokit estimate used Expokit's norm |A v_{j+1}| instead of n = |A v_j| (estimate recomputed from the very
    `matrix_exp` output the code accepted on is >= tol), and (d) the observed state errors are explained in size by the
    per-step errors of that replay. Anything else is unclassified (→ VIOLATION)."""
    import torch
    from unittest import mock
    from scipy.linalg import expm
    from emu_base.math.krylov_exp import krylov_exp_impl
    n = case["n"]
    d = 2 ** n
    jumps = [ic.embed(L, q, n) for q in range(n) for L in jump_ops(case)]
    rho = ic.rho0(case).reshape(-1)
    real_me = torch.linalg.matrix_exp
    hit, pred, exacts = False, [0.0], [rho]
    for dt, H in ic.piecewise(case):
        S = ic.liouvillian(H, jumps)
        A = torch.tensor(dt * S)
        seen, exps = [], []

        def op(x, A=A, seen=seen):
            seen.append(x.clone())
            return A @ x

        def me(x, exps=exps):
            r = real_me(x)
            exps.append(r.clone())
            return r
        with mock.patch.object(torch.linalg, "matrix_exp", me):
            r = krylov_exp_impl(op, torch.tensor(rho).clone(), is_hermitian=False, exp_tolerance=case["kt"],
                                norm_tolerance=case["kt"])
        exact = expm(dt * S) @ rho
        err = float(np.linalg.norm(r.result.numpy() - exact))
        if r.converged and not r.happy_breakdown and err > (10 * case["kt"] + 1e-9) * float(np.linalg.norm(rho)):
            j = r.iteration_count - 1
            w = A @ seen[-1]
            for u in seen:
                w = w - torch.vdot(u, w) * u
            if float(w.norm()) > 0 and exps:
                avnorm = float((A @ (w / w.norm())).norm())
                expd = exps[-1]
                err1, err2 = abs(complex(expd[j + 1, 0])), abs(complex(expd[j + 2, 0])) * avnorm
                est = err1 if err1 < err2 else err1 * err2 / (err1 - err2)
                if est >= case["kt"]:
                    hit = True
        pred.append(pred[-1] + err)
        exacts.append(exact)
        rho = exact
    if not hit:
        return None
    if out is not None and out.get("results") is not None:
        # the mechanism must also *explain the size* of what was observed: at every reported index the state error is
        # at most 3x the sum of the per-step errors the real kernel makes from the exact states (+ the allowance)
        first = 0 if case["obs0"] else 1
        for pos, k in enumerate(range(first, len(case["times"]))):
            r = out["results"].state[pos].data.numpy().reshape(-1)
            if float(np.linalg.norm(r - exacts[k])) > 3.0 * pred[k] + k * (10.0 * case["kt"] + 1e-9) + ROUND:
                return None
    return KLASS


def check(rep: Report, tier: str, seed: int) -> None:
    rep.rule = ("cases = hand-built noisy SequenceData: 1-4 atoms, 1-5 steps, non-uniform grids, per-atom drives, SLM end "
                "inside a step, 1-3 channels out of dephasing / relaxation / depolarizing / random complex 2x2 eff_noise "
                "with rates 0.01..5 per us, optional user-supplied initial density matrix (random pure, or random MIXED with "
                "purity < 1) run twice with the same config object + bit-for-bit check of the caller's tensor, laser-off "
                "steps, krylov_tolerance 1e-8..1e-12; plus a stream with state_prep_error > 0 and bad-atom masks (dark atom with a "
                "higher index than a well-prepared neighbour, U 10-40, depolarizing or g->r eff_noise). "
                "non-trivial = at least 2 steps")
    rep.assumptions = [
        "positivity of the exact flow (Lindblad's theorem) is not proved: PositivityAssumed; validated by min eigenvalue",
        "Arnoldi accuracy (C07) and matrix-free generator = dense generator (C06): validated by the dense Liouvillian expm",
        "binary64 rounding outside the theorems; allowance k*(10*tol+1e-9)+1e-10 (a thorough run at seed 7 showed 1.04e-8 against the former k*10*tol+1e-10 = 5.1e-9 on the clean tree: false alarm of the oracle, corrected)",
        "agreement with Pulser's QuTiP master-equation solver cannot be checked (not installed)",
    ]
    lean_stage(rep, PROP_MODULE, AUDIT, thorough=(tier == "thorough"))
    rng = seeded(seed * 7919 + 116)
    import torch
    torch.manual_seed(seed)
    n_cases = 52 if tier == "quick" else 1500
    cases, outs, due = [], [], []
    worst = 0.0
    n_dark = 12 if tier == "quick" else 300
    for i in range(n_cases + n_dark):
        case = gen(rng, 4 if i % 4 == 0 else 3) if i < n_cases else gen_dark(rng)
        if case.get("bad"):
            rep.count("cases_with_badly_prepared_atoms")
        try:
            out = run_case(case)
            if out["status"] == "ok" and has_user_state(case):
                # the caller's density matrix must be bit-for-bit unchanged, and a second run with the SAME
                # config / state object must be as right as the first
                rep.hist("user_state", "mixed" if case.get("init_mixed") else "pure")
                if out["init_unchanged"] is False:
                    rep.fail("the caller's initial DensityMatrix tensor was modified in place by the run", ic.ser_case(case))
                out2 = run_case(case, config=out["config"])
                rep.count("second_runs_same_config")
                msg2 = (f"second run failed with {out2['status']}" if out2["status"] != "ok" else oracle(case, out2)[0])
                if msg2:
                    rep.fail("second run with the same config object: " + msg2, ic.ser_case(case, second_run=True),
                             klass=(classify(case, msg2, out2) if out2["status"] == "ok" and out2["init_unchanged"] is not False
                                    and out["init_unchanged"] is not False else None))
        except Exception as e:
            rep.fail(f"real SVBackendImpl (noisy) raised {type(e).__name__}: {e}", ic.ser_case(case))
            continue
        cases.append(case)
        outs.append(out)
        due.append(case["obs0"])
        rep.hist("atoms", case["n"])
        rep.hist("channels", "+".join(sorted(k for k, _, _ in case["noise"])))
        rep.hist("status", out["status"])
        rep.case(key=(tuple(case["times"]), case["slm_end"], case["n"], len(case["noise"])), nontrivial=case["nsteps"] >= 2,
                 sample={"n": case["n"], "times": case["times"], "noise": [(k, r) for k, r, _ in case["noise"]],
                         "kt": case["kt"]})
        if out["status"] != "ok":
            rep.fail(f"real noisy run failed with {out['status']} on a well-formed grid", ic.ser_case(case))
            continue
        msg, w = oracle(case, out)
        if msg:
            k = classify(case, msg, out)
            rep.hist("oracle_failure_class", k)
            rep.fail(msg, ic.ser_case(case), klass=k)
        else:
            worst = max(worst, w)
    # replay of the recorded witness of the known finding on the real code (DESIGN §2.4)
    wout = run_case(dict(WITNESS))
    wmsg = oracle(WITNESS, wout)[0] if wout["status"] == "ok" else None
    rep.extra["witness_D20_C16"] = wmsg or "no longer fails (fixed?)"
    if wmsg:
        rep.fail(wmsg, ic.ser_case(WITNESS), klass=classify(WITNESS, wmsg, wout))
    ic.compare_schedule(rep, "c16", cases, outs, due)
    rep.extra["oracle_worst_over_allowed"] = round(worst, 4)
    if rep.broken and not rep.unknown_failing():
        search(rep, seed, 80 if tier == "quick" else 1500)


def search(rep: Report, seed: int, n: int) -> None:
    """Failing-input search on the real code: the dense Liouvillian oracle with strong noise and long steps."""
    rng = seeded(seed * 104729 + 16)
    for i in range(n):
        case = gen(rng, 3)
        case["obs0"] = True
        case["noise"] = [(k, 5.0 if m is None else r, m) for k, r, m in case["noise"]]
        try:
            out = run_case(case)
        except Exception as e:
            rep.fail(f"real SVBackendImpl (noisy) raised {type(e).__name__}: {e}", ic.ser_case(case))
            return
        if out["status"] != "ok":
            rep.fail(f"real noisy run failed with {out['status']}", ic.ser_case(case))
            return
        msg, _ = oracle(case, out)
        if msg:
            rep.fail(msg, ic.ser_case(case))
            return
    rep.extra["search_cases"] = n


def replay(rep: Report, path: str) -> int:
    data = json.load(open(path))
    bad = 0
    for f in data.get("failing_inputs", []):
        case = f["data"]
        case["noise"] = [tuple(x) for x in case["noise"]]
        try:
            out = run_case(case)
            if case.get("second_run") and out["status"] == "ok":
                out = run_case(case, config=out["config"])
            msg = f"run failed with {out['status']}" if out["status"] != "ok" else oracle(case, out)[0]
            if not msg and out.get("init_unchanged") is False:
                msg = "the caller's initial DensityMatrix tensor was modified in place by the run"
        except Exception as e:
            msg = f"raised {type(e).__name__}: {e}"
        print("replay:", msg or "property holds on this input now")
        bad += bool(msg)
    return 1 if bad else 0
