"""C17 — emu-mps quantum-jump trajectories reproduce Lindblad dynamics on average (PARTIAL).

Lean: EmuVerif.Props.C17 (noise term = −(i/2)ΣL†L, drift + jump term = Lindblad generator, jump
weights = L†L expectation values ≥ 0, candidate/weight enumeration order, random.choices interval).
Correspondence (exact): `compute_noise_from_lindbladians`, `aggregated_lindblad_ops`, the candidate list and
weights handed to `random.choices` by the real `do_random_quantum_jump`, `random.choices` itself.
Oracles on the real code: post-jump state = normalised L_q ψ; no-jump drift = exp(−i H_eff t) (dense);
every trajectory reports a normalised state's observables in range; trajectory average vs dense
Liouvillian (statistical, supporting validation only, family-wise error 1e-6).
"""
from __future__ import annotations

import json
import math
import random
from fractions import Fraction
from unittest import mock

import numpy as np

from harness.common import Driver, LeanError, Report, f2b, q2s, lst, lean_stage, seeded

REGISTRY = dict(
    text=("PARTIAL. Lean 4 theorems, for every dimension, every list of jump operators and every rho: the term emu-mps adds to "
          "the single-site Hamiltonian is -(i/2)*sum L^dag L; with it, drift + jump term = the Lindblad generator "
          "(unravelling_generator); aggregated operators are L^dag L with non-negative expectation (the jump weights); the "
          "candidate list and the flattened weight tensor enumerate (site, operator) in the same order for all sizes; "
          "random.choices picks index i exactly on an interval of the uniform draw of length w_i/W. Model tied to the code by "
          "exact correspondence on dyadic inputs and by tapes of the real do_random_quantum_jump. NOT proved (assumed, validated "
          "on the real code against dense references): convergence of the trajectory average (law of large numbers) and TDVP "
          "accuracy; stepping/jump times are C18, canonical form C10."),
    note=("Trusted: Lean kernel + propext/Classical.choice/Quot.sound; Mathlib matrices over C; Model.Jump tied by correspondence; "
          "statistical acceptance (5.5 sigma + discretisation allowance) is supporting validation only, never a proof."),
    technique="Lean 4 proof (matrix algebra over C, list induction) + exact correspondence + dense Lindblad reference",
    design_ref="DESIGN.md §5 C17",
)

PROP_MODULE = "EmuVerif.Props.C17"
AUDIT = "Audit/C17.lean"


# ------------------------------------------------------------------ helpers
def dyadic(rng):
    return Fraction(rng.randint(-8, 8), rng.choice([1, 2, 4, 8]))


def rand_ops(rng, dim, k):
    """k random dim×dim matrices with dyadic complex entries (as Fractions) — sparse or full."""
    ops = []
    for _ in range(k):
        full = rng.random() < 0.5
        m = [[(dyadic(rng), dyadic(rng)) if (full or rng.random() < 0.4) else (Fraction(0), Fraction(0))
              for _ in range(dim)] for _ in range(dim)]
        ops.append(m)
    return ops


def to_torch(m):
    import torch
    return torch.tensor([[complex(float(a), float(b)) for a, b in row] for row in m], dtype=torch.complex128)


def show_mat_frac(t):
    """torch complex matrix with exactly representable entries -> 're:im' list as the Lean driver prints it."""
    out = []
    for row in t.tolist():
        for z in row:
            out.append(f"{q2s(Fraction(z.real))}:{q2s(Fraction(z.imag))}")
    return ",".join(out)


def dense_site(op, k, n, dim):
    mats = [np.eye(dim, dtype=complex)] * n
    mats = list(mats)
    mats[k] = op
    out = mats[0]
    for m in mats[1:]:
        out = np.kron(out, m)
    return out


def mps_to_dense(state):
    import torch
    acc = state.factors[0]
    for f in state.factors[1:]:
        acc = torch.tensordot(acc, f, dims=([acc.ndim - 1], [0]))
    return acc.reshape(-1).numpy()


# ------------------------------------------------------------------ correspondence: linear algebra
def corr_noise(rep: Report, rng, n_cases: int, drv: Driver):
    import torch
    from emu_base.jump_lindblad_operators import compute_noise_from_lindbladians
    lines, impl = [], []
    for _ in range(n_cases):
        dim = rng.choice([2, 2, 3])
        k = rng.randint(0, 6)
        ops = rand_ops(rng, dim, k)
        tops = [to_torch(m) for m in ops]
        noise = compute_noise_from_lindbladians(tops, dim)
        if tops:
            stacked = torch.stack(tops)
            agg = stacked.conj().transpose(1, 2) @ stacked       # what init_lindblad_noise computes
            aggs = ";".join(show_mat_frac(a) for a in agg)
        else:
            aggs = ""
        impl.append(f"{show_mat_frac(noise)} | {aggs}")
        arg = ";".join(",".join(f"{q2s(a)}:{q2s(b)}" for row in m for a, b in row) for m in ops) or "-"
        lines.append(f"jump.noise {dim} {arg}")
        rep.hist("noise_dim_k", f"{dim}x{k}")
    try:
        out = drv.batch(lines)
    except LeanError as e:
        rep.broke("driver: " + str(e)[-600:])
        return
    bad = 0
    for l, m, i in zip(lines, out, impl):
        rep.case(key=l, nontrivial=not l.endswith(" -"), sample={"line": l[:160], "model": m[:160]})
        if m != i:
            bad += 1
            if bad <= 3:
                rep.broke(f"correspondence compute_noise_from_lindbladians/aggregated: {l[:300]} model={m[:300]} impl={i[:300]}")
    rep.extra["noise_disagreements"] = bad


def corr_choices(rep: Report, rng, n_cases: int, drv: Driver):
    lines, impl = [], []
    for _ in range(n_cases):
        n = rng.randint(1, 12)
        kind = rng.choice(["rand", "lattice", "zeros", "tiny"])
        if kind == "rand":
            ws = [rng.random() for _ in range(n)]
        elif kind == "lattice":
            ws = [rng.randint(0, 4) / 4 for _ in range(n)]
        elif kind == "zeros":
            ws = [0.0] * n
            if rng.random() < 0.7:
                ws[rng.randrange(n)] = rng.random()
        else:
            ws = [rng.random() * 10 ** rng.uniform(-12, 0) for _ in range(n)]
        u = rng.choice([0.0, rng.random(), rng.randint(0, 16) / 16, 1.0 - 2 ** -53])
        with mock.patch.object(random._inst, "random", lambda u=u: u, create=True):
            try:
                r = str(random.choices(range(n), weights=ws)[0])
            except (ValueError, IndexError):
                r = "raise"
        impl.append(r)
        lines.append(f"jump.choose {lst(f2b(w) for w in ws)} {f2b(u)}")
        rep.hist("choices_kind", kind)
    try:
        out = drv.batch(lines)
    except LeanError as e:
        rep.broke("driver: " + str(e)[-600:])
        return
    bad = 0
    for l, m, i in zip(lines, out, impl):
        rep.case(key=l)
        if m != i:
            bad += 1
            if bad <= 3:
                rep.broke(f"correspondence random.choices: {l[:300]} model={m} impl={i}")
    rep.extra["choices_disagreements"] = bad


# ------------------------------------------------------------------ the real jump
class _NoJumpPossible(Exception):
    pass


def make_impl(rng, n, dim, ops, steps=2, dt=10.0):
    import torch
    from harness import compat
    from emu_mps.mps_backend_impl import create_impl
    from pulser.backend import Occupation
    T = [dt * k for k in range(steps + 1)]
    U = np.zeros((n, n))
    for i in range(n):
        for j in range(i + 1, n):
            U[i, j] = U[j, i] = rng.choice([0.0, rng.uniform(-2, 2)])
    om = np.array([[rng.uniform(0, 6) for _ in range(n)] for _ in range(steps)])
    de = np.array([[rng.uniform(-3, 3) for _ in range(n)] for _ in range(steps)])
    ph = np.array([[rng.choice([0.0, rng.uniform(-3, 3)]) for _ in range(n)] for _ in range(steps)])
    data = compat.make_sequence_data(om, de, ph, U, T, lindblad_ops=ops,
                                     eigenstates=("r", "g") if dim == 2 else ("r", "g", "x"))
    # the internal state is read directly (site order): keep site order = register order
    cfg = compat.mps_config(observables=[Occupation(evaluation_times=[1.0])], precision=1e-10, optimize_qubit_ordering=False)
    impl = create_impl(data, cfg)
    return impl, dict(om=om, de=de, ph=ph, U=U, T=T)


def jump_tape(rep: Report, rng, n_cases: int, drv: Driver):
    """Drive the real `do_random_quantum_jump` from an evolved state; capture what it hands to random.choices."""
    import torch
    lines, expect = [], []
    for case in range(n_cases):
        n = rng.randint(2, 4)
        dim = rng.choice([2, 2, 3])
        k = rng.randint(1, 3)
        ops = [to_torch(m) * 0.25 for m in rand_ops(rng, dim, k)]
        if all(float(o.abs().sum()) == 0 for o in ops):
            ops[0][0, 1] = 0.5
        seed = rng.randrange(10 ** 6)
        random.seed(seed)
        torch.manual_seed(seed)
        try:
            impl, par = make_impl(rng, n, dim, ops)
            impl.init()
            for _ in range(rng.randint(1, 2 * n)):   # somewhere inside the first sweep
                impl.progress()
            psi = mps_to_dense(impl.state)
            captured = {}

            def fake_choices(population, weights=None, **kw):
                captured["pop"] = population
                captured["w"] = list(weights)
                # the real random.choices never returns a zero-weight candidate (it would annihilate the state)
                if max(captured["w"]) <= 1e-12:
                    raise _NoJumpPossible()   # every operator annihilates this state: not a reachable jump
                good = [i for i, wi in enumerate(captured["w"]) if wi > 1e-6 * max(captured["w"])]
                idx = captured["idx"] = rng.choice(good)
                return [population[idx]]

            uniform_calls = []

            def fake_uniform(a, b):
                uniform_calls.append((a, b))
                return 0.5 * (a + b)

            with mock.patch("random.choices", fake_choices), mock.patch("random.uniform", fake_uniform):
                impl.do_random_quantum_jump()
            after = mps_to_dense(impl.state)
        except _NoJumpPossible:
            rep.count("jump_cases_skipped_zero_weights")
            continue
        except Exception as e:
            rep.fail(f"real do_random_quantum_jump raised {type(e).__name__}: {e}",
                     {"n": n, "dim": dim, "k": k, "seed": seed}, klass=None)
            continue
        pop, w = captured["pop"], captured["w"]
        # order: map operator objects back to their index in impl.lindblad_ops
        try:
            order = [(q, next(i for i, o in enumerate(impl.lindblad_ops) if o is op)) for q, op in pop]
        except StopIteration:
            rep.fail("jump candidate operator is not one of the Lindblad operators", {"n": n, "seed": seed})
            continue
        lines.append(f"jump.cands {n} {k}")
        expect.append((order, n, k))
        # weights = <psi| L_k^dag L_k at site q |psi>, in the same order
        nrm2 = float(np.vdot(psi, psi).real)
        ok = len(w) == n * k
        worst = 0.0
        for (q, kk), wi in zip(order, w):
            A = dense_site(ops[kk].numpy(), q, n, dim)
            ref = float(np.vdot(A @ psi, A @ psi).real)
            worst = max(worst, abs(ref - wi))
            if wi < -1e-12:
                ok = False
        if not ok or worst > 1e-9 * max(1.0, nrm2):
            rep.fail(f"jump weights are not <psi|L^dag L|psi> in candidate order (worst abs error {worst:.3g})",
                     {"n": n, "dim": dim, "k": k, "seed": seed, "weights": w})
        # after the jump the next threshold must be drawn from U(0, <psi|psi>) = U(0, 1) of the renormalised state
        if not uniform_calls or abs(uniform_calls[-1][0]) > 0 or abs(uniform_calls[-1][1] - 1.0) > 1e-9:
            rep.fail(f"after a jump the new threshold is drawn from U{uniform_calls[-1] if uniform_calls else '()'} instead of U(0, 1) "
                     "(squared norm of the renormalised state)", {"n": n, "dim": dim, "k": k, "seed": seed})
        gap = getattr(impl, "norm_gap_before_jump", None)
        thr = getattr(impl, "jump_threshold", None)
        if gap is not None and thr is not None and abs((gap + thr) - 1.0) > 1e-9:
            rep.fail(f"after a jump norm_gap_before_jump + jump_threshold = {gap + thr!r}, expected the squared norm 1",
                     {"n": n, "dim": dim, "k": k, "seed": seed})
        # post-jump state = normalised L_q psi
        q, kk = order[captured["idx"]]
        target = dense_site(ops[kk].numpy(), q, n, dim) @ psi
        tn = np.linalg.norm(target)
        if tn > 1e-8:
            target = target / tn
            err = np.linalg.norm(after - target * np.vdot(target, after))  # up to a global phase
            if err > 1e-7 or abs(np.linalg.norm(after) - 1) > 1e-8:
                rep.fail(f"state after the jump is not the normalised L_q psi (err {err:.3g}, norm {np.linalg.norm(after):.12g})",
                         {"n": n, "dim": dim, "k": k, "seed": seed, "site": q, "op": kk})
        rep.hist("jump_case", f"n{n}d{dim}k{k}")
    try:
        out = drv.batch(lines)
    except LeanError as e:
        rep.broke("driver: " + str(e)[-600:])
        return
    bad = 0
    for l, m, (order, n, k) in zip(lines, out, expect):
        rep.case(key=(l, tuple(order)), sample={"line": l, "impl_order": order[:8]})
        pairs, flat = m.split(" ")
        model_order = [tuple(int(x) for x in p.split(":")) for p in pairs.split(",")] if pairs != "-" else []
        model_flat = [int(x) for x in flat.split(",")] if flat != "-" else []
        if model_order != order or model_flat != list(range(n * k)):
            bad += 1
            if bad <= 3:
                rep.broke(f"correspondence jump candidates: {l} model={model_order} impl={order}")
    rep.extra["candidate_disagreements"] = bad


# ------------------------------------------------------------------ dense references
def dense_H(par, step, n, dim):
    """Rydberg Hamiltonian of one step in the emulator's basis (index 0 = g, 1 = r[, 2 = x]); rad/µs."""
    sx = np.zeros((dim, dim), complex); sx[0, 1] = sx[1, 0] = 1
    sy = np.zeros((dim, dim), complex); sy[0, 1] = -1j; sy[1, 0] = 1j
    nn = np.zeros((dim, dim), complex); nn[1, 1] = 1
    H = np.zeros((dim ** n, dim ** n), complex)
    for k in range(n):
        om, de, ph = par["om"][step, k], par["de"][step, k], par["ph"][step, k]
        # emu convention: (Ω/2)(e^{iφ}|g><r| + h.c.) − δ n  — validated against the real run by this oracle
        h = om / 2 * (math.cos(ph) * sx + math.sin(ph) * sy) - de * nn
        H += dense_site(h, k, n, dim)
    for i in range(n):
        for j in range(i + 1, n):
            H += par["U"][i, j] * dense_site(nn, i, n, dim) @ dense_site(nn, j, n, dim)
    return H


def drift_oracle(rep: Report, rng, n_cases: int):
    """No-jump branch: with the threshold forced to ~0 the unnormalised state must follow exp(−i H_eff t)."""
    import torch
    import scipy.linalg as sla
    for case in range(n_cases):
        n = rng.randint(2, 3)
        dim = 2
        k = rng.randint(1, 2)
        ops = [to_torch(m) * 0.25 for m in rand_ops(rng, dim, k)]
        if all(float(o.abs().sum()) == 0 for o in ops):
            ops[0][0, 1] = 0.5
        seed = rng.randrange(10 ** 6)
        try:
            with mock.patch("random.uniform", lambda a, b: 1e-300):
                impl, par = make_impl(rng, n, dim, ops, steps=3, dt=rng.choice([1.0, 2.0]))
                impl.init()
                while not impl.is_finished():
                    impl.progress()
            psi = mps_to_dense(impl.state)
        except Exception as e:
            rep.fail(f"noisy run without jumps raised {type(e).__name__}: {e}", {"n": n, "seed": seed})
            continue
        ref = np.zeros(dim ** n, complex); ref[0] = 1
        G = sum(dense_site((o.numpy().conj().T @ o.numpy()), q, n, dim) for q in range(n) for o in ops)
        for s in range(3):
            H = dense_H(par, s, n, dim)
            dt = (par["T"][s + 1] - par["T"][s]) * 1e-3
            ref = sla.expm(-1j * dt * (H - 0.5j * G)) @ ref
        err = np.linalg.norm(psi - ref * np.vdot(ref, psi) / max(np.vdot(ref, ref).real, 1e-300))
        nerr = abs(np.vdot(psi, psi).real - np.vdot(ref, ref).real)
        rep.case(key=("drift", seed, n), sample={"drift_case": {"n": n, "k": k, "norm2": float(np.vdot(psi, psi).real), "err": float(err)}})
        rep.extra["drift_worst"] = max(rep.extra.get("drift_worst", 0.0), float(max(err, nerr)))
        # TDVP projector splitting is O(dt^3) per step for n > 2 sites: with dt <= 2 ns and these rates the clean tree
        # stays below 2e-6; the threshold leaves a factor 100
        if err > 2e-4 or nerr > 2e-4:
            rep.fail(f"no-jump evolution is not exp(-i H_eff t): state err {err:.3g}, norm² err {nerr:.3g}",
                     {"n": n, "k": k, "seed": seed, "ops": [o.tolist().__repr__() for o in ops],
                      "om": par["om"].tolist(), "de": par["de"].tolist(), "ph": par["ph"].tolist(), "U": par["U"].tolist(), "T": par["T"]})


def average_oracle(rep: Report, rng, n_traj: int, steps: int):
    """Trajectory average vs dense Liouvillian (supporting statistical validation; 5.5 sigma + 0.01)."""
    import torch
    import scipy.linalg as sla
    from harness import compat
    from pulser.backend import Occupation
    n, dim = 2, 2
    kind = rng.choice(["relaxation", "dephasing", "eff"])
    g = rng.uniform(0.3, 1.2)
    L = torch.zeros(2, 2, dtype=torch.complex128)
    if kind == "relaxation":
        L[0, 1] = math.sqrt(g)
    elif kind == "dephasing":
        L[0, 0], L[1, 1] = math.sqrt(g / 2), -math.sqrt(g / 2)
    else:
        L[1, 0] = math.sqrt(g) * 0.5; L[0, 1] = math.sqrt(g)
    dt = 20.0
    T = [dt * k for k in range(steps + 1)]
    U = np.array([[0, 1.5], [1.5, 0]])
    par = dict(om=np.full((steps, n), rng.uniform(2, 5)), de=np.full((steps, n), rng.uniform(-1, 1)), ph=np.zeros((steps, n)), U=U, T=T)
    acc = np.zeros(n)
    for k in range(n_traj):
        s = rng.randrange(10 ** 9)
        random.seed(s); torch.manual_seed(s)
        d = compat.make_sequence_data(par["om"], par["de"], par["ph"], U, T, lindblad_ops=[L])
        try:
            r = compat.run_mps(d, compat.mps_config(observables=[Occupation(evaluation_times=[1.0])]))
        except Exception as e:
            rep.fail(f"noisy trajectory raised {type(e).__name__}: {e}", {"kind": kind, "seed": s})
            return
        occ = np.array(r.occupation[-1].tolist())
        if np.any(occ < -1e-9) or np.any(occ > 1 + 1e-9):
            rep.fail(f"trajectory reports occupation outside [0,1]: {occ.tolist()}", {"kind": kind, "seed": s})
        acc += occ
    mean = acc / n_traj
    H = dense_H(par, 0, n, dim)
    D = dim ** n
    Id = np.eye(D)
    Lv = -1j * (np.kron(H, Id) - np.kron(Id, H.T))
    for q in range(n):
        A = dense_site(L.numpy(), q, n, dim)
        AdA = A.conj().T @ A
        Lv += np.kron(A, A.conj()) - 0.5 * np.kron(AdA, Id) - 0.5 * np.kron(Id, AdA.T)
    rho0 = np.zeros((D, D), complex); rho0[0, 0] = 1
    rho = (sla.expm(Lv * (T[-1] * 1e-3)) @ rho0.reshape(-1)).reshape(D, D)
    nn = np.diag([0, 1]).astype(complex)
    exact = np.array([np.trace(rho @ dense_site(nn, q, n, dim)).real for q in range(n)])
    sigma = np.sqrt(np.maximum(exact * (1 - exact), 1e-4) / n_traj)
    rep.extra["average"] = {"kind": kind, "trajectories": n_traj, "mean": mean.tolist(), "exact": exact.tolist(), "sigma": sigma.tolist()}
    rep.case(key=("avg", kind), sample={"average": rep.extra["average"]})
    if np.any(np.abs(mean - exact) > 5.5 * sigma + 0.01):
        rep.fail(f"trajectory average {mean.tolist()} deviates from the Lindblad value {exact.tolist()} by more than 5.5 sigma + 0.01",
                 {"kind": kind, "rate": g, "trajectories": n_traj, "steps": steps})


# ------------------------------------------------------------------ observables see the normalised state
def _norm_probe_cls():
    from pulser.backend.observable import Observable

    class NormProbe(Observable):
        """records <psi|psi> and the per-site occupations of the state handed to the observables"""

        @property
        def _base_tag(self) -> str:
            return "normprobe"

        def apply(self, *, config, state, hamiltonian=None, **kw):
            import torch
            from emu_mps.custom_callback_implementations import qubit_occupation_mps_impl
            from pulser.backend import Occupation
            n2 = float(torch.as_tensor(state.norm()).real) ** 2
            occ = qubit_occupation_mps_impl(Occupation(evaluation_times=[1.0]), config=config, state=state, hamiltonian=hamiltonian)
            return [n2] + [float(x) for x in torch.as_tensor(occ).real.tolist()]

    return NormProbe


def normalised_state_oracle(rep: Report, rng, n_cases: int):
    """Noisy emu-mps trajectories (norm < 1 between jumps) with and without badly prepared (dark) atoms:
    at every evaluation time the state handed to the observables has <psi|psi> = 1 (1e-9), the reported
    occupation is the one of the normalised state, dark atoms report 0, everything lies in [0, 1]."""
    import torch
    from harness import compat
    from pulser.backend import Occupation
    Probe = _norm_probe_cls()
    thorough = n_cases > 20
    for c in range(n_cases):
        n = rng.choice([3, 4]) if thorough else 3
        bad = [False] * n
        # 1, 1, 0, 1, … dark atoms (2 of 4 sometimes in the thorough tier): always >= 2 well prepared
        n_bad = (2 if (n == 4 and c % 5 == 4) else (0 if c % 4 == 2 else 1))
        for q in rng.sample(range(n), n_bad):
            bad[q] = True
        g = rng.uniform(0.2, 1.0)
        kind = rng.choice(["relaxation", "dephasing", "both"])
        ops = []
        if kind in ("relaxation", "both"):
            L = torch.zeros(2, 2, dtype=torch.complex128); L[0, 1] = math.sqrt(g); ops.append(L)
        if kind in ("dephasing", "both"):
            L = torch.zeros(2, 2, dtype=torch.complex128); L[0, 0], L[1, 1] = math.sqrt(g / 2), -math.sqrt(g / 2); ops.append(L)
        steps, dt = (4, 10.0) if thorough else (3, 10.0)
        times = [(k + 1) / steps for k in range(steps)]
        T = [dt * k for k in range(steps + 1)]
        U = np.zeros((n, n))
        for i in range(n):
            for j in range(i + 1, n):
                U[i, j] = U[j, i] = rng.uniform(0.2, 2.0)
        om = np.full((steps, n), rng.uniform(4, 9)); de = np.full((steps, n), rng.uniform(-1, 1)); ph = np.zeros((steps, n))
        s = rng.randrange(10 ** 9)
        random.seed(s); torch.manual_seed(s)
        data = dict(seed=s, n=n, bad_atoms=bad, kind=kind, rate=g, omega=float(om[0, 0]), delta=float(de[0, 0]), U=U.tolist())
        d = compat.make_sequence_data(om, de, ph, U, T, lindblad_ops=ops, bad_atoms=bad, state_prep_error=0.3 if n_bad else 0.0)
        cfg = compat.mps_config(observables=[Occupation(evaluation_times=times), Probe(evaluation_times=times)],
                                optimize_qubit_ordering=False)
        try:
            r = compat.run_mps(d, cfg)
        except Exception as e:  # noqa: BLE001
            rep.fail(f"noisy trajectory with bad atoms {bad} raised {type(e).__name__}: {e}", data)
            continue
        rep.hist("normprobe_dark_atoms", n_bad)
        rep.case(key=("normprobe", s), sample={"normprobe": {"bad_atoms": bad, "kind": kind}})
        for k, t in enumerate(times):
            pr = r.get_result("normprobe", t)
            occ = np.array(torch.as_tensor(r.get_result("occupation", t)).real.tolist())
            n2, pocc = pr[0], np.array(pr[1:])
            if abs(n2 - 1.0) > 1e-9:
                rep.fail(f"state handed to the observables at t={t} has <psi|psi> = {n2!r} (dark atoms {bad}, {kind} noise)",
                         dict(data, t=t, norm2=n2, occupation=occ.tolist()))
                break
            if np.any(np.abs(occ - pocc / n2) > 1e-9) or np.any(occ < -1e-9) or np.any(occ > 1 + 1e-9):
                rep.fail(f"occupation reported at t={t} {occ.tolist()} is not that of the normalised state {(pocc / n2).tolist()}",
                         dict(data, t=t, norm2=n2))
                break
            if any(abs(occ[q]) > 1e-12 for q in range(n) if bad[q]):
                rep.fail(f"badly prepared atom reports a non-zero occupation at t={t}: {occ.tolist()} (bad {bad})", dict(data, t=t))
                break


# ------------------------------------------------------------------ check
def check(rep: Report, tier: str, seed: int) -> None:
    rep.rule = ("(a) random lists of 0-6 dyadic complex 2x2/3x3 jump operators: noise term and aggregated operators, exact; "
                "(b) random.choices on random/lattice/zero/tiny weight vectors and boundary draws, exact; (c) the real "
                "do_random_quantum_jump after partial sweeps on 2-4 sites (qubits/qutrits, 1-3 operators): candidate order, weights vs "
                "dense <psi|L^dag L|psi>, post-jump state; (d) no-jump drift vs dense exp(-i H_eff t); (e) trajectory average vs dense "
                "Liouvillian. non-trivial = at least one operator / weight; distinct = distinct request lines")
    rep.assumptions = [
        "law of large numbers for the trajectory average: not proved; validated statistically (5.5 sigma + 0.01, family-wise error < 1e-6)",
        "TDVP/Krylov accuracy of the no-jump evolution: validated against dense exp(-i H_eff t) to 2e-4 at dt <= 2 ns, not proved",
        "jump-time machine (C18) and canonical form after the jump (C10) are separate properties",
    ]
    lean_stage(rep, PROP_MODULE, AUDIT, thorough=(tier == "thorough"))
    rng = seeded(seed * 6151 + 17)
    drv = Driver()
    q = tier == "quick"
    corr_noise(rep, rng, 300 if q else 5000, drv)
    corr_choices(rep, rng, 1500 if q else 50000, drv)
    jump_tape(rep, rng, 8 if q else 200, drv)
    drift_oracle(rep, rng, 2 if q else 60)
    average_oracle(rep, rng, 12 if q else 240, 3 if q else 8)
    normalised_state_oracle(rep, rng, 8 if q else 120)
    if rep.broken and not rep.unknown_failing():
        # deeper search on the real code only
        jump_tape(rep, rng, 60 if q else 600, drv)
        drift_oracle(rep, rng, 10 if q else 100)


def replay(rep: Report, path: str) -> int:
    data = json.load(open(path))
    print(json.dumps(data, indent=1)[:4000])
    print("replay: re-run `./vcheck C17` with the recorded VERIF_SEED; the failing_inputs above carry the seeds/parameters")
    return 1 if data.get("failing_inputs") else 0
