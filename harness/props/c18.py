"""C18 — quantum-jump stepping: every step once, in order, jumps at threshold crossings, termination.

Lean: EmuVerif.Props.C18 (model `Model.Stepper`, noisy layer, embedding `Model.Brent`).
Correspondence: adversarial environment tapes (state norm, `random.uniform`, `random.choices`) driving
the REAL `NoisyMPSBackendImpl` (2-4 sites, `_evolve` stubbed to its own asserts) — the event stream
must equal the model's, floats bit for bit; plus single `sweep_complete` calls from arbitrary states.
Oracle (always on, real code only): the clauses of C18 evaluated on the collected real event streams
(tape runs and real physics runs with real evolution and seeded jumps).
"""
from __future__ import annotations

import itertools
import json
import math
import random as _random

from harness.common import Driver, LeanError, Report, f2b, b2f, lean_stage, seeded
from harness import compat
from harness.props.stepper_trace import Tracer, traced, TapeOut, classify_exception
from harness.props.c19 import iter_bound

REGISTRY = dict(
    text=("Lean 4 theorems about the stepping model, for EVERY sequence of squared norms / uniform draws, every chain "
          "length >= 2 and every non-decreasing grid, over every ordered field: Fill/StepDone events are exactly "
          "Fill(t_{k+1}) StepDone(k) for k = 0,1,2,... (no gap, no repeat, each fill at a grid time right before its "
          "StepDone); every sweep evolves between times of the current step; no step completes while a root search is "
          "open; every Jump(t) is an end of a bracket of width < 1 inside the step with a sign change of the gap "
          "(C19 Good/bracket_kept reused); LIVENESS with named hypothesis: with at most J jumps and C19's forced-bisection "
          "guard on the remaining steps (0 < t_k, t_{k+1} < 3 t_k) the run ends within steps+(J+1)(n+2) sweeps; the "
          "unconditional termination claim is refuted (Zeno: n jumps in one step for every n); steps whose bracket "
          "touches 0 (the first step) are left to C19's unproved TerminatesAlways. Props/C18Term.lean removes the "
          "t_{k+1} < 3 t_k restriction and covers the first step: with a search budget K on the remaining steps (K = n(2m+2) "
          "when 0 < t_k, t_{k+1} <= t_k 2^m, t_{k+1}-t_k < 2^n; K = n(2m+5) when 0 <= t_k, 2 t_{k+1} <= 2^m — every grid; both "
          "from C19Term) a search closes within K+2 sweeps and a run with at most J jumps ends within steps+(J+1)(K+2) sweeps, "
          "from init() on (run_terminates_of_jump_budget); the liveness hypothesis is now only: finitely many jumps. "
          "Counterexample proved and replayed "
          "on the real code: gap exactly 0 at a step boundary trips the BrentsRootFinder constructor assert (D10, "
          "KNOWN-FINDING), and that is the only way to trip it. Model tied to NoisyMPSBackendImpl by bit-exact event "
          "streams under adversarial tapes."),
    note=("Trusted: Lean kernel + propext/Classical.choice/Quot.sound; Mathlib; hand-written Model.Stepper/Model.Brent "
          "tied by correspondence only (generator-bounded); binary64 rounding outside the theorems; environment contract: "
          "uniform draws in [0,1], post-jump norm within the code's own isclose assert; tensors/local kernels abstracted "
          "to events."),
    technique="Lean 4 proof (invariants + induction over the environment tape) + bit-exact event-stream correspondence",
    design_ref="DESIGN.md §5 C18",
)

PROP_MODULE = "EmuVerif.Props.C18"
AUDIT = "Audit/C18.lean"
TERM_MODULE = "EmuVerif.Props.C18Term"
TERM_AUDIT = "Audit/C18Term.lean"
KNOWN_CLASS = "C18-gap-zero-at-boundary-assert"
D10_WITNESS = dict(n=2, times=[0.0, 10.0, 20.0, 30.0],
                   tape=[(1.0, 0.25, 1.0, 0), (0.5, 0.5, 1.0, 0), (0.25, 0.5, 1.0, 0), (0.9, 0.5, 1.0, 0)])


# ------------------------------------------------------------------ real code under a tape
_OPS = None


def _lindblad_ops():
    import torch
    return [math.sqrt(0.3) * torch.tensor([[1.0, 0.0], [0.0, -1.0]], dtype=torch.complex128),
            math.sqrt(0.2) * torch.tensor([[1.0, 0.5], [0.0, 1.0]], dtype=torch.complex128)]


# `MPSConfig.dt` is a knob of its own (the grid comes from target_times): every run draws it from CFG_DTS. The property's
# "1 ns root tolerance" does not depend on it: the model's tolerance is the constant 1 and so is the oracle's.
CFG_DTS = [1.0, 5.0, 10.0, 20.0, 37.0, 100.0]
CFG_DT = [10.0]


def set_cfg_dt(v):
    CFG_DT[0] = float(v)


def make_noisy_impl(n, times, observables=None, omega=0.0, ops=None, ev_times=(0.0, 1.0)):
    import torch
    import emu_mps.mps_backend_impl as mbi
    from pulser.backend import Occupation
    nsteps = len(times) - 1
    z = torch.zeros(nsteps, n)
    U = torch.zeros(n, n)
    for i in range(n - 1):
        U[i, i + 1] = U[i + 1, i] = 1.0
    data = compat.make_sequence_data(torch.full((nsteps, n), float(omega)), z, z, U, times,
                                     lindblad_ops=ops or _lindblad_ops())
    obs = observables if observables is not None else [Occupation(evaluation_times=list(ev_times))]
    cfg = compat.mps_config(observables=obs, optimize_qubit_ordering=False, dt=CFG_DT[0])
    return mbi.NoisyMPSBackendImpl(cfg, data)


class FnTracer(Tracer):
    """Environment whose squared norm is a FUNCTION of time: norm^2(t) = exp(-gamma (t - t_last_jump)); the uniform
    draws cycle through `us`. The values handed out are recorded in `used` (the tape the model is given)."""

    def __init__(self, gamma, us, max_sweeps=400):
        super().__init__(env_tape=[], stub_evolve=True)
        self.gamma, self.us, self.max_sweeps = gamma, us, max_sweeps
        self.used, self.t0, self._nj = [], 0.0, 0

    def tape_left(self):
        return len(self.used) < self.max_sweeps

    def next_env(self):
        if len(self.used) >= self.max_sweeps:
            raise TapeOut()
        js = [r for r in self.recs if r.startswith("J,")]
        if len(js) != self._nj:
            self._nj, self.t0 = len(js), b2f(js[-1].split(",")[1])
        t = self.impl.target_time if self.used else 0.0
        sq = math.exp(-self.gamma * max(t - self.t0, 0.0))
        self.env = (math.sqrt(sq), self.us[self._nj % len(self.us)], 1.0, len(self.used) % 4)
        self.used.append(self.env)
        self.env_pos = len(self.used)


# progress-call indices before which the back-end object is replaced by pickle.loads(pickle.dumps(impl)) — what
# autosave + resume does. The stepping history must not notice (the model has no such event: it is the identity).
PICKLE_AT = [frozenset()]


def set_pickle_at(ks):
    PICKLE_AT[0] = frozenset(ks)


def run_real_tape(n, times, tape, max_progress=100000, tracer=None):
    """Drive the real NoisyMPSBackendImpl with an environment tape [(norm, u, post_norm, choice)].
    Returns (status, records, tracer)."""
    tr = tracer if tracer is not None else Tracer(env_tape=tape, stub_evolve=True)
    tr.jump_info, tr.done_open = [], []
    status = None
    with traced(tr):
        try:
            impl = make_noisy_impl(n, times)
            impl.init()
            k = 0
            import pickle
            while not impl.is_finished():
                if k in PICKLE_AT[0]:
                    impl = pickle.loads(pickle.dumps(impl))
                    tr.pickled = getattr(tr, "pickled", 0) + 1
                impl.progress()
                k += 1
                if k > max_progress:
                    status = "nonterm"
                    break
            status = status or "done"
        except TapeOut:
            status = "tapeOut"
        except Exception as e:  # the real code raising is modelled (error tags)
            status = "err:" + classify_exception(e)
            tr.exc = e
    recs = tr.recs
    if status.startswith("err"):
        recs = recs[:tr.last_sweep_mark]  # the model drops the events of the sweep that raised
    return status, recs, tr


def model_line(n, times, tape):
    return (f"stepper.noisy {n} {len(times) - 1} {','.join(f2b(t) for t in times)} "
            + ",".join(f"{f2b(a ** 2)}:{f2b(u)}:{f2b(p ** 2)}" for a, u, p, _ in tape))


# ------------------------------------------------------------------ generators
LAT = [i / 8 for i in range(9)]
POST = [1.0, 1.0, 1.0, 1.0 + 2.0 ** -40, 1.0 - 2.0 ** -41]


def gen_times(rng):
    mode = rng.choice(["uniform", "uniform", "short", "ragged", "late"])
    ns = rng.randint(1, 4)
    if mode == "uniform":
        dt = rng.choice([10.0, 1.0, 2.0, 5.0, 20.0, 37.0, 100.0, 250.0, 1000.0, 0.5])
        return [i * dt for i in range(ns + 1)]
    if mode == "short":          # steps shorter than the 1 ns tolerance: searches converge at once
        dt = rng.choice([0.25, 0.5, 0.75])
        return [i * dt for i in range(ns + 1)]
    if mode == "late":           # grid not starting its first step at a bracket touching 0 only
        dt = rng.choice([4.0, 10.0])
        return [0.0] + [100.0 + i * dt for i in range(ns)]
    t, out = 0.0, [0.0]
    for _ in range(ns):
        t += rng.choice([0.5, 1.0, 3.0, 7.5, 10.0, 64.0, 300.0, 1000.0, rng.uniform(0.1, 30.0)])
        out.append(t)
    return out


def gen_tape(rng, length):
    mode = rng.choice(["lattice", "lattice", "random", "decay", "zeno", "gapzero"])
    tape = []
    if mode == "lattice":        # norms and draws on a 1/8 lattice: gap == 0 and ties are hit exactly
        for _ in range(length):
            tape.append((math.sqrt(rng.choice(LAT)) if rng.random() < 0.5 else rng.choice(LAT), rng.choice(LAT),
                         rng.choice(POST), rng.randrange(8)))
        tape[0] = (1.0, rng.choice(LAT), 1.0, 0)
    elif mode == "random":
        for _ in range(length):
            tape.append((rng.uniform(0.0, 1.1), rng.random(), rng.choice(POST), rng.randrange(8)))
        tape[0] = (1.0, rng.random(), 1.0, 0)   # init(): the state is normalised, the first gap is >= 0
    elif mode == "decay":        # physical looking: the norm decays, a crossing every few sweeps
        x = 1.0
        for _ in range(length):
            x *= rng.uniform(0.6, 1.0)
            if x < 0.05:
                x = rng.uniform(0.5, 1.0)
            tape.append((x, rng.uniform(0.05, 0.95), 1.0, rng.randrange(8)))
        tape[0] = (1.0, rng.uniform(0.05, 0.95), 1.0, 0)
    elif mode == "zeno":         # the norm collapses in every sweep
        tape = [(1.0, 0.5, 1.0, 0)] + [(rng.choice([0.0, 0.1, 0.2]), rng.choice([0.5, 0.75]), 1.0, rng.randrange(8))
                                        for _ in range(length - 1)]
    else:                        # gap exactly zero somewhere (the D10 history and relatives, incl. u == 1)
        thr = rng.choice([0.25, 0.5, 0.0625])
        tape = [(1.0, thr, 1.0, 0)]
        for _ in range(length - 1):
            tape.append((rng.choice([math.sqrt(thr), math.sqrt(thr), 1.0, math.sqrt(thr) / 2, 0.9]),
                         rng.choice([thr, thr, 1.0]), 1.0, rng.randrange(8)))
    return mode, tape


# ------------------------------------------------------------------ the property as an oracle on a real trace
def parse(rec):
    p = rec.split(",")
    return p[0], p[1:-3]


def oracle(times, recs, tr, status, tape_driven=True):
    """C18's clauses on one real event stream. Returns (message, klass) or None."""
    step, fills, open_since_done = 0, [], False
    first_fill_seen = False
    sweeps_since_anchor = 0     # sweeps of the current step since its start / the last jump
    for r in recs:
        kind, a = parse(r)
        if kind == "F":
            t = b2f(a[0])
            if not first_fill_seen:
                first_fill_seen = True
                if t != 0.0:
                    return f"first fill_results at t={t!r}, not 0", None
                continue
            fills.append(t)
        elif kind == "D":
            k = int(a[0])
            if k != step:
                return f"StepDone({k}) where step {step} was due (gap or repeat)", None
            if len(fills) != 1 or fills[0] != times[k + 1]:
                return f"step {k} completed with fills {fills!r}, expected exactly [{times[k + 1]!r}]", None
            fills, step = [], step + 1
            sweeps_since_anchor = 0
        elif kind == "W":
            k, t0, t1 = int(a[0]), b2f(a[1]), b2f(a[2])
            if k != step:
                return f"sweep for step {k} while step {step} is in progress", None
            if not (times[k] <= t0 <= times[k + 1] and times[k] <= t1 <= times[k + 1]):
                return f"sweep ({t0!r} -> {t1!r}) leaves step {k} = [{times[k]!r}, {times[k + 1]!r}]", None
            # C18Term.search_closes: opening sweep + at most K + 1 further sweeps until the jump, K from C19Term
            sweeps_since_anchor += 1
            nb = iter_bound(times[k], times[k + 1], 1.0, 1.0)
            if nb is not None and sweeps_since_anchor > nb[0] + 2:
                return (f"root search in step {k} = [{times[k]!r}, {times[k + 1]!r}] still open after {sweeps_since_anchor} sweeps; "
                        f"C18Term.search_closes bounds it by K + 2 = {nb[0] + 2} (m={nb[1]}, n={nb[2]}, {nb[3]})"), None
        elif kind == "J":
            t = b2f(a[0])
            if not (times[step] <= t <= times[step + 1]):
                return f"jump at {t!r} outside step {step}", None
            sweeps_since_anchor = 0
    for (t, a, b, fa, fb) in getattr(tr, "jump_info", []):
        if not (abs(b - a) < 1 and fa * fb <= 0 and (t == a or t == b)):
            return f"jump at {t!r} not at an end of a converged sign-change bracket a={a!r} b={b!r} fa={fa!r} fb={fb!r}", None
    for (t, ok, near) in getattr(tr, "jump_clause", []):
        if not ok:
            return (f"jump applied at t={t!r} but no two evaluated points within 1 ns of each other bracket t with a sign change of "
                    f"norm^2 - threshold; evaluated (time, norm^2 - threshold) nearest to t: {near!r}"), None
    if any(getattr(tr, "done_open", [])):
        return "a time step completed while a root search was open", None
    if status == "done" and step != len(times) - 1:
        return f"run reported finished after {step} of {len(times) - 1} steps", None
    if status == "nonterm":
        return "run did not terminate within the progress budget", None
    if status.startswith("err:"):
        tag = status[4:]
        if tag == "brentInit":
            g = getattr(tr, "prev_gap", None)
            if g == 0.0:
                return ("BrentsRootFinder constructor assert: the gap was exactly 0 when the search was opened "
                        "(f_start * f_end < 0 fails)"), KNOWN_CLASS
            return f"BrentsRootFinder constructor assert with previous gap {g!r} != 0", None
        if tag == "zeroDiv" and tape_driven:
            return None   # modelled: two exact zero ordinates / degenerate IQI under an adversarial tape
        return f"real code raised {status}", None
    return None


def _hooks(tr):
    """extra observation hooks for the oracle (kept apart from the correspondence tracer)"""
    import emu_mps.mps_backend_impl as mbi
    from unittest import mock
    NB = mbi.NoisyMPSBackendImpl
    o_jump, o_tsc, o_sc = NB.do_random_quantum_jump, mbi.MPSBackendImpl.timestep_complete, NB.sweep_complete
    o_sjt = NB.set_jump_threshold
    tr.evals, tr.jump_clause = [], []

    def w_jump(self):
        rf = self.root_finder
        tr.jump_info.append((self.current_time, rf.a, rf.b, rf.fa, rf.fb))
        # the property clause itself, on what the back-end actually evaluated since the threshold was drawn:
        # two points within 1 ns of each other, one on each side of t (or at t), whose SQUARED-norm gaps differ in sign
        t = self.current_time
        pts = tr.evals
        ok = any(p[0] <= t <= q[0] and q[0] - p[0] < 1 and p[1] * q[1] <= 0 for p in pts for q in pts)
        near = sorted(pts, key=lambda p: abs(p[0] - t))[:6]
        tr.jump_clause.append((t, ok, sorted(near)))
        return o_jump(self)

    def w_sjt(self, bound):
        r = o_sjt(self, bound)
        # a new threshold: the trajectory restarts here; first evaluated point = (now, norm^2 - new threshold)
        tr.evals = [(self.current_time, self.state.norm().item() ** 2 - self.jump_threshold)]
        return r

    def w_tsc(self):
        tr.done_open.append(getattr(self, "root_finder", None) is not None)
        return o_tsc(self)

    def w_sc(self):
        tr.prev_gap = self.norm_gap_before_jump
        # the state has just been evolved to target_time: record what its squared norm is there, independently of
        # what the code stores or feeds to the root finder
        tr.evals.append((self.target_time, self.state.norm().item() ** 2 - self.jump_threshold))
        return o_sc(self)
    return [mock.patch.object(NB, "do_random_quantum_jump", w_jump),
            mock.patch.object(NB, "set_jump_threshold", w_sjt),
            mock.patch.object(mbi.MPSBackendImpl, "timestep_complete", w_tsc),
            mock.patch.object(NB, "sweep_complete", w_sc)]


def run_real_tape_observed(n, times, tape, tracer=None):
    """`run_real_tape` with the oracle's hooks installed underneath the tracer's."""
    import contextlib
    tr0 = type("T", (), {})()
    tr0.jump_info, tr0.done_open, tr0.prev_gap = [], [], None
    with contextlib.ExitStack() as st:
        for p in _hooks(tr0):
            st.enter_context(p)
        status, recs, tr = run_real_tape(n, times, tape, tracer=tracer)
    tr.jump_info, tr.done_open, tr.prev_gap = tr0.jump_info, tr0.done_open, tr0.prev_gap
    tr.jump_clause = tr0.jump_clause
    return status, recs, tr


# ------------------------------------------------------------------ single sweep_complete from arbitrary states
def gen_nsc(rng):
    n = rng.choice([2, 3])
    times = [0.0, 8.0, 16.0, 24.0, 32.0]
    step = rng.randrange(4)
    lo, hi = times[step], times[step + 1]
    lat = lambda: lo + rng.randint(0, 16) / 2
    thr, gap = rng.choice(LAT), rng.choice([-0.5, -0.125, 0.0, 0.125, 0.5, rng.uniform(-1, 1)])
    cur, tgt = lat(), lat()
    rf = None
    if rng.random() < 0.65:
        w = rng.choice([0.25, 0.5, 1.0, 2.0, 4.0, -1.0, -2.0, -0.5])
        b = lat()
        a = b + w
        c = b + rng.randint(-8, 8) / 4 * w
        d = c + rng.randint(-8, 8) / 4 * w
        fa, fb, fc = (rng.choice([-1, 1]) * rng.choice([0.0, 0.125, 0.25, 0.5, 1.0, rng.random()]) for _ in range(3))
        rf = dict(a=a, b=b, fa=fa, fb=fb, c=c, d=d, fc=fc, bisection=rng.random() < 0.5)
    env = (rng.choice([math.sqrt(x) for x in LAT] + [rng.uniform(0, 1.1)]), rng.choice(LAT + [rng.random()]),
           rng.choice(POST), rng.randrange(8))
    return dict(n=n, times=times, step=step, cur=cur, tgt=tgt, thr=thr, gap=gap, rf=rf, env=env, cfg_dt=rng.choice(CFG_DTS))


def impl_nsc(case):
    from emu_base.math.brents_root_finding import BrentsRootFinder
    tr = Tracer(env_tape=[(1.0, 0.5, 1.0, 0), case["env"]], stub_evolve=True)
    with traced(tr):
        set_cfg_dt(case.get("cfg_dt", 10.0))
        impl = make_noisy_impl(case["n"], case["times"], ev_times=(1.0,))
        set_cfg_dt(10.0)
        impl.init()
        impl.current_time, impl.target_time, impl._timestep_index = case["cur"], case["tgt"], case["step"]
        impl.jump_threshold, impl.norm_gap_before_jump = case["thr"], case["gap"]
        if case["rf"] is None:
            impl.root_finder = None
        else:
            rf = BrentsRootFinder.__new__(BrentsRootFinder)
            rf.epsilon = 1
            for k, v in case["rf"].items():
                setattr(rf, k, v)
            rf.current_guess, rf.next_abscissa = rf.b, case["tgt"]
            impl.root_finder = rf
        mark = len(tr.recs)
        try:
            impl.sweep_complete()
        except Exception as e:
            return "err:" + classify_exception(e)
        r = impl.root_finder
        rfs = "n" if r is None else ":".join([f2b(r.a), f2b(r.b), f2b(r.fa), f2b(r.fb), f2b(r.c), f2b(r.d), f2b(r.fc),
                                              "1" if r.bisection else "0"])
        recs = " ".join(tr.recs[mark:]) or "-"
        return (f"ok {f2b(impl.current_time)} {f2b(impl.target_time)} {impl._timestep_index} {f2b(impl.jump_threshold)} "
                f"{f2b(impl.norm_gap_before_jump)} {rfs} {tr.snap().replace(',', ' ')} | {recs}")


def nsc_line(case):
    rf = case["rf"]
    rfs = "n" if rf is None else ":".join([f2b(rf["a"]), f2b(rf["b"]), f2b(rf["fa"]), f2b(rf["fb"]), f2b(rf["c"]),
                                           f2b(rf["d"]), f2b(rf["fc"]), "1" if rf["bisection"] else "0"])
    a, u, p, _ = case["env"]
    n = case["n"]
    return (f"stepper.nsc {n} {len(case['times']) - 1} {','.join(f2b(t) for t in case['times'])} 1 0 {case['step']} 1 {n - 1} 0 "
            f"{f2b(case['cur'])} {f2b(case['tgt'])} {rfs} {f2b(case['thr'])} {f2b(case['gap'])} "
            f"{f2b(a ** 2)}:{f2b(u)}:{f2b(p ** 2)}")


# ------------------------------------------------------------------ real physics runs
def physics_run(seed, n, times, omega, gamma):
    """Real NoisyMPSBackendImpl with the real local kernels and seeded jumps; returns (status, recs, tracer, results)."""
    import torch
    from pulser.backend import Occupation
    nsteps = len(times) - 1
    ops = [math.sqrt(gamma) * torch.tensor([[0.0, 1.0], [0.0, 0.0]], dtype=torch.complex128),
           math.sqrt(gamma / 2) * torch.tensor([[1.0, 0.0], [0.0, -1.0]], dtype=torch.complex128)]
    T = times[-1]
    ev = sorted({0.0, 1.0} | {times[i] / T for i in range(0, nsteps + 1, 2)})
    obs = Occupation(evaluation_times=ev)
    tr = Tracer(env_tape=None, stub_evolve=False)
    import contextlib
    tr0 = type("T", (), {})()
    tr0.jump_info, tr0.done_open, tr0.prev_gap = [], [], None
    _random.seed(seed)
    torch.manual_seed(seed)
    status, impl = None, None
    with contextlib.ExitStack() as st:
        for p in _hooks(tr0):
            st.enter_context(p)
        st.enter_context(traced(tr))
        try:
            impl = make_noisy_impl(n, times, observables=[obs], omega=omega, ops=ops)
            impl.init()
            k = 0
            while not impl.is_finished():
                impl.progress()
                k += 1
                if k > 200 * nsteps * n + 2000:
                    status = "nonterm"
                    break
            status = status or "done"
        except Exception as e:
            status = "err:" + classify_exception(e)
            tr.exc = e
    tr.jump_info, tr.done_open, tr.prev_gap = tr0.jump_info, tr0.done_open, tr0.prev_gap
    tr.jump_clause = tr0.jump_clause
    msg = None
    if status == "done":
        got = impl.results.get_result_times("occupation")
        if [round(x, 12) for x in got] != [round(x, 12) for x in ev]:
            msg = f"occupation recorded at {got!r}, due at {ev!r}"
    return status, tr.recs, tr, msg


# ------------------------------------------------------------------ check
def _ser(n, times, tape):
    return {"n": n, "times": times, "tape": [list(t) for t in tape], "cfg_dt": CFG_DT[0], "pickle_at": sorted(PICKLE_AT[0])}


def tape_cases(rep, rng, count, drv_lines, pending, sizes=(2, 3)):
    for _ in range(count):
        n = rng.choice(sizes)
        times = gen_times(rng)
        mode, tape = gen_tape(rng, rng.randint(2, 40))
        set_cfg_dt(rng.choice(CFG_DTS))
        if rng.random() < 0.3:      # pickle round trips at arbitrary progress() boundaries, incl. in the middle of a jump search
            set_pickle_at(rng.sample(range(0, 30), rng.randint(1, 3)))
        one_tape(rep, n, times, tape, drv_lines, pending, mode)
        set_pickle_at(())
    set_cfg_dt(10.0)


def gen_fn(rng):
    dt = rng.choice([10.0, 10.0, 20.0, 5.0, 37.0, 100.0, 1.0, 300.0, 1000.0])
    ns = rng.randint(2, 6)
    times = [k * dt for k in range(ns + 1)]
    gamma = rng.choice([0.1, 0.5, 1.0, 2.0, rng.uniform(0.05, 2.0)]) / dt      # a crossing every few steps
    us = [rng.uniform(0.15, 0.9) for _ in range(rng.randint(1, 4))]
    # config.dt: mostly the grid step (how the back-end is really used), otherwise independent of it
    cfg_dt = dt if (dt in CFG_DTS and rng.random() < 0.6) else rng.choice(CFG_DTS)
    pk = sorted(rng.sample(range(0, 40), rng.randint(1, 4))) if rng.random() < 0.4 else []
    return dict(fn=True, n=rng.choice([2, 3]), times=times, gamma=gamma, us=us, cfg_dt=cfg_dt, pickle_at=pk)


def one_fn_tape(rep, d, drv_lines, pending):
    """a tape that is a function of time (so that norm - threshold and norm^2 - threshold have different zeros)"""
    ft = FnTracer(d["gamma"], d["us"])
    set_cfg_dt(d.get("cfg_dt", 10.0))
    set_pickle_at(d.get("pickle_at", ()))
    status, recs, tr = run_real_tape_observed(d["n"], d["times"], None, tracer=ft)
    set_cfg_dt(10.0)
    set_pickle_at(())
    rep.hist("pickle_round_trips", getattr(tr, "pickled", 0))
    tape = list(ft.used)
    msg = oracle(d["times"], recs if not status.startswith("err") else tr.recs, tr, status)
    if msg:
        rep.fail(msg[0], dict(d, tape=[list(t) for t in tape]), klass=msg[1])
    if status == "tapeOut":
        tape = tape  # the model stops at the same place: it is given exactly the entries that were consumed
    drv_lines.append(model_line(d["n"], d["times"], tape))
    pending.append((d["n"], d["times"], tape, status + " " + (" ".join(recs) or "-"), "function-of-time", len(tr.jump_info), tr.sweeps))
    rep.hist("tape_mode", "function-of-time")
    rep.hist("status", status)
    rep.hist("jumps_per_run", min(len(tr.jump_info), 10))
    rep.hist("sites", d["n"])


def one_tape(rep, n, times, tape, drv_lines, pending, mode):
    try:
        status, recs, tr = run_real_tape_observed(n, times, tape)
    except Exception as e:  # harness-level failure inside the hooks would surface here
        raise
    msg = oracle(times, recs if not status.startswith("err") else tr.recs, tr, status)
    if msg:
        rep.fail(msg[0], _ser(n, times, tape), klass=msg[1])
    drv_lines.append(model_line(n, times, tape))
    pending.append((n, times, tape, status + " " + (" ".join(recs) or "-"), mode, len(tr.jump_info), tr.sweeps))
    rep.hist("tape_mode", mode)
    rep.hist("status", status)
    rep.hist("jumps_per_run", min(len(tr.jump_info), 10))
    rep.hist("sites", n)
    rep.hist("config_dt", CFG_DT[0])
    rep.hist("pickle_round_trips", getattr(tr, "pickled", 0))


def check(rep: Report, tier: str, seed: int) -> None:
    rep.rule = ("case = (sites 2-4, grid with steps 0.25-1000 ns, MPSConfig.dt in {1,5,10,20,37,100} drawn independently, environment tape [(norm, uniform draw, post-jump norm, jump choice)]) from one "
                "PRNG; tape modes: 1/8-lattice (exact ties, gap==0), random, decaying norm, collapsing norm (Zeno), "
                "gap-zero histories, norm^2 = exp(-gamma (t - t_last_jump)) as a function of time; grids: uniform, sub-ns steps, ragged, first step long; plus exhaustive "
                "above/below-threshold crossing patterns (length <= 8 quick, <= 12 thorough); plus single sweep_complete "
                "calls from arbitrary lattice states. non-trivial = at least one root search; distinct = distinct "
                "(grid, tape) bit patterns")
    rep.assumptions = [
        "liveness hypothesis (named in the theorem): finitely many jumps; unconditional termination is refuted in Lean (zeno)",
        "search length: bounded for every step incl. the first (C18Term.search_closes with C19Term.within_pos_bracket / "
        "within_nonneg_bracket, exact arithmetic); also validated by running the real class to convergence in every tape/physics run",
        "environment contract: random.uniform draws in [0,1]; post-jump norm passes the code's own isclose assert",
        "binary64 rounding is outside the theorems (same definitions over an ordered field); the correspondence is bit-exact",
        "local kernels (_evolve etc.) abstracted to events: C18 is about the stepping logic only",
        "pickle round trips (what autosave+resume does) are inserted at arbitrary progress() boundaries in ~30-40 % of the tape runs; the model "
        "has no such event (identity), so the streams must still be equal; the file handling of autosave/resume itself is C26/C27's subject",
        "the property's '1 ns root tolerance' is a constant: the model's tolerance and the oracle's clauses use 1 ns whatever MPSConfig.dt is",
    ]
    compat.install()
    lean_stage(rep, PROP_MODULE, AUDIT, thorough=(tier == "thorough"))
    ob, cmd = list(rep.obligations), rep.checker_cmd
    lean_stage(rep, TERM_MODULE, TERM_AUDIT, thorough=(tier == "thorough"))
    rep.obligations = ob + [o for o in rep.obligations if o not in ob]
    rep.checker_cmd = cmd + " ; " + rep.checker_cmd
    rng = seeded(seed * 7919 + 18)
    quick = tier == "quick"
    lines, pending = [], []

    # 0. the D10 witness proved in Lean, replayed on the real code (KNOWN-FINDING when it still asserts)
    w = D10_WITNESS
    one_tape(rep, w["n"], w["times"], w["tape"], lines, pending, "d10-witness")

    # 1. random adversarial tapes
    tape_cases(rep, rng, 700 if quick else 12000, lines, pending, sizes=(2, 3) if quick else (2, 3, 4))

    # 1b. tapes that are a function of time: norm^2(t) = exp(-gamma (t - t_last_jump))
    for _ in range(150 if quick else 3000):
        one_fn_tape(rep, gen_fn(rng), lines, pending)

    # 2. exhaustive crossing patterns: every above/below-threshold word, two grids, 2 sites
    L = 8 if quick else 12
    for grid in ([0.0, 8.0, 16.0, 24.0], [0.0, 0.5, 1.0]):
        for ln in range(1, (L if grid[1] > 1 else min(L, 10)) + 1):
            words = itertools.product((0.9, 0.3), repeat=ln)
            if quick and ln > 6:
                words = [tuple(rng.choice((0.9, 0.3)) for _ in range(ln)) for _ in range(40)]
            for wd in words:
                set_cfg_dt(rng.choice(CFG_DTS))
                tape = [(1.0, 0.5, 1.0, 0)] + [(x, 0.5, 1.0, 0) for x in wd]
                one_tape(rep, 2, grid, tape, lines, pending, "exhaustive")

    # 3. single sweep_complete calls from arbitrary states (same driver batch)
    cases = [gen_nsc(rng) for _ in range(400 if quick else 8000)]
    ios = [impl_nsc(c) for c in cases]
    drv = Driver()
    try:
        allout = drv.batch(lines + [nsc_line(c) for c in cases])
        out, mos = allout[:len(lines)], allout[len(lines):]
    except LeanError as e:
        rep.broke("driver: " + str(e)[-800:])
        out, mos = [None] * len(lines), ios
    dis = 0
    for (n, times, tape, io, mode, nj, nsw), mo in zip(pending, out):
        key = (n, tuple(f2b(t) for t in times), tuple((f2b(a), f2b(u), f2b(p)) for a, u, p, _ in tape))
        rep.case(key=key, nontrivial=nj > 0 or "brentInit" in io,
                 sample={"sites": n, "times": times, "mode": mode, "sweeps": nsw, "jumps": nj, "status": io.split()[0]})
        if mo is not None and mo != io:
            dis += 1
            if dis <= 4:
                a, b = mo.split(), io.split()
                i = next((i for i, (x, y) in enumerate(zip(a, b)) if x != y), min(len(a), len(b)))
                rep.broke("correspondence Model.Stepper(noisy) vs NoisyMPSBackendImpl: " + json.dumps(_ser(n, times, tape))[:500]
                          + f" first difference at record {i}: model={a[i:i + 2]} impl={b[i:i + 2]}")
    rep.extra["tape_disagreements"] = dis

    bad = 0
    for c, io, mo in zip(cases, ios, mos):
        rep.case(key=nsc_line(c), nontrivial=True)
        rep.hist("nsc_outcome", io.split()[0] if io.startswith("err") else ("jump" if " J," in io else ("done" if " D," in io else "search")))
        if io != mo:
            bad += 1
            if bad <= 3:
                rep.broke(f"state correspondence sweep_complete: case={json.dumps(c)[:400]} model={mo[:160]} impl={io[:160]}")
    rep.extra["nsc_disagreements"] = bad

    # 4. real physics runs (real kernels, seeded jumps): the clauses on the real trace, termination, read-out times
    nphys = 6 if quick else 60
    for i in range(nphys):
        n = rng.choice([2, 3]) if quick else rng.choice([2, 3, 4])
        dt = rng.choice([10.0, 20.0, 7.0, 37.0, 100.0, 5.0])
        set_cfg_dt(dt if dt in CFG_DTS else rng.choice(CFG_DTS))   # physics runs: config.dt = the grid step where admissible
        rep.hist("physics_config_dt", CFG_DT[0])
        ns = rng.randint(3, 8)
        times = [k * dt for k in range(ns + 1)]
        gamma = rng.choice([5.0, 20.0, 60.0]) * min(1.0, 20.0 / dt)
        sd = rng.randrange(10 ** 6)
        omega = rng.choice([0.0, 6.0, 12.0])
        status, recs, tr, omsg = physics_run(sd, n, times, omega=omega, gamma=gamma)
        rep.case(key=("phys", sd, n, ns, dt, gamma), nontrivial=len(tr.jump_info) > 0,
                 sample={"physics": True, "sites": n, "steps": ns, "dt": dt, "gamma": gamma, "jumps": len(tr.jump_info)})
        rep.hist("physics_jumps", min(len(tr.jump_info), 10))
        msg = oracle(times, recs, tr, status, tape_driven=False) or ((omsg, None) if omsg else None)
        if msg:
            rep.fail("physics run: " + msg[0], {"physics": True, "seed": sd, "n": n, "times": times, "gamma": gamma, "omega": omega, "cfg_dt": CFG_DT[0]}, klass=msg[1])
    set_cfg_dt(10.0)

    if rep.broken and not rep.unknown_failing():
        search(rep, seed, 3000 if quick else 40000)


def search(rep: Report, seed: int, n: int) -> None:
    """Failing-input search on the real code only: many more adversarial tapes (longer, 2-4 sites) judged by the
    property oracle; the first hit is recorded with its tape."""
    rng = seeded(seed * 104729 + 18)
    for _ in range(n // 4):
        d = gen_fn(rng)
        set_cfg_dt(d.get("cfg_dt", 10.0))
        status, recs, tr = run_real_tape_observed(d["n"], d["times"], None, tracer=FnTracer(d["gamma"], d["us"]))
        set_cfg_dt(10.0)
        msg = oracle(d["times"], recs if not status.startswith("err") else tr.recs, tr, status)
        if msg and msg[1] != KNOWN_CLASS:
            rep.fail(msg[0], d, klass=msg[1])
            return
    for _ in range(n):
        sites = rng.choice([2, 3, 4])
        times = gen_times(rng)
        mode, tape = gen_tape(rng, rng.randint(2, 80))
        status, recs, tr = run_real_tape_observed(sites, times, tape)
        msg = oracle(times, recs if not status.startswith("err") else tr.recs, tr, status)
        if msg and msg[1] != KNOWN_CLASS:
            rep.fail(msg[0], _ser(sites, times, tape), klass=msg[1])
            return
    rep.extra["search_cases"] = n


def replay(rep: Report, path: str) -> int:
    compat.install()
    data = json.load(open(path))
    bad = 0
    for f in data.get("failing_inputs", []):
        d = f["data"]
        set_cfg_dt(d.get("cfg_dt", 10.0))
        set_pickle_at(d.get("pickle_at", ()))
        if d.get("physics"):
            status, recs, tr, omsg = physics_run(d["seed"], d["n"], d["times"], omega=d.get("omega", 6.0), gamma=d["gamma"])
            msg = oracle(d["times"], recs, tr, status, tape_driven=False) or ((omsg, None) if omsg else None)
        elif d.get("fn"):
            status, recs, tr = run_real_tape_observed(d["n"], d["times"], None, tracer=FnTracer(d["gamma"], d["us"]))
            msg = oracle(d["times"], recs if not status.startswith("err") else tr.recs, tr, status)
        else:
            tape = [tuple(t) for t in d["tape"]]
            status, recs, tr = run_real_tape_observed(d["n"], d["times"], tape)
            msg = oracle(d["times"], recs if not status.startswith("err") else tr.recs, tr, status)
        if msg and msg[1] == KNOWN_CLASS:
            print("replay: (known finding D10 on this input, not counted)", msg[0][:80])
            continue
        print("replay:", (msg[0] if msg else "property holds on this input now"))
        bad += bool(msg)
    return 1 if bad else 0
