"""C19 — Brent root finding (emu_base/math/brents_root_finding.py).

Lean: EmuVerif.Props.C19 (bracketing, sign change kept, protocol equivalence, guarded
termination). Correspondence: bit-exact abscissa sequences of the real `BrentsRootFinder`
against `Model.Brent` run at binary64, tape driven. Search: the property itself as an
executable oracle on the real class.
"""
from __future__ import annotations

import json
import math

from harness.common import Driver, LeanError, Report, f2b, b2f, lst, unlst, lean_stage, seeded

REGISTRY = dict(
    text=("Lean 4 theorems over every linear ordered field and every ordinate sequence: all queried abscissae lie in "
          "[start,end]; the bracket keeps f(a)f(b)<=0 and never widens; on return |b-a|<tol with a sign change in the "
          "initial interval; the one-at-a-time protocol equals the find_root_brents loop; termination with an explicit "
          "bound whenever bisection is forced (0<start, end-start<2*eps*start: the solver's eps=1 calls away from 0). "
          "PARTIAL: unguarded termination (TerminatesAlways) is stated, not proved (and refuted in C19Term). Model tied to the code by bit-exact "
          "binary64 correspondence (whole runs and single steps from arbitrary states). "
          "Props/C19Term.lean adds: for 0<start, eps>=1/2, end<=start*(2eps)^m, end-start<tol*2^n every ordinate sequence "
          "converges within n(2m+2) iterations (interpolated steps allowed; TerminatesAlways holds for 0<start, eps>1/2 in "
          "Archimedean fields); proved refutations: for eps=1/4 on [10,1000] no bound in (bracket,eps,tol) exists "
          "(no_uniform_bound_eps_quarter, every N), and with 0 inside the bracket a smooth increasing f makes the loop run for "
          "ever at eps=1 (creeping_never_terminates), so TerminatesAlways is FALSE (terminatesAlways_false); the bound is "
          "same with 0<=start (brackets touching 0): end<=(tol/2)(2eps)^m gives n(2m+5) iterations (within_nonneg_bracket, "
          "terminates_nonneg); the bounds are checked on every real run they apply to (incl. adversarial overshoot/greedy "
          "tapes). Still open: termination without a uniform bound for eps<1/2."),
    note=("Trusted: Lean kernel + propext/Classical.choice/Quot.sound; Mathlib; hand-written Model.Brent tied by "
          "correspondence only; binary64 rounding not in the theorems; termination outside the forced-bisection guard is "
          "validated by running the real class, not proved."),
    technique="Lean 4 proof (induction over the ordinate tape) + bit-exact model/implementation correspondence",
    design_ref="DESIGN.md §5 C19",
)

PROP_MODULE = "EmuVerif.Props.C19"
AUDIT = "Audit/C19.lean"
TERM_MODULE = "EmuVerif.Props.C19Term"
TERM_AUDIT = "Audit/C19Term.lean"
MAX_ITERS = 400
# Rounding allowance of the iteration-count oracle. The theorem (`within_pos_bracket`) is about exact
# arithmetic; in binary64 each of the <= 400 iterations perturbs the bracket ends by a relative 2^-52, so the
# width after k halvings and the ratio end/start are those of an exact run on a bracket perturbed by less than
# 400 * 2^-51 < 2^-42. The exponents m, n are therefore computed for ratio and width enlarged by (1 + 2^-30).
BOUND_SLACK = 2.0 ** -30


def _least_pow(base, factor, target, cap):
    """least k with target <= base * factor^k (None above cap)"""
    k, p = 0, base
    while p < target:
        p *= factor
        k += 1
        if k > cap:
            return None
    return k


def iter_bound(start, stop, eps, tol):
    """(N, m, n, which): the smaller of the two proved iteration bounds (Props/C19Term.lean), both with
    BOUND_SLACK, n least with stop - start < tol 2^n:
      pos    – `within_pos_bracket`:    0 < start,  m least with stop <= start (2 eps)^m,      N = n(2m+2) = iterBound m n
      nonneg – `within_nonneg_bracket`: 0 <= start, m least with stop <= (tol/2) (2 eps)^m,    N = n(2m+5) = iterBound0 m n
    None when neither applies (start < 0, 2 eps <= 1, or m absurdly large because 2 eps is barely above 1)."""
    if any(v != v or abs(v) == float("inf") for v in (start, stop, eps, tol)):
        return None
    if not (start >= 0 and stop >= start and 2 * eps > 1 and tol > 0):
        return None
    width, n, q = (stop - start) * (1 + BOUND_SLACK), 0, tol
    while not width < q:
        q *= 2
        n += 1
        if n > 2200:
            return None
    cands = []
    if start > 0:
        m = _least_pow(1.0, 2 * eps, stop / start * (1 + BOUND_SLACK), 2000)
        if m is not None:
            cands.append((n * (2 * m + 2), m, n, "pos"))
    m = _least_pow(tol / 2, 2 * eps, stop * (1 + BOUND_SLACK), 2000)
    if m is not None:
        cands.append((n * (2 * m + 5), m, n, "nonneg"))
    return min(cands) if cands else None


# ------------------------------------------------------------------ generators
def _opp(x, y):
    """opposite signs, without forming a product (which underflows for tiny ordinates)"""
    return (x < 0 < y) or (y < 0 < x)


def _functions(rng):
    """(name, f) — smooth, discontinuous, flat and step functions with a sign change."""
    r = rng.uniform(-3, 3)
    k = rng.choice([1, 3, 5, 9])
    sc = 10 ** rng.uniform(-6, 6)
    return [
        ("poly", lambda x: sc * ((x - r) ** k)),
        ("cubic+", lambda x: sc * ((x - r) ** 3 + 0.3 * (x - r))),
        ("exp", lambda x: sc * (math.exp(min(x - r, 50.0)) - 1.0)),
        ("atan", lambda x: sc * math.atan(20 * (x - r))),
        ("step", lambda x: -sc if x <= r else sc * 1.5),
        ("flatstep", lambda x: -sc if x <= r else sc * (x - r) ** 9 + 1e-12),
        ("sqrtlike", lambda x: sc * math.copysign(abs(x - r) ** 0.5, x - r)),
        ("jumpy", lambda x: sc * ((x - r) + (0.5 if math.floor(7 * x) % 2 else -0.5) * 0.01 + (1 if x > r else -1))),
        # ordinates whose products underflow in binary64 (the sign test must compare signs, not a product)
        ("tinyjumpL", lambda x: 1.0 if x > r else -1e-170 * (2.0 + abs(x))),
        ("tinyjumpR", lambda x: -1.0 if x <= r else 1e-170 * (2.0 + abs(x))),
        ("tinyboth", lambda x: 1e-165 * (1.0 + abs(x)) if x > r else -1e-165 * (2.0 + abs(x))),
        ("highpoly", lambda x: (x - r) ** (10 * k + 1)),
        ("flatleft", lambda x: (x - r) if x > r else -((r - x) ** 3) * 1e-165),
    ]


def gen_case(rng, i):
    """One correspondence case: bracket, eps, tol and an ordinate source."""
    mode = rng.choice(["func", "func", "tape", "tape_signs", "tape_tiny", "solver", "reject", "posbound"])
    if mode == "posbound":
        return gen_posbound(rng)
    eps = rng.choice([1e-6, 1.0, 1e-3, 0.25, 1e-9])
    tol = rng.choice([1e-6, 1.0, 1e-3, 1e-9, 0.5])
    if mode == "solver":
        # what NoisyMPSBackendImpl does: eps=1, tol=1, bracket = [t_k, t_{k+1}] in ns
        eps, tol = 1.0, 1.0
        start = rng.choice([0.0, float(rng.randint(0, 5000)), rng.uniform(0, 3000)])
        stop = start + rng.choice([1.0, 2.0, 5.0, 10.0, 10.5, 37.0, 100.0, 1000.0])
        thr = rng.random()
        r = rng.uniform(start, stop)
        rate = 10 ** rng.uniform(-4, 0)
        # exponent clamped: exp(709.8) overflows (a harness OverflowError is not a finding about the class)
        f = lambda t, r=r, rate=rate: math.exp(min(-rate * (t - r), 700.0)) - 1.0
        return dict(mode=mode, start=start, stop=stop, eps=eps, tol=tol, f=f, fname="gap")
    if mode == "reject":
        start, stop = rng.uniform(-5, 5), rng.uniform(-5, 5)
        if rng.random() < 0.5 and start > stop:
            start, stop = stop, start
        fs, fe = rng.choice([(1.0, 2.0), (-1.0, -2.0), (0.0, 1.0), (1.0, -1.0), (-0.0, 3.0)])
        return dict(mode=mode, start=start, stop=stop, eps=eps, tol=tol, fs=fs, fe=fe, tape=[rng.uniform(-1, 1) for _ in range(5)])
    if mode == "func":
        name, f = rng.choice(_functions(rng))
        for _ in range(50):
            start = rng.uniform(-6, 6)
            stop = start + 10 ** rng.uniform(-3, 1.2)
            try:
                if _opp(f(start), f(stop)):
                    return dict(mode=mode, start=start, stop=stop, eps=eps, tol=tol, f=f, fname=name)
            except OverflowError:
                pass
        return gen_case(rng, i)
    # adversarial tapes: the ordinates are *not* a function of the abscissa
    start = rng.choice([0.0, rng.uniform(-10, 10), float(rng.randint(-3, 3))])
    stop = start + 10 ** rng.uniform(-2, 2)
    sgn = rng.choice([1.0, -1.0])
    fs, fe = -sgn * 10 ** rng.uniform(-8, 8), sgn * 10 ** rng.uniform(-8, 8)
    n = rng.randint(1, 60)
    if mode == "tape":
        tape = [rng.choice([-1.0, 1.0]) * 10 ** rng.uniform(-12, 12) for _ in range(n)]
    elif mode == "tape_tiny":
        # magnitudes down to the subnormal range: products of two ordinates underflow to +-0.0
        if rng.random() < 0.5:
            fs, fe = -sgn * 10 ** rng.uniform(-300, -150), sgn * 10 ** rng.uniform(-300, -150)
        tape = [rng.choice([-1.0, 1.0]) * 10 ** rng.choice([rng.uniform(-320, -150), rng.uniform(-320, -150), rng.uniform(-3, 3)])
                for _ in range(n)]
    else:
        # few distinct magnitudes, many ties, occasional exact zero
        mags = [10 ** rng.uniform(-3, 3) for _ in range(3)] + [1.0]
        tape = [rng.choice([-1.0, 1.0]) * rng.choice(mags) for _ in range(n)]
        if rng.random() < 0.3:
            tape[rng.randrange(n)] = 0.0
    return dict(mode=mode, start=start, stop=stop, eps=eps, tol=tol, fs=fs, fe=fe, tape=tape)


def gen_posbound(rng):
    """Brackets with 0 <= start and eps > 1/2 (where C19Term's iteration bounds apply) and ordinate tapes built
    to make the run as long as possible:
      overshoot – alternating signs, each ordinate R times the previous one in magnitude, all tiny (secant branch):
                  every new point replaces b and is swapped to a, so |c-d| stays of the order of the width and only
                  the `delta` clauses stop the run of interpolated steps (this is the tape of
                  `C19Term.overshoot_run_eps_quarter`, scaled to the binary64 range);
      greedy    – at every step the ordinate (among ~50 candidates) after which the next step is again an
                  interpolation and the bracket is widest, found on copies of the real object;
      random    – random signs and magnitudes relative to the stored ordinates."""
    for _ in range(200):
        eps = rng.choice([1.0, 1.0, 1.0, 0.75, 2.0, 0.51, 8.0])
        tol = rng.choice([1.0, 1.0, 0.5, 1e-3])
        start = rng.choice([10.0, 1.0, 0.0, 0.0, float(rng.randint(1, 200)), rng.uniform(0.01, 50)])
        stop = (start * rng.choice([3.0, 10.0, 100.0, 1 + 10 ** rng.uniform(-1, 2.5)]) if start > 0
                else rng.choice([10.0, 100.0, 1000.0, 10 ** rng.uniform(0, 3)]))
        nb = iter_bound(start, stop, eps, tol)
        if nb is not None and 1 <= nb[0] <= MAX_ITERS - 20:
            break
    N = nb[0]
    kind = rng.choice(["overshoot", "overshoot", "greedy", "greedy", "random"])
    sgn = rng.choice([1.0, -1.0])
    if kind == "overshoot":
        # products of consecutive ordinates must not underflow (`fa * ordinate < 0`): magnitudes in [2^-520, 1)
        q = max(1, min(10, 500 // (N + 4)))
        R, tiny = 2.0 ** q, 2.0 ** -520
        big_first = rng.random() < 0.5
        fs, fe = (sgn * R * tiny, -sgn * tiny) if big_first else (-sgn * tiny, sgn * R * tiny)
        fa0 = fs if big_first else fe
        tape = [fa0 * (-R) ** (k + 1) for k in range(N + 2)]
    elif kind == "random":
        fs, fe = sgn * 10 ** rng.uniform(-8, 0), -sgn * 10 ** rng.uniform(-8, 0)
        tape = [rng.choice([-1.0, 1.0]) * 10 ** rng.uniform(-9, 1) for _ in range(N + 2)]
    else:
        fs, fe = sgn * 2.0 ** -rng.randint(0, 500), -sgn * 2.0 ** -rng.randint(0, 500)
        tape = _greedy_tape(rng, start, stop, fs, fe, eps, tol, N + 2)
    return dict(mode="posbound", kind=kind, start=start, stop=stop, eps=eps, tol=tol, fs=fs, fe=fe, tape=tape)


def _greedy_tape(rng, start, stop, fs, fe, eps, tol, nmax):
    import copy
    from emu_base.math.brents_root_finding import BrentsRootFinder
    try:
        rf = BrentsRootFinder(start=start, end=stop, f_start=fs, f_end=fe, epsilon=eps)
    except AssertionError:
        return [1.0]
    tape = []
    factors = [2.0 ** -40, 2.0 ** -10, 2.0 ** -3, 0.5, 0.99, 1.0, 1.01, 2.0, 2.0 ** 6, 2.0 ** 10, 2.0 ** 40]
    for _ in range(nmax):
        if rf.is_converged(tol):
            break
        try:
            x = rf.get_next_abscissa()
        except ZeroDivisionError:
            break
        base = [abs(rf.fa), abs(rf.fb), abs(rf.fc)]
        cands = [s * b * f for s in (1.0, -1.0) for b in base for f in factors]
        cands += [rng.choice([-1.0, 1.0]) * rng.choice(base) * 2.0 ** rng.uniform(-30, 30) for _ in range(8)]
        cands = [y for y in cands if y == y and 2.0 ** -520 < abs(y) < 1e150]
        best, best_score = None, None
        if x != x:              # NaN abscissa (overflow in the interpolation): the tape generator stops here
            break
        for y in cands:
            r2 = copy.copy(rf)
            try:
                r2.provide_ordinate(x, y)
            except AssertionError:
                continue
            w = abs(r2.b - r2.a)
            try:
                r2.get_next_abscissa()
            except ZeroDivisionError:
                continue
            score = (not r2.bisection, w)
            if best_score is None or score > best_score:
                best, best_score = y, score
        y = best if best is not None else (rng.choice(cands) if cands else 1.0)
        try:
            rf.provide_ordinate(x, y)
        except AssertionError:
            break
        tape.append(y)
    return tape or [1.0]


# ------------------------------------------------------------------ real code
def run_impl(case):
    """Drive the real class; returns (status, xs, ys, final) where status is
    ok0/ok1 (tape exhausted unconverged / converged), zerodiv, reject."""
    from emu_base.math.brents_root_finding import BrentsRootFinder

    if "f" in case:
        fs, fe = case["f"](case["start"]), case["f"](case["stop"])
    else:
        fs, fe = case["fs"], case["fe"]
    case["fs"], case["fe"] = fs, fe
    try:
        rf = BrentsRootFinder(start=case["start"], end=case["stop"], f_start=fs, f_end=fe, epsilon=case["eps"])
    except AssertionError:
        return "reject", [], [], None
    xs, ys = [], []
    tape = case.get("tape")
    it = 0
    status = None
    while True:
        if rf.is_converged(case["tol"]):
            status = "1"
            break
        if tape is not None and it >= len(tape):
            status = "0"
            break
        if it >= MAX_ITERS:
            status = "0"
            break
        try:
            x = rf.get_next_abscissa()
        except ZeroDivisionError:
            status = "2"
            break
        y = tape[it] if tape is not None else case["f"](x)
        rf.provide_ordinate(x, y)
        xs.append(x)
        ys.append(y)
        it += 1
    return status, xs, ys, (rf.a, rf.b, rf.fa, rf.fb, rf.bisection)


def model_line(case, ys):
    return " ".join(["brent.tape", f2b(case["start"]), f2b(case["stop"]), f2b(case["fs"]), f2b(case["fe"]),
                     f2b(case["eps"]), f2b(case["tol"]), lst(f2b(y) for y in ys)])


def canon_impl(status, xs, fin):
    if status == "reject":
        return "reject"
    a, b, fa, fb, bis = fin
    return " ".join(["ok", lst(f2b(x) for x in xs), f2b(a), f2b(b), f2b(fa), f2b(fb), "1" if bis else "0", status])


# ------------------------------------------------------------------ state-level correspondence
def gen_state(rng):
    """An arbitrary (not necessarily reachable) solver state, built on a 1/16 lattice of the
    bracket width so that every `>=`/`<` of the five-clause test is hit *at equality* often."""
    w = rng.choice([1.0, -1.0, 2.0, -0.5, 3.0, -3.0, 0.75, rng.uniform(-4, 4) or 1.0])
    b = rng.choice([0.0, 1.0, -2.0, 0.125, rng.uniform(-5, 5), float(rng.randint(-40, 40)) / 8])
    a = b + w
    c = b + rng.randint(-40, 40) / 16 * w
    d = c + rng.randint(-40, 40) / 16 * w
    eps = rng.choice([1e-6, 1.0, 2.0 ** -5, 0.25, 1e-3, 0.0])
    if rng.random() < 0.6:
        k = rng.randint(-22, 22)          # secant step = k/16 of (a-b)
        fb, fa = float(-k), float(16 - k)
        fc = rng.choice([fa, fb])
    else:
        fa, fb, fc = (float(rng.choice([-1, 1]) * rng.randint(0, 9)) for _ in range(3))
        if rng.random() < 0.5:
            fa, fb, fc = fa * rng.uniform(0.5, 2), fb * rng.uniform(0.5, 2), fc * rng.uniform(0.5, 2)
    return dict(eps=eps, a=a, b=b, fa=fa, fb=fb, c=c, d=d, fc=fc, bisection=rng.random() < 0.5)


def impl_next(st):
    from emu_base.math.brents_root_finding import BrentsRootFinder
    rf = BrentsRootFinder.__new__(BrentsRootFinder)
    rf.epsilon = st["eps"]
    for k in ("a", "b", "fa", "fb", "c", "d", "fc", "bisection"):
        setattr(rf, k, st[k])
    rf.current_guess, rf.next_abscissa = rf.b, None
    try:
        x = rf.get_next_abscissa()
    except ZeroDivisionError:
        return "zerodiv", None
    return " ".join([f2b(x), "1" if rf.bisection else "0", f2b(rf.c), f2b(rf.d), f2b(rf.fc)]), x


def impl_provide(st, x, y):
    from emu_base.math.brents_root_finding import BrentsRootFinder
    rf = BrentsRootFinder.__new__(BrentsRootFinder)
    rf.a, rf.b, rf.fa, rf.fb, rf.next_abscissa = st["a"], st["b"], st["fa"], st["fb"], x
    rf.provide_ordinate(x, y)
    return " ".join(f2b(v) for v in (rf.a, rf.b, rf.fa, rf.fb))


def state_correspondence(rep: Report, rng, n: int) -> None:
    lines, outs, sts = [], [], []
    for _ in range(n):
        st = gen_state(rng)
        if any(v != v or abs(v) == float("inf") for v in (st["a"], st["c"], st["d"])):
            continue
        io, x = impl_next(st)
        lines.append(" ".join(["brent.next", f2b(st["eps"]), f2b(st["a"]), f2b(st["b"]), f2b(st["fa"]), f2b(st["fb"]),
                               f2b(st["c"]), f2b(st["d"]), f2b(st["fc"]), "1" if st["bisection"] else "0"]))
        outs.append(io)
        sts.append(st)
        rep.hist("step_outcome", "zerodiv" if io == "zerodiv" else ("bisect" if io.split()[1] == "1" else "interp"))
        y = rng.choice([0.0, -0.0, 1.0, -1.0, st["fa"], -st["fa"], st["fb"], -st["fb"], rng.uniform(-3, 3)])
        xx = rng.uniform(min(st["a"], st["b"]), max(st["a"], st["b"]))
        lines.append(" ".join(["brent.provide", f2b(st["a"]), f2b(st["b"]), f2b(st["fa"]), f2b(st["fb"]), f2b(xx), f2b(y)]))
        outs.append(impl_provide(st, xx, y))
        sts.append(dict(st, x=xx, y=y))
    try:
        mo = Driver().batch(lines)
    except LeanError as e:
        rep.broke("driver: " + str(e)[-800:])
        return
    bad = 0
    for l, m, o, st in zip(lines, mo, outs, sts):
        rep.case(key=l, nontrivial=True)
        if m != o and not ("nan" in (m + o)):
            # NaN payloads are not compared; everything else is bit-exact
            if any(b2f(t) != b2f(t) for t in (m + " " + o).split() if t.isdigit() and len(t) > 3):
                continue
            bad += 1
            if bad <= 3:
                rep.broke(f"state correspondence get_next_abscissa/provide_ordinate: state={json.dumps(st)} model={m} impl={o}")
    rep.extra["state_level_disagreements"] = bad
    rep.extra["state_level_cases"] = len(lines)


# ------------------------------------------------------------------ the loop function `find_root_brents`
def gen_loop_case(rng):
    """Calls of the public loop `find_root_brents` with a known location r of the (single) sign change,
    including slow cases (asymmetric plateaus on wide brackets with tiny tolerances: > 100 evaluations)."""
    kind = rng.choice(["step_asym", "step_asym", "poly", "atan", "step"])
    if kind == "step_asym":
        slow = rng.random() < 0.5     # wide bracket, tiny tolerance, tiny plateau: 100-250 evaluations
        width = 10 ** (rng.uniform(8, 12) if slow else rng.uniform(2, 9))
        start = 0.0 if slow else rng.choice([0.0, rng.uniform(-5, 5)])
        # slow cases: root close to the fine end of the float grid so that a tiny tolerance is resolvable there
        r = start + width * (10 ** -rng.uniform(2, 8) if slow else rng.uniform(0.05, 0.95))
        lo, hi = -1.0, 10 ** (rng.uniform(-12, -8) if slow else rng.uniform(-12, -6))
        if rng.random() < 0.5:
            lo, hi = -hi, 1.0
        f = lambda x, r=r, lo=lo, hi=hi: lo if x <= r else hi
        tol = 10 ** (rng.uniform(-7, -5) if slow else rng.uniform(-7, -2))
        # keep the tolerance resolvable in binary64 at the far end of the bracket (see finding F-C19-ulp below)
        tol = max(tol, 16 * math.ulp(abs(r)) if slow else 16 * math.ulp(max(abs(start), abs(start + width))))
        return dict(kind=kind, f=f, r=r, start=start, stop=start + width, tol=tol, eps=rng.choice([1e-6, 1e-9] if slow else [1e-6, 1e-9, 1.0]))
    r = rng.uniform(-3, 3)
    sc = 10 ** rng.uniform(-3, 3)
    f = {"poly": lambda x: sc * (x - r) ** rng_k, "atan": lambda x: sc * math.atan(20 * (x - r)),
         "step": lambda x: -sc if x <= r else 1.5 * sc}[kind]
    rng_k = rng.choice([1, 3, 5])
    start = r - 10 ** rng.uniform(-2, 1)
    stop = r + 10 ** rng.uniform(-2, 1)
    return dict(kind=kind, f=f, r=r, start=start, stop=stop, tol=10 ** rng.uniform(-9, -2), eps=rng.choice([1e-6, 1e-3, 1.0]))


ULP_WITNESS = dict(kind="step_asym", r=279653027068.8003, start=0.0, stop=305927824863.2702,
                   tol=4.2393837957337557e-07, eps=1e-06, lo=-1.0, hi=1e-9)


def ulp_finding(rep: Report) -> None:
    """Known finding F-C19-ulp: `find_root_brents` never terminates when the tolerance is below the binary64 spacing at
    the root (|b-a| < tol can then never become true): witness replayed with an evaluation cap."""
    from emu_base.math.brents_root_finding import find_root_brents
    w = ULP_WITNESS
    n = [0]

    class Cap(Exception):
        pass

    def f(x):
        n[0] += 1
        if n[0] > 3000:
            raise Cap()
        return w["lo"] if x <= w["r"] else w["hi"]
    try:
        find_root_brents(f, start=w["start"], end=w["stop"], tolerance=w["tol"], epsilon=w["eps"])
        rep.extra["ulp_witness"] = f"terminated after {n[0]} evaluations"
    except Cap:
        rep.extra["ulp_witness"] = "no termination within 3000 evaluations"
        rep.fail("find_root_brents does not terminate: tolerance 4.2e-7 is below the binary64 spacing 6.1e-5 at the root 2.8e11, "
                 "so |b-a| < tolerance can never hold", dict(w), klass="C19-tolerance-below-float-spacing")


def loop_level(rep: Report, rng, n: int) -> None:
    """`find_root_brents(f, …)` against the model's loop: the ordinates the real call obtained from f are the tape;
    the model must be converged exactly when the real function returned, at the value it returned; and the returned
    point must be within tol of the sign change (the statement of C19 for the public function)."""
    from emu_base.math.brents_root_finding import find_root_brents
    lines, meta = [], []
    for _ in range(n):
        c = gen_loop_case(rng)
        calls = []

        def f(x, c=c, calls=calls):
            y = c["f"](x)
            calls.append((x, y))
            if len(calls) > 5000:
                raise RuntimeError("runaway")
            return y
        give_ends = rng.random() < 0.5
        try:
            kw = dict(start=c["start"], end=c["stop"], tolerance=c["tol"], epsilon=c["eps"])
            if give_ends:
                kw.update(f_start=c["f"](c["start"]), f_end=c["f"](c["stop"]))
            ret = find_root_brents(f, **kw)
        except (AssertionError, ZeroDivisionError):
            continue
        except Exception as e:
            rep.fail(f"find_root_brents raised {type(e).__name__}: {e}", {k: v for k, v in c.items() if k != "f"})
            continue
        ends = 0 if give_ends else 2
        ys = [y for _, y in calls[ends:]]
        xs = [x for x, _ in calls[ends:]]
        data = dict(kind=c["kind"], r=c["r"], start=c["start"], stop=c["stop"], tol=c["tol"], eps=c["eps"],
                    returned=ret, n_evals=len(ys), lo_hi=[c["f"](c["start"]), c["f"](c["stop"])])
        rep.hist("loop_evals_bucket", min(len(ys) // 25 * 25, 300))
        if not (abs(ret - c["r"]) <= c["tol"] * (1 + 1e-9) + 1e-12 * max(1.0, abs(c["r"]))):
            rep.fail(f"find_root_brents returned {ret!r}, {abs(ret - c['r']):.3g} away from the sign change at {c['r']!r} "
                     f"(tolerance {c['tol']!r}) after {len(ys)} evaluations", data)
        if any(not (c["start"] <= x <= c["stop"]) for x in xs):
            rep.fail("find_root_brents evaluated f outside the bracket", data)
        lines.append(" ".join(["brent.tape", f2b(c["start"]), f2b(c["stop"]), f2b(c["f"](c["start"])), f2b(c["f"](c["stop"])),
                               f2b(c["eps"]), f2b(c["tol"]), lst(f2b(y) for y in ys)]))
        meta.append((data, xs, ret))
    try:
        out = Driver().batch(lines)
    except LeanError as e:
        rep.broke("driver: " + str(e)[-600:])
        return
    bad = 0
    for l, o, (data, xs, ret) in zip(lines, out, meta):
        rep.case(key=l, nontrivial=data["n_evals"] >= 2, sample={"loop": {k: data[k] for k in ("kind", "tol", "n_evals", "returned")}})
        parts = o.split(" ")
        ok = parts[0] == "ok" and parts[-1] == "1" and parts[1] == lst(f2b(x) for x in xs) and parts[3] == f2b(ret)
        if not ok:
            bad += 1
            if bad <= 3:
                rep.broke(f"correspondence find_root_brents vs Model.Brent.findRoot: {json.dumps(data)} model={o[-200:]}")
    rep.extra["loop_level_cases"] = len(lines)
    rep.extra["loop_level_disagreements"] = bad


# ------------------------------------------------------------------ property oracle on the real code
def oracle(case, status, xs, ys, fin):
    """The statement of C19 evaluated on one real run. Returns a failure string or None."""
    if status == "reject":
        return None
    lo, hi = case["start"], case["stop"]
    for x in xs:
        if not (lo <= x <= hi):
            return f"queried abscissa {x!r} outside [{lo!r}, {hi!r}]"
    a, b, fa, fb, _ = fin
    if not (lo <= a <= hi and lo <= b <= hi):
        return f"bracket end outside the initial interval: a={a!r} b={b!r}"
    if (fa > 0 and fb > 0) or (fa < 0 and fb < 0):
        return f"sign change lost: f(a)={fa!r} f(b)={fb!r}"
    if status == "1" and not abs(b - a) < case["tol"]:
        return "reported converged with |b-a| >= tol"
    nb = iter_bound(case["start"], case["stop"], case["eps"], case["tol"])
    if nb is not None and len(xs) > nb[0]:
        return (f"iteration bound exceeded: {len(xs)} iterations without convergence, C19Term.within_{nb[3]}_bracket "
                f"gives at most {nb[0]} (m={nb[1]}, n={nb[2]}) for every ordinate sequence")
    # ordinates stored must be the ones provided at those abscissae
    pts = {case["start"]: case["fs"], case["stop"]: case["fe"]}
    last = {}
    for x, y in zip(xs, ys):
        last[x] = y
    pts.update(last)
    if "f" in case:
        if pts.get(a) != fa or pts.get(b) != fb:
            return "stored ordinates are not the provided ones"
        if status == "0" and len(xs) >= MAX_ITERS:
            return f"no termination within {MAX_ITERS} iterations on a real function"
    return None


# ------------------------------------------------------------------ check
def check(rep: Report, tier: str, seed: int) -> None:
    rep.rule = ("cases = (bracket, eps, tol, ordinate source) drawn from one PRNG; sources: smooth/"
                "discontinuous/flat functions, the solver's exp-gap with eps=tol=1, adversarial ordinate tapes "
                "(random magnitudes 1e-12..1e12, tied magnitudes, exact zeros), rejecting constructors, brackets away from 0 with "
                "eps > 1/2 under overshoot / greedy / random adversarial tapes (iteration-count oracle). "
                "non-trivial = at least 2 queried abscissae; distinct = distinct (bracket, tape) bit patterns")
    rep.assumptions = [
        "termination for brackets with negative abscissae or eps <= 1/2 is not a theorem (TerminatesAlways is false: "
        "C19Term.terminatesAlways_false; for 0 <= start and eps > 1/2 see C19Term.within_pos_bracket / within_nonneg_bracket); "
        "validated by running the real class to convergence",
        "the iteration bound n(2m+2) is a theorem in exact arithmetic; on binary64 runs it is checked with m, n computed "
        "for ratio and width enlarged by (1 + 2^-30) (see BOUND_SLACK)",
        "binary64 rounding is outside the theorems (they are about the same definitions over an ordered field)",
    ]
    lean_stage(rep, PROP_MODULE, AUDIT, thorough=(tier == "thorough"))
    ob, cmd = list(rep.obligations), rep.checker_cmd
    lean_stage(rep, TERM_MODULE, TERM_AUDIT, thorough=(tier == "thorough"))
    rep.obligations = ob + [o for o in rep.obligations if o not in ob]
    rep.checker_cmd = cmd + " ; " + rep.checker_cmd
    rng = seeded(seed * 7919 + 19)
    n = 600 if tier == "quick" else 20000
    cases, lines, impl_out, meta = [], [], [], []
    for i in range(n):
        case = gen_case(rng, i)
        try:
            status, xs, ys, fin = run_impl(case)
        except Exception as e:  # the real code misbehaving is a finding candidate, not a harness error
            rep.fail(f"real BrentsRootFinder raised {type(e).__name__}: {e}", _ser(case, [], []), klass=None)
            continue
        msg = oracle(case, status, xs, ys, fin)
        if msg:
            rep.fail(msg, _ser(case, xs, ys))
        cases.append(case)
        # on ZeroDivisionError the real code was *attempting* one more step: give the model that step too
        lines.append(model_line(case, ys + ([0.0] if status == "2" else [])))
        impl_out.append(canon_impl(status, xs, fin))
        meta.append((status, xs, ys))
        rep.hist("mode", case["mode"])
        rep.hist("status", status)
        rep.hist("iters_bucket", min(len(xs) // 10 * 10, 100))
        nb = iter_bound(case["start"], case["stop"], case["eps"], case["tol"]) if status != "reject" else None
        if nb is not None and nb[0] > 0:
            rep.hist("bound_applies", case["mode"] + ("/" + case["kind"] if "kind" in case else "") + ":" + nb[3])
            ratio = len(xs) / nb[0]
            rep.hist("iters_over_bound_pct", min(int(ratio * 10) * 10, 100))
            if ratio > rep.extra.get("max_iters_over_bound", (0.0,))[0]:
                rep.extra["max_iters_over_bound"] = (round(ratio, 3), len(xs), nb[0], case["mode"], case.get("kind"))
    drv = Driver()
    try:
        model_out = drv.batch(lines)
    except LeanError as e:
        rep.broke("driver: " + str(e)[-800:])
        model_out = [None] * len(lines)
    dis = 0
    for case, mo, io, (status, xs, ys) in zip(cases, model_out, impl_out, meta):
        key = (f2b(case["start"]), f2b(case["stop"]), tuple(f2b(y) for y in ys))
        rep.case(key=key, nontrivial=len(xs) >= 2,
                 sample={"mode": case["mode"], "start": case["start"], "stop": case["stop"], "eps": case["eps"],
                         "tol": case["tol"], "n_queries": len(xs), "status": status})
        if mo is not None and mo != io:
            dis += 1
            if dis <= 5:
                rep.broke("correspondence Model.Brent vs BrentsRootFinder: " + json.dumps(_ser(case, xs, ys))[:600]
                          + f" model={mo[:200]} impl={io[:200]}")
    rep.extra["correspondence_disagreements"] = dis
    state_correspondence(rep, rng, 4000 if tier == "quick" else 200000)
    loop_level(rep, seeded(seed * 48611 + 5), 120 if tier == "quick" else 4000)
    ulp_finding(rep)
    if rep.broken and not rep.unknown_failing():
        search(rep, seed, 4000 if tier == "quick" else 60000)


def search(rep: Report, seed: int, n: int) -> None:
    """Failing-input search on the real code only (used when a proof or the correspondence broke).
    Phase 1: the correspondence generator with the property oracle. Phase 2: a guided walk — from a
    valid constructor, at every step try many candidate ordinates on copies of the real object and
    look one `get_next_abscissa` ahead; every state visited is reachable by construction, so a hit
    is a genuine history (recorded as a tape)."""
    import copy
    from emu_base.math.brents_root_finding import BrentsRootFinder
    rng = seeded(seed * 104729 + 1)
    for i in range(n):
        case = gen_case(rng, i)
        try:
            status, xs, ys, fin = run_impl(case)
        except Exception as e:
            rep.fail(f"real BrentsRootFinder raised {type(e).__name__}: {e}", _ser(case, [], []))
            return
        msg = oracle(case, status, xs, ys, fin)
        if msg:
            rep.fail(msg, _ser(case, xs, ys))
            return
    walks = max(n // 20, 50)
    for _ in range(walks):
        start = rng.choice([0.0, rng.uniform(-10, 10), float(rng.randint(0, 100))])
        stop = start + 10 ** rng.uniform(-1, 2)
        sgn = rng.choice([1.0, -1.0])
        fs, fe = -sgn * 10 ** rng.uniform(-2, 2), sgn * 10 ** rng.uniform(-2, 2)
        eps = rng.choice([1e-6, 1.0, 1e-3, 1e-9])
        case = dict(mode="tape", start=start, stop=stop, eps=eps, tol=1e-9, fs=fs, fe=fe, tape=[])
        rf = BrentsRootFinder(start=start, end=stop, f_start=fs, f_end=fe, epsilon=eps)
        for step in range(25):
            if rf.is_converged(1e-9):
                break
            try:
                x = rf.get_next_abscissa()
            except ZeroDivisionError:
                break
            if not (start <= x <= stop) or not (min(rf.a, rf.b) <= x <= max(rf.a, rf.b)):
                case["tape"].append(1.0)
                st, xs, ys, fin = run_impl(case)
                rep.fail(f"queried abscissa {x!r} outside the current bracket [{min(rf.a, rf.b)!r}, {max(rf.a, rf.b)!r}]",
                         _ser(case, xs, ys))
                return
            base = [abs(rf.fa), abs(rf.fb), abs(rf.fc), 1.0]
            cands = [rng.choice([-1.0, 1.0]) * rng.choice(base) * rng.choice([1.0, 0.5, 2.0, 10 ** rng.uniform(-3, 3), rng.uniform(0.5, 1.5)])
                     for _ in range(48)]
            good = None
            for y in cands:
                r2 = copy.copy(rf)
                r2.provide_ordinate(x, y)
                if (r2.fa > 0 and r2.fb > 0) or (r2.fa < 0 and r2.fb < 0):
                    case["tape"].append(y)
                    st, xs, ys, fin = run_impl(case)
                    rep.fail(f"sign change lost after ordinate {y!r}", _ser(case, xs, ys))
                    return
                try:
                    x2 = r2.get_next_abscissa()
                except ZeroDivisionError:
                    continue
                if not (min(r2.a, r2.b) <= x2 <= max(r2.a, r2.b)):
                    good = y
                    break
            y = good if good is not None else rng.choice(cands)
            rf.provide_ordinate(x, y)
            case["tape"].append(y)
    rep.extra["search_cases"] = n
    rep.extra["search_walks"] = walks


def _ser(case, xs, ys):
    d = {k: v for k, v in case.items() if k != "f"}
    d["xs"] = [float(x) for x in xs]
    d["ys"] = [float(y) for y in ys]
    return d


def replay(rep: Report, path: str) -> int:
    data = json.load(open(path))
    bad = 0
    for f in data.get("failing_inputs", []):
        d = f["data"]
        case = dict(mode="tape", start=d["start"], stop=d["stop"], eps=d["eps"], tol=d["tol"],
                    fs=d["fs"], fe=d["fe"], tape=d["ys"])
        status, xs, ys, fin = run_impl(case)
        msg = oracle(case, status, xs, ys, fin)
        print("replay:", msg or "property holds on this input now")
        bad += bool(msg)
    return 1 if bad else 0
