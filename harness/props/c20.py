"""C20 — PCHIP interpolation (emu_base/math/pchip_torch.py).

Lean: EmuVerif.Props.C20 (exact at knots, C1 joints, standard Fritsch-Carlson/Moler slopes,
monotone + between the end values on every interval, equals the standard interpolant incl.
extrapolation; all n >= 2). Correspondence: `Model.Pchip` run at binary64 against the real
`PCHIP1D` (derivatives, the arguments handed to `_weighted_harmonic_mean`, interval indices,
values) bit for bit; run at Q against an independent Fraction implementation of textbook PCHIP.
Oracle on the real code (always on): SciPy `PchipInterpolator(extrapolate=True)`, knot
reproduction, monotone/bounded per interval on dense points, finite autograd gradients.
"""
from __future__ import annotations

import json
import math
from fractions import Fraction
from unittest import mock

from harness.common import Driver, LeanError, Report, f2b, b2f, lst, unlst, lean_stage, seeded, ulp_diff, q2s, s2q

REGISTRY = dict(
    text=("Lean 4 theorems over every linear ordered field, every n >= 2 strictly increasing knots and every value "
          "list: PCHIP1D constructs exactly on valid input; P(x_i) = y_i at every knot incl. the last (last interval at "
          "t = h); neighbouring cubics agree in value and first derivative at each knot (C1 in the spline sense, "
          "Cubic.deriv shown to be the derivative by an exact expansion); every knot slope equals the independently "
          "stated textbook slope (Fritsch-Carlson weighted harmonic mean or 0; three-point end slope with Moler's "
          "sign/3*Delta limiter; secant for n = 2); P(q) equals the Hermite-basis cubic of those slopes on the standard "
          "interval of q, extrapolation included; sum-of-squares theorem: 0 <= d/Delta <= 3 at both ends => monotone "
          "and between the end values, and the computed slopes do satisfy it (harmonic mean <= 3 min, limiter caps at "
          "3 Delta), so the interpolant is monotone on every interval, constant on flat ones and never leaves "
          "[min y, max y] inside the knot range. Full for the ordered-field reading; the analytic ContDiff statement "
          "and binary64 rounding are not theorems. Model tied to the code by bit-exact binary64 correspondence. "
          "Finding PCHIP-U1 (the former mask delta_l*delta_r > 0 underflowed for secants below ~1e-162) is fixed: the "
          "mask compares signs (bridging lemma sameSign_iff); its witness and 2^k-scaled data down to 2^-940 (float64) "
          "/ 2^-80 (float32) are replayed every run."),
    note=("Trusted: Lean kernel + propext/Classical.choice/Quot.sound; Mathlib; hand-written Model.Pchip tied by "
          "correspondence only; IEEE rounding outside the theorems (SciPy oracle rel 1e-9 of the value + slope-term scale); "
          "data scaled beyond 2^-940..2^960 (float64) / 2^-80..2^100 (float32) are outside the generators."),
    technique="Lean 4 proof (list induction, sum-of-squares certificate) + bit-exact model/implementation correspondence",
    design_ref="DESIGN.md §5 C20",
)

PROP_MODULE = "EmuVerif.Props.C20"
AUDIT = "Audit/C20.lean"
REL = 1e-9          # "equals the standard PCHIP interpolant": allowance = 1e-9 of |y_i| + S (|t| + t^2/h + |t|^3/h^2), see oracle
MONO_SLACK = 1e-11  # rounding allowance of the monotonicity / between test, relative to |y_i| + |y_{i+1}|


# ------------------------------------------------------------------ generators
def gen_x(rng, n):
    mode = rng.choice(["arange", "arange", "nonuniform", "ratio", "dyadic", "offset"])
    if mode == "arange":
        return [float(i) for i in range(n)], mode
    if mode == "dyadic":
        x = [float(rng.randint(-8, 8))]
        for _ in range(n - 1):
            x.append(x[-1] + rng.choice([0.25, 0.5, 1.0, 2.0, 3.0, 0.125]))
        return x, mode
    x = [rng.uniform(-5, 5) if mode != "offset" else rng.uniform(1e3, 1e6)]
    for _ in range(n - 1):
        if mode == "ratio":
            x.append(x[-1] + 10 ** rng.uniform(-4, 3))
        else:
            x.append(x[-1] + rng.uniform(0.05, 2.0))
    return x, mode


def gen_y(rng, n):
    mode = rng.choice(["random", "monotone", "flatruns", "zigzag", "huge", "const", "flatends", "lattice", "lattice",
                       "step", "tiny"])
    if mode == "random":
        y = [rng.uniform(-3, 3) for _ in range(n)]
    elif mode == "monotone":
        s = rng.choice([1.0, -1.0])
        y = [rng.uniform(-2, 2)]
        for _ in range(n - 1):
            y.append(y[-1] + s * rng.choice([0.0, rng.uniform(0, 1), 10 ** rng.uniform(-6, 2)]))
    elif mode == "flatruns":
        y = [rng.uniform(-3, 3)]
        for _ in range(n - 1):
            y.append(y[-1] if rng.random() < 0.55 else rng.uniform(-3, 3))
    elif mode == "zigzag":
        y = [((-1) ** i) * rng.uniform(0, 2) * rng.choice([1, 1, 0]) for i in range(n)]
    elif mode == "huge":
        y = [rng.choice([-1.0, 1.0]) * 10 ** rng.uniform(-12, 12) for _ in range(n)]
    elif mode == "tiny":
        y = [rng.choice([-1.0, 1.0, 0.0]) * 10 ** rng.uniform(-30, -20) for _ in range(n)]
    elif mode == "const":
        y = [rng.choice([0.0, 1.0, -2.5, rng.uniform(-3, 3)])] * n
    elif mode == "flatends":
        y = [rng.uniform(-3, 3) for _ in range(n)]
        if n >= 2 and rng.random() < 0.7:
            y[-1] = y[-2]
        if n >= 2 and rng.random() < 0.7:
            y[1] = y[0]
    elif mode == "step":
        k = rng.randrange(n)
        a, b = rng.uniform(-2, 2), rng.uniform(-2, 2)
        y = [a if i <= k else b for i in range(n)]
    else:  # small integers / halves: sign(0), |d| = 3|s| and equal secants are hit exactly
        y = [float(rng.randint(-4, 4)) / rng.choice([1, 1, 2]) for _ in range(n)]
    return y, mode


def gen_q(rng, x, k):
    lo, hi = x[0], x[-1]
    w = hi - lo
    q = []
    for _ in range(k):
        r = rng.random()
        if r < 0.55:
            q.append(rng.uniform(lo, hi))
        elif r < 0.7:
            q.append(lo - rng.uniform(0, 1) * rng.choice([0.01, 0.5, 2.0]) * max(w, 1.0) / max(len(x) - 1, 1))
        elif r < 0.85:
            q.append(hi + rng.uniform(0, 1) * rng.choice([0.01, 0.5, 2.0]) * max(w, 1.0) / max(len(x) - 1, 1))
        else:
            xi = rng.choice(x)
            q.append(rng.choice([xi, math.nextafter(xi, math.inf), math.nextafter(xi, -math.inf)]))
    q += [x[0], x[-1], x[len(x) // 2]]
    return q


def gen_case(rng, tier, i):
    r = rng.random()
    if r < 0.5:
        n = rng.randint(2, 8)
    elif r < 0.9:
        n = rng.randint(9, 40)
    elif r < 0.98:
        n = rng.randint(41, 160)
    else:
        n = rng.randint(161, 500)
    if i < 6:
        n = [2, 3, 2, 500, 3, 4][i]
    x, xm = gen_x(rng, n)
    y, ym = gen_y(rng, n)
    return dict(x=x, y=y, q=gen_q(rng, x, 6 + min(n, 24)), xm=xm, ym=ym)


def gen_malformed(rng):
    n = rng.randint(0, 5)
    kind = rng.choice(["len", "short", "equal", "decreasing", "ok"])
    x = [float(i) for i in range(n)]
    y = [rng.uniform(-1, 1) for _ in range(n)]
    if kind == "len":
        y = y + [0.0] if rng.random() < 0.5 else y[:-1]
    elif kind == "short":
        x, y = x[:1], y[:1]
    elif kind == "equal" and n >= 2:
        j = rng.randrange(1, n)
        x[j] = x[j - 1]
    elif kind == "decreasing" and n >= 2:
        j = rng.randrange(1, n)
        x[j] = x[j - 1] - 0.5
    return dict(x=x, y=y, q=[0.5, -1.0, 7.0], xm="malformed", ym=kind)


# ------------------------------------------------------------------ real code
def _t(v):
    import torch
    return torch.tensor(v, dtype=torch.float64)


def run_impl(case):
    """Real PCHIP1D with a tape of `_pchip_derivatives`' result and `_weighted_harmonic_mean`'s arguments.
    Returns ('reject', None) or ('ok', dict(d, wl, wr, idx, vals))."""
    import emu_base.math.pchip_torch as pt
    rec = {"wl": [], "wr": [], "d": []}
    o_whm, o_der = pt._weighted_harmonic_mean, pt._pchip_derivatives

    def whm(dl, dr, hl, hr):
        rec["wl"], rec["wr"] = dl.tolist(), dr.tolist()
        return o_whm(dl, dr, hl, hr)

    def der(h, delta):
        d = o_der(h, delta)
        rec["d"] = d.tolist()
        return d

    with mock.patch.object(pt, "_weighted_harmonic_mean", whm), mock.patch.object(pt, "_pchip_derivatives", der):
        try:
            P = pt.PCHIP1D(_t(case["x"]), _t(case["y"]))
        except ValueError:
            return "reject", None
    q = _t(case["q"])
    rec["idx"] = P._interval_index(q).tolist()
    rec["vals"] = P(q).tolist()
    rec["P"] = P
    return "ok", rec


def _same(a, b):
    """bit-equal up to the sign of zero; NaN == NaN"""
    if a != a or b != b:
        return (a != a) and (b != b)
    return ulp_diff(a, b) == 0


def _floats(tok):
    return [float("nan") if s in ("nan", "none") else b2f(s) for s in unlst(tok)]


def model_line(case):
    return " ".join(["pchip.evalf", lst(map(f2b, case["x"])), lst(map(f2b, case["y"])), lst(map(f2b, case["q"]))])


def compare(case, status, rec, mo):
    """None if model output == implementation tape, else a description."""
    if status == "reject" or mo == "reject":
        return None if (status == "reject" and mo == "reject") else f"reject mismatch impl={status} model={mo[:40]}"
    parts = mo.split()
    if len(parts) != 6 or parts[0] != "ok":
        return "unparsable model output " + mo[:80]
    for name, tok in (("d", parts[1]), ("wl", parts[2]), ("wr", parts[3]), ("vals", parts[5])):
        mv, iv = _floats(tok), rec[name]
        if len(mv) != len(iv):
            return f"{name}: length model={len(mv)} impl={len(iv)}"
        for k, (a, b) in enumerate(zip(mv, iv)):
            if not _same(a, b):
                return f"{name}[{k}]: model={a!r} impl={b!r}"
    mi = [int(s) for s in unlst(parts[4])]
    if mi != rec["idx"]:
        k = next(k for k, (a, b) in enumerate(zip(mi, rec["idx"])) if a != b)
        return f"interval index of q={case['q'][k]!r}: model={mi[k]} impl={rec['idx'][k]}"
    return None


# ------------------------------------------------------------------ statement-level correspondence
def lattice_lines(rng, n):
    """`_limit_endpoint` and `_pchip_derivatives` called directly on lattice inputs (ties hit exactly)."""
    import emu_base.math.pchip_torch as pt
    lines, outs = [], []
    lat = [0.0, -0.0, 1.0, -1.0, 0.5, -0.5, 3.0, -3.0, 1.5, -1.5, 2.0, -2.0, 6.0, -6.0, 1e-300, -1e-300]
    for _ in range(n):
        d, sl, sr = rng.choice(lat), rng.choice(lat), rng.choice(lat)
        if rng.random() < 0.3:
            d = 3.0 * sl * rng.choice([1.0, 1.0, -1.0, 1.0000000000000002, 0.9999999999999999])
        lines.append(" ".join(["pchip.limitf", f2b(d), f2b(sl), f2b(sr)]))
        outs.append(("limit", (d, sl, sr), [pt._limit_endpoint(_t(d), _t(sl), _t(sr)).item()]))
    for _ in range(n // 2):
        m = rng.randint(0, 6)
        h = [rng.choice([0.5, 1.0, 2.0, 0.25, 3.0]) for _ in range(m)]
        dl = [rng.choice([0.0, 0.0, 1.0, -1.0, 0.5, -2.0, 3.0, -0.5, 6.0]) for _ in range(m)]
        lines.append(" ".join(["pchip.derivf", lst(map(f2b, h)), lst(map(f2b, dl))]))
        try:
            r = pt._pchip_derivatives(_t(h), _t(dl)).tolist()
        except IndexError:
            r = None
        outs.append(("derivs", (h, dl), r))
    return lines, outs


def compare_lattice(out, mo):
    kind, args, r = out
    if r is None:
        return None if mo == "raise" else f"{kind}{args}: impl raises IndexError, model={mo[:60]}"
    toks = mo.split()
    mv = _floats(toks[-1]) if toks and toks[0] != "raise" else None
    if mv is None or len(mv) != len(r) or not all(_same(a, b) for a, b in zip(mv, r)):
        return f"{kind}{args}: model={mv} impl={r}"
    return None


# ------------------------------------------------------------------ exact rational reference (textbook PCHIP)
def _sign(v):
    return (v > 0) - (v < 0)


def std_slopes(x, y):
    """Fritsch-Carlson / Moler `pchipslopes` + `pchipend`, written from the textbook, exact."""
    n = len(x)
    h = [x[i + 1] - x[i] for i in range(n - 1)]
    dl = [(y[i + 1] - y[i]) / h[i] for i in range(n - 1)]
    if n == 2:
        return [dl[0], dl[0]]
    d = [Fraction(0)] * n
    for k in range(1, n - 1):
        if _sign(dl[k - 1]) * _sign(dl[k]) > 0:
            w1, w2 = 2 * h[k] + h[k - 1], h[k] + 2 * h[k - 1]
            d[k] = (w1 + w2) / (w1 / dl[k - 1] + w2 / dl[k])

    def end(h0, h1, d0, d1):
        e = ((2 * h0 + h1) * d0 - h0 * d1) / (h0 + h1)
        if _sign(e) != _sign(d0):
            return Fraction(0)
        if _sign(d0) != _sign(d1) and abs(e) > 3 * abs(d0):
            return 3 * d0
        return e
    d[0] = end(h[0], h[1], dl[0], dl[1])
    d[-1] = end(h[-1], h[-2], dl[-1], dl[-2])
    return d


def std_eval(x, y, d, q):
    n = len(x)
    i = 0
    while i < n - 2 and q >= x[i + 1]:
        i += 1
    h = x[i + 1] - x[i]
    u = (q - x[i]) / h
    return (y[i] * (1 + 2 * u) * (1 - u) ** 2 + h * d[i] * u * (1 - u) ** 2
            + y[i + 1] * u * u * (3 - 2 * u) + h * d[i + 1] * u * u * (u - 1)), i


def gen_qcase(rng):
    n = rng.randint(2, 7)
    x = [Fraction(rng.randint(-6, 6), rng.choice([1, 2]))]
    for _ in range(n - 1):
        x.append(x[-1] + Fraction(rng.randint(1, 6), rng.choice([1, 2, 3])))
    mode = rng.choice(["lat", "flat", "mono", "lat"])
    if mode == "mono":
        y = [Fraction(rng.randint(-3, 3))]
        for _ in range(n - 1):
            y.append(y[-1] + Fraction(rng.randint(0, 5), rng.choice([1, 2, 4])))
    else:
        y = [Fraction(rng.randint(-5, 5), rng.choice([1, 1, 2, 3])) for _ in range(n)]
        if mode == "flat":
            for i in range(1, n):
                if rng.random() < 0.5:
                    y[i] = y[i - 1]
    q = []
    for i in range(n - 1):
        for k in range(0, 5):
            q.append(x[i] + (x[i + 1] - x[i]) * Fraction(k, 4))
    q += [x[0] - Fraction(rng.randint(1, 9), 4), x[-1] + Fraction(rng.randint(1, 9), 4)]
    return x, y, q


def check_q(rep, x, y, q, mo):
    """Model at Q == textbook PCHIP at Q, exactly; and the statements of the C20 theorems on this sample."""
    parts = mo.split()
    if parts[0] != "ok":
        return f"Q model rejected valid input {x} {y}"
    md = [s2q(s) for s in unlst(parts[1])]
    mv = [s2q(s) for s in unlst(parts[5])]
    mi = [int(s) for s in unlst(parts[4])]
    d = std_slopes(x, y)
    if md != d:
        return f"Q slopes: model {md} textbook {d} for x={x} y={y}"
    for qq, v, i in zip(q, mv, mi):
        sv, si = std_eval(x, y, d, qq)
        if v != sv or i != si:
            return f"Q value at {qq}: model {v} (interval {i}) textbook {sv} (interval {si}) x={x} y={y}"
    n = len(x)
    vals = dict(zip(q, mv))
    for i in range(n - 1):
        pts = [x[i] + (x[i + 1] - x[i]) * Fraction(k, 4) for k in range(5)]
        vs = [vals[p] for p in pts]
        if vs[0] != y[i] or vs[-1] != y[i + 1]:
            return f"Q knot exactness fails on interval {i}: {vs} x={x} y={y}"
        up = y[i + 1] >= y[i]
        for a, b in zip(vs, vs[1:]):
            if (up and a > b) or (not up and a < b):
                return f"Q monotonicity fails on interval {i}: {vs} x={x} y={y}"
        dl = (y[i + 1] - y[i]) / (x[i + 1] - x[i])
        for dd in (d[i], d[i + 1]):
            if (dl == 0 and dd != 0) or (dl != 0 and not (0 <= dd / dl <= 3)):
                return f"Q slope region fails on interval {i}: d={dd} delta={dl} x={x} y={y}"
    return None


# ------------------------------------------------------------------ property oracle on the real code
def pchip_gradients_finite(x, y, xq=None):
    """C30's finiteness clause on the real code: the gradient of sum(P(xq)) w.r.t. the samples `y` is
    finite at every knot — also through flat runs. Returns (ok, grad_list). Importable by other checks."""
    import torch
    from emu_base.math.pchip_torch import PCHIP1D
    xt = torch.tensor(x, dtype=torch.float64)
    yt = torch.tensor(y, dtype=torch.float64, requires_grad=True)
    if xq is None:
        xq = [0.5 * (a + b) for a, b in zip(x, x[1:])] + [x[0] - 0.25, x[-1] + 0.25]
    out = PCHIP1D(xt, yt)(torch.tensor(xq, dtype=torch.float64)).sum()
    out.backward()
    g = yt.grad.tolist()
    return all(math.isfinite(v) for v in g), g


def oracle(case, rec=None):
    """The statement of C20 evaluated on the real code for one dataset. Returns (message, extra) or None."""
    import numpy as np
    import torch
    from scipy.interpolate import PchipInterpolator
    from emu_base.math.pchip_torch import PCHIP1D
    x, y = case["x"], case["y"]
    n = len(x)
    P = rec["P"] if rec else PCHIP1D(_t(x), _t(y))
    # dense points per interval + the case's own queries (outside / at knots)
    m = 9 if n <= 60 else 3
    dense = []
    for i in range(n - 1):
        dense += [x[i] + (x[i + 1] - x[i]) * k / (m - 1) for k in range(m)]
    dense = [min(max(v, x[0]), x[-1]) for v in dense]
    q = dense + list(case["q"])
    qt = _t(q)
    vals = P(qt).tolist()
    idx = P._interval_index(qt).tolist()
    co = P._coeffs.tolist()
    if not all(math.isfinite(v) for v in vals):
        k = next(k for k, v in enumerate(vals) if not math.isfinite(v))
        return f"non-finite value {vals[k]!r} at q={q[k]!r}", {"q": [q[k]]}
    ref = PchipInterpolator(np.array(x), np.array(y), extrapolate=True)(np.array(q)).tolist()
    for k, (a, b) in enumerate(zip(vals, ref)):
        i = idx[k]
        t = abs(q[k] - x[i])
        h = x[i + 1] - x[i]
        # rounding allowance: every coefficient carries a relative error ~1e-16 of the slope scale
        # S = |Delta_i| + |p1| + |p2| h + |p3| h^2 (p2 h and p3 h^2 are sums of Delta_i, d_i, d_{i+1}; an exactly
        # cancelling p2 = 0 in one implementation is 1e-17 * S / h in the other), the value one of |y_i|
        S = abs((y[i + 1] - y[i]) / h) + abs(co[i][1]) + abs(co[i][2]) * h + abs(co[i][3]) * h * h
        scale = abs(co[i][0]) + S * (t + t * t / h + t ** 3 / (h * h))
        if abs(a - b) > REL * scale + 5e-324:
            return (f"differs from scipy PchipInterpolator at q={q[k]!r}: PCHIP1D={a!r} scipy={b!r} "
                    f"(allowed {REL * scale:.3g})"), {"q": [q[k]]}
    kv = P(_t(x)).tolist()
    for i in range(n):
        tol = 0.0 if i < n - 1 else 1e-12 * (abs(y[i]) + abs(y[i - 1]))
        if abs(kv[i] - y[i]) > tol:
            return f"knot {i} not reproduced: P({x[i]!r})={kv[i]!r} y={y[i]!r}", {"q": [x[i]]}
    for i in range(n - 1):
        seg = vals[i * m:(i + 1) * m]
        ya, yb = y[i], y[i + 1]
        slack = MONO_SLACK * (abs(ya) + abs(yb))
        if ya == yb:
            if any(v != ya for v in seg[:-1]):
                return (f"not constant on the flat interval [{x[i]!r},{x[i+1]!r}] (y={ya!r}): {seg}",
                        {"q": dense[i * m:(i + 1) * m]})
            continue
        lo, hi = min(ya, yb), max(ya, yb)
        if any(v < lo - slack or v > hi + slack for v in seg):
            return (f"leaves [{lo!r},{hi!r}] on the interval [{x[i]!r},{x[i+1]!r}]: {seg}",
                    {"q": dense[i * m:(i + 1) * m]})
        sg = 1.0 if yb > ya else -1.0
        if any(sg * (b - a) < -slack for a, b in zip(seg, seg[1:])):
            return (f"not monotone on the interval [{x[i]!r},{x[i+1]!r}] (y {ya!r}->{yb!r}): {seg}",
                    {"q": dense[i * m:(i + 1) * m]})
    ok, g = pchip_gradients_finite(x, y)
    if not ok:
        return f"non-finite gradient w.r.t. the samples: y.grad={g}", {"grad": True}
    return None


UNDERFLOW_CLASS = "pchip-secant-product-underflow"
UNDERFLOW_WITNESS = dict(x=[0.0, 1.0, 2.0, 3.0], y=[0.0, 1e-170, 3e-170, 7e-170], q=[0.5, 1.5, 2.5], xm="arange",
                         ym="underflow")


def underflow_witness():
    """Regression replay of the witness of the fixed finding PCHIP-U1 (Lean: `float_mask_underflow_counterexample`)
    on the real code: with the former mask `delta_l * delta_r > 0` secants of magnitude 1e-170 made the product
    underflow, the interior slopes became 0 and the values differed from standard PCHIP (SciPy compares signs).
    Returns a failure string or None (None = the gap is closed, as it is since the fix)."""
    import numpy as np
    from scipy.interpolate import PchipInterpolator
    from emu_base.math.pchip_torch import PCHIP1D
    c = UNDERFLOW_WITNESS
    got = PCHIP1D(_t(c["x"]), _t(c["y"]))(_t(c["q"])).tolist()
    ref = PchipInterpolator(np.array(c["x"]), np.array(c["y"]), extrapolate=True)(np.array(c["q"])).tolist()
    worst = max(abs(a - b) / abs(b) for a, b in zip(got, ref))
    if worst > 1e-9:
        return (f"secant products underflow: y={c['y']} gives {got} at {c['q']}, standard PCHIP {ref} "
                f"(relative difference {worst:.2g})")
    # the same gap in float32 starts at secants ~1e-23: equivariance with the well-scaled data set fails
    import torch
    x32 = torch.tensor(c["x"], dtype=torch.float32)
    yb = torch.tensor([0.0, 1.0, 3.0, 7.0], dtype=torch.float32)
    q32 = torch.tensor(c["q"], dtype=torch.float32)
    a = PCHIP1D(x32, yb * 2.0 ** -83)(q32)
    b = PCHIP1D(x32, yb)(q32) * 2.0 ** -83
    if not torch.equal(a, b):
        return (f"secant products underflow in float32: y=2^-83*[0,1,3,7] gives {a.tolist()}, "
                f"2^-83 * P([0,1,3,7]) = {b.tolist()}")
    return None


# ------------------------------------------------------------------ extreme magnitudes (float64 and float32)
# PCHIP is homogeneous in y. For c = 2^k every operation of the algorithm commutes with the scaling *exactly*
# (power-of-two scaling commutes with IEEE rounding while nothing overflows, underflows or goes subnormal; all
# comparisons are sign / ratio tests), so p(c*y) == c*p(y) bit for bit. Base data live on a dyadic lattice
# (|secant| in [2^-7, 2^7] or 0, widths in [1/4, 4]); the exponent ranges keep every intermediate of the *clean*
# algorithm (12*secant/h^2 at the top, t*p3 at the bottom) inside the normal range of the dtype:
SCALE_RANGE = {"float64": (-940, 960), "float32": (-80, 100)}
# (secants beyond sqrt(max float): 2^512 / 2^64 are reached from k ~ 520 / 72 upwards. Lower ends: since the fix of
# PCHIP-U1 the same-sign mask compares signs, so nothing of size secant^2 is formed any more; what remains is that
# rounding-noise-sized intermediates (t * p3 with p3 ~ eps * secant / h^2, i.e. 2^-69 / 2^-40 times the scale) must
# stay normal for the scaling to commute with rounding: k >= -953 / -86. Measured: still bit-exact at 2^-1000 /
# 2^-110 on 1500 data sets each; from 2^-1010 / 2^-115 on, w / secant overflows — the edge of the dtype.)


def gen_scale_case(rng, i):
    n = rng.choice([3, 4, 5, 6, 8, 12])
    x = [float(rng.randint(-4, 4))]
    for _ in range(n - 1):
        x.append(x[-1] + rng.choice([0.25, 0.5, 1.0, 1.0, 2.0, 4.0]))
    mode = rng.choice(["mono", "lattice", "flat", "zigzag"])
    if mode == "mono":
        s = rng.choice([1.0, -1.0])
        y = [float(rng.randint(-8, 8)) / 8]
        for _ in range(n - 1):
            y.append(y[-1] + s * rng.randint(1, 16) / 8)
    else:
        y = [float(rng.randint(-32, 32)) / 8 for _ in range(n)]
        if mode == "flat":
            for j in range(1, n):
                if rng.random() < 0.4:
                    y[j] = y[j - 1]
        if mode == "zigzag":
            y = [abs(v) * (-1) ** j for j, v in enumerate(y)]
    q = []
    for j in range(n - 1):
        q += [x[j] + (x[j + 1] - x[j]) * m / 8 for m in (1, 3, 4, 7)]
    q += [x[0] - 0.25, x[-1] + 0.25]
    dtype = "float64" if i % 2 == 0 else "float32"
    lo, hi = SCALE_RANGE[dtype]
    k = [hi, lo, hi - rng.randint(0, 40), lo + rng.randint(0, 40), rng.randint(lo, hi),
         (hi * 6) // 10 + rng.randint(0, 40)][(i // 2) % 6]
    return dict(x=x, y=y, q=q, k=k, dtype=dtype, xm="dyadic", ym="scale-" + mode, family="scale")


def scale_oracle(case):
    """Knot reproduction, finiteness and exact scale-equivariance p(2^k y) = 2^k p(y) on the real code, in the
    case's dtype. Returns a failure string or None."""
    import torch
    from emu_base.math.pchip_torch import PCHIP1D
    dt = torch.float64 if case["dtype"] == "float64" else torch.float32
    c = 2.0 ** case["k"]
    xt = torch.tensor(case["x"], dtype=dt)
    y0 = torch.tensor(case["y"], dtype=dt)
    qt = torch.tensor(case["q"], dtype=dt)
    y1 = y0 * c
    tag = f"{case['dtype']}, y = 2^{case['k']} * {case['y']} on x = {case['x']}"
    if not bool(torch.isfinite(y1).all()):
        return None                                   # the data themselves left the dtype: not a case
    v0 = PCHIP1D(xt, y0)(qt)
    P1 = PCHIP1D(xt, y1)
    v1 = P1(qt)
    k1 = P1(xt)
    if not bool(torch.isfinite(v1).all()) or not bool(torch.isfinite(k1).all()):
        bad = [(case["q"][j], v) for j, v in enumerate(v1.tolist()) if not math.isfinite(v)]
        bad += [(case["x"][j], v) for j, v in enumerate(k1.tolist()) if not math.isfinite(v)]
        return (f"non-finite interpolant for finite data ({tag}): P({bad[0][0]!r}) = {bad[0][1]!r}; "
                f"{len(bad)} of {len(case['q']) + len(case['x'])} points are inf/nan")
    rtol = 1e-12 if dt == torch.float64 else 1e-5
    for j, (a, b) in enumerate(zip(k1.tolist(), y1.tolist())):
        tol = 0.0 if j < len(case["x"]) - 1 else rtol * (abs(b) + abs(y1[j - 1].item()))
        if abs(a - b) > tol:
            return f"knot {j} not reproduced ({tag}): P({case['x'][j]!r}) = {a!r}, y = {b!r}"
    want = v0 * c
    if not torch.equal(v1, want):
        j = next(j for j, (a, b) in enumerate(zip(v1.tolist(), want.tolist())) if a != b)
        return (f"not scale-equivariant ({tag}): P_cy({case['q'][j]!r}) = {v1[j].item()!r} but "
                f"2^{case['k']} * P_y = {want[j].item()!r} (must be bit-equal for a power of two)")
    return None


def _ser_scale(case):
    return {k: case[k] for k in ("x", "y", "q", "k", "dtype", "xm", "ym", "family")}


def scale_family(rep, rng, n, stop_at_first=False):
    """Run `scale_oracle` on n cases; every failure is a concrete failing input."""
    for i in range(n):
        case = gen_scale_case(rng, i)
        try:
            msg = scale_oracle(case)
        except Exception as e:
            msg = f"real PCHIP1D raised {type(e).__name__}: {e} ({case['dtype']}, scale 2^{case['k']})"
        rep.hist("scale_family", f"{case['dtype']}:2^{(case['k'] // 100) * 100}..")
        rep.case(key=("scale", case["dtype"], case["k"], tuple(case["x"]), tuple(case["y"])), nontrivial=True,
                 trace=False)
        if msg:
            rep.fail(msg, _ser_scale(case))
            if stop_at_first:
                return True
    return False


def _ser(case, extra=None):
    d = {"x": case["x"], "y": case["y"], "q": case["q"], "xm": case.get("xm"), "ym": case.get("ym")}
    if extra:
        d["q"] = list(extra.get("q", [])) + d["q"][:8]
    return d


FIXED_CASES = [
    # D18 shape: flat last / first interval next to a slope
    dict(x=[0.0, 1.0, 2.0, 3.0], y=[3.0, 1.0, 0.0, 0.0], q=[2.5, 3.5, -0.5], xm="arange", ym="d18"),
    dict(x=[0.0, 1.0, 2.0, 3.0], y=[0.0, 0.0, 1.0, 3.0], q=[0.5, -0.5, 3.5], xm="arange", ym="d18"),
    # D12 shape: flat run in the middle
    dict(x=[0.0, 1.0, 2.0, 3.0, 4.0, 5.0], y=[0.0, 1.0, 1.0, 1.0, 2.0, 0.0], q=[0.5, 1.5, 2.5, 3.5, 4.5], xm="arange",
         ym="d12"),
    dict(x=[0.0, 1.0], y=[2.0, 5.0], q=[-3.0, 0.0, 0.5, 1.0, 4.0], xm="arange", ym="n2"),
    dict(x=[0.0, 1.0, 2.0], y=[0.0, 0.0, 0.0], q=[-1.0, 0.5, 1.5, 9.0], xm="arange", ym="zero"),
]


# ------------------------------------------------------------------ check
def check(rep: Report, tier: str, seed: int) -> None:
    rep.rule = ("cases = (knots, values, queries): 2..500 knots (arange, non-uniform, width ratios to 1e7, dyadic, large "
                "offset), values random / monotone / flat runs / zigzag with zeros / magnitudes 1e-12..1e12 and "
                "1e-30..1e-20 / constant / flat end intervals / steps / half-integer lattice; queries inside, outside "
                "both ends, at knots and one ulp beside them; plus malformed inputs, lattice calls of _limit_endpoint "
                "and _pchip_derivatives, small rational datasets at Q, and dyadic-lattice datasets scaled by 2^k up to 2^960 "
                "(float64) / 2^100 (float32) and down to 2^-940 / 2^-80. non-trivial = at least 3 knots and not "
                "constant; distinct = distinct (x, y) bit patterns")
    rep.assumptions = [
        "binary64 rounding is outside the theorems (same definitions over an ordered field); probed by the SciPy "
        "oracle (rel 1e-9 of |y_i| + S(|t| + t^2/h + |t|^3/h^2), S = slope scale of the interval) and by the bit-exact correspondence",
        "extreme magnitudes: data scaled by 2^k, k in [-940, 960] (float64) / [-80, 100] (float32), must be reproduced at "
        "the knots, finite and exactly scale-equivariant; below those ranges rounding-noise-sized intermediates go "
        "subnormal (and from 2^-1010 / 2^-115 on w/secant overflows), above them 12*secant/h^2 leaves the dtype",
        "C1 is proved as the algebraic joint conditions (value and formal first derivative agree at every knot), not as "
        "Mathlib's ContDiff",
    ]
    import torch
    torch.set_num_threads(1)
    lean_stage(rep, PROP_MODULE, AUDIT, thorough=(tier == "thorough"))
    rng = seeded(seed * 7919 + 20)
    n = 220 if tier == "quick" else 6000
    cases = list(FIXED_CASES) + [gen_case(rng, tier, i) for i in range(n)] + [gen_malformed(rng) for _ in range(n // 8)]
    lines, metas = [], []
    for case in cases:
        try:
            status, rec = run_impl(case)
        except Exception as e:  # the real code misbehaving is a finding candidate
            rep.fail(f"real PCHIP1D raised {type(e).__name__}: {e}", _ser(case))
            continue
        if status == "ok":
            try:
                res = oracle(case, rec)
            except Exception as e:
                res = (f"real PCHIP1D raised {type(e).__name__} in the oracle: {e}", None)
            if res:
                rep.fail(res[0], _ser(case, res[1]))
        lines.append(model_line(case))
        metas.append((case, status, rec))
        rep.hist("x_mode", case["xm"])
        rep.hist("y_mode", case["ym"])
        rep.hist("n_bucket", min(2 ** int(math.log2(max(len(case["x"]), 1))), 256))
        rep.hist("status", status)
    lat_lines, lat_outs = lattice_lines(rng, 1500 if tier == "quick" else 40000)
    qcases = [gen_qcase(rng) for _ in range(150 if tier == "quick" else 3000)]
    q_lines = [" ".join(["pchip.evalq", lst(map(q2s, x)), lst(map(q2s, y)), lst(map(q2s, q))]) for x, y, q in qcases]
    try:
        out = Driver().batch(lines + lat_lines + q_lines)
    except LeanError as e:
        rep.broke("driver: " + str(e)[-800:])
        out = None
    dis = 0
    if out is not None:
        for (case, status, rec), mo in zip(metas, out[:len(lines)]):
            nt = len(case["x"]) >= 3 and len(set(case["y"])) > 1
            rep.case(key=(tuple(case["x"]), tuple(case["y"])), nontrivial=nt,
                     sample={"n": len(case["x"]), "x_mode": case["xm"], "y_mode": case["ym"], "status": status,
                             "queries": len(case["q"])})
            msg = compare(case, status, rec, mo)
            if msg:
                dis += 1
                if dis <= 4:
                    rep.broke("correspondence Model.Pchip vs PCHIP1D: " + msg + " on " + json.dumps(_ser(case))[:500])
        ldis = 0
        for o, mo in zip(lat_outs, out[len(lines):len(lines) + len(lat_lines)]):
            rep.case(key=("lat", o[0], str(o[1])), nontrivial=True, sample=None)
            msg = compare_lattice(o, mo)
            if msg:
                ldis += 1
                if ldis <= 3:
                    rep.broke("correspondence (statement level) " + msg)
        qdis = 0
        for (x, y, q), mo in zip(qcases, out[len(lines) + len(lat_lines):]):
            rep.case(key=("q", tuple(x), tuple(y)), nontrivial=len(x) >= 3, trace=False)
            msg = check_q(rep, x, y, q, mo)
            if msg is None:
                # float implementation against the exact value (rounding gap probe)
                fc = dict(x=[float(v) for v in x], y=[float(v) for v in y], q=[float(v) for v in q])
                st, rec = run_impl(fc)
                mv = [s2q(s) for s in unlst(mo.split()[5])]
                sc = max(1.0, max(abs(float(v)) for v in y))
                for a, b, qq in zip(rec["vals"], mv, q):
                    if abs(a - float(b)) > 1e-10 * sc * max(1.0, abs(float(qq - x[0])), abs(float(qq - x[-1]))) ** 3:
                        msg = f"float PCHIP1D differs from the exact rational value at q={qq}: {a!r} vs {b}"
                        break
            if msg:
                qdis += 1
                if qdis <= 3:
                    rep.broke("rational check: " + msg)
        rep.extra["correspondence_disagreements"] = dis
        rep.extra["statement_level_disagreements"] = ldis
        rep.extra["rational_disagreements"] = qdis
        rep.extra["exactness"] = "bit-exact (0 ulp, sign of zero ignored) for d, whm arguments, interval indices and values"
    scale_family(rep, seeded(seed * 7919 + 2020), 240 if tier == "quick" else 6000)
    msg = underflow_witness()
    if msg:
        rep.fail(msg, _ser(UNDERFLOW_WITNESS), klass=UNDERFLOW_CLASS)
    if rep.broken and not [f for f in rep.failing if f["class"] != UNDERFLOW_CLASS]:
        search(rep, seed, 3000 if tier == "quick" else 40000)


def search(rep: Report, seed: int, n: int) -> None:
    """Failing-input search on the real code only: the oracle on datasets concentrated on the shapes the proofs
    depend on (flat end intervals, flat runs, sign changes next to the ends, 3-5 knots, lattice values)."""
    rng = seeded(seed * 104729 + 20)
    if scale_family(rep, rng, max(n // 3, 600), stop_at_first=True):
        return
    for i in range(n):
        if i % 3 == 0:
            k = rng.randint(3, 6)
            x = [float(j) for j in range(k)] if rng.random() < 0.6 else gen_x(rng, k)[0]
            y = [float(rng.randint(-3, 3)) for _ in range(k)]
            if rng.random() < 0.5:
                y[-1] = y[-2]
            if rng.random() < 0.3:
                y[0] = y[1]
            case = dict(x=x, y=y, q=gen_q(rng, x, 8), xm="search", ym="lattice-ends")
        else:
            case = gen_case(rng, "quick", 100 + i)
            if len(case["x"]) > 40:
                continue
        try:
            res = oracle(case)
        except Exception as e:
            res = (f"real PCHIP1D raised {type(e).__name__}: {e}", None)
        if res:
            rep.fail(res[0], _ser(case, res[1]))
            return
    rep.extra["search_cases"] = n


def replay(rep: Report, path: str) -> int:
    data = json.load(open(path))
    bad = 0
    for f in data.get("failing_inputs", []):
        d = f["data"]
        case = dict(x=d["x"], y=d["y"], q=d["q"])
        try:
            if d.get("family") == "scale":
                m = scale_oracle(d)
                res = (m, None) if m else None
            elif f.get("class") == UNDERFLOW_CLASS:
                m = underflow_witness()
                res = (m, None) if m else None
            else:
                res = oracle(case)
        except Exception as e:
            res = (f"raised {type(e).__name__}: {e}", None)
        print("replay:", res[0] if res else "property holds on this input now")
        bad += bool(res)
    return 1 if bad else 0
