"""C21 — the simulation time grid covers the sequence and every evaluation time
(emu_base/pulser_adapter.py: `_get_target_times`, `_unique_observable_times`, `reps` loop of
`PulserData.get_sequences`, mid-points of `_extract_omega_delta_phi`).

Lean: EmuVerif.Props.C21. Correspondence: `Model.TimeGrid.targetTimes` at binary64 must equal the
real `_get_target_times` bit for bit; the same model at ℚ on the exact rational inputs must give the
same NUMBER of grid points (a disagreement away from the merge threshold is a rounding-induced
discrete failure). Oracle: the statement of C21 evaluated on every real output.
"""
from __future__ import annotations

import json
import math
from fractions import Fraction as Fr

from harness.common import Driver, LeanError, Report, f2b, b2f, lst, lean_stage, seeded
from harness.props import tg_common as T

REGISTRY = dict(
    text=("Lean 4 theorems over every linear ordered field, every duration>0, dt>0, list of requested times in [0,1] "
          "(any length) and merge tolerance 0<=relTol<1: the target times are strictly increasing, start at 0, end at the "
          "duration, consecutive points differ by more than relTol*duration, every multiple of dt up to the duration and "
          "every requested time is within relTol*duration of a grid point (exactly in the grid when distinct candidates "
          "are further apart than that), every grid point is one of those candidates, rows of Omega = len-1 >= 1 and both "
          "back-ends visit grid points 0..len-1 once each in order, the reps loop yields sum(reps) SequenceData with "
          "reps_i consecutive copies of trajectory i; 'Full' default with a time-less observable is rejected. FULL in "
          "exact arithmetic. Model tied to the code by bit-exact binary64 correspondence of _get_target_times and a Q-vs-"
          "float comparison of the number of grid points."),
    note=("Trajectory requests run the real PulserData.__init__ on a 3-atom MockDevice sequence (noise model from device or config). Trusted: Lean kernel + propext/Classical.choice/Quot.sound; Mathlib; hand-written Model.TimeGrid tied by "
          "correspondence only; binary64 rounding is outside the theorems (probed by the Q-vs-float comparison); the "
          "sequence is a mock exposing get_duration; trajectories are mocks of HamiltonianData.noisy_samples (pulser's "
          "own count of trajectories is assumed); the Omega rows come from the real _extract_omega_delta_phi on a mock "
          "sample object."),
    technique="Lean 4 proof (list induction over the merge loop) + bit-exact model/implementation correspondence",
    design_ref="DESIGN.md §5 C21",
)

PROP_MODULE = "EmuVerif.Props.C21"
AUDIT = "Audit/C21.lean"
COVER_REL = 1e-9          # "coverage within 1e-9 rel" of the property oracle


# ------------------------------------------------------------------ oracle (the statement on a real output)
def oracle(c, tt):
    D, dt = float(c["D"]), c["dt"]
    if len(tt) < 2:
        return f"grid has {len(tt)} point(s): no solver step"
    if tt[0] != 0.0:
        return f"first target time {tt[0]!r} != 0"
    if tt[-1] != D:
        if D < tt[-1] <= D * (1 + 1e-9):
            return ("ABOVE", f"last target time {tt[-1]!r} is above the duration {D!r} (i*dt/duration*duration rounds past "
                    "the duration and the merge keeps the later point)")
        return f"last target time {tt[-1]!r} != duration {D!r}"
    for a, b in zip(tt, tt[1:]):
        if not a < b:
            return f"target times not strictly increasing: {a!r}, {b!r}"
        if not (b - a > T.REL_TOL * D):
            return f"near-duplicate target times {a!r}, {b!r} (differ by <= 2e-12*duration)"
    for a, b in zip(tt, tt[1:]):
        if abs(a / D - b / D) < 1e-12:
            return ("KNIFE", f"target times {a!r}, {b!r} are kept apart by the merge but their relative "
                    "times are closer than pulser's TIME_TOLERANCE 1e-12: Statistics(evaluation_times=...) raises")
    tol = COVER_REL * D
    import bisect

    def near(x):
        j = bisect.bisect_left(tt, x)
        return any(0 <= k < len(tt) and abs(tt[k] - x) <= tol for k in (j - 1, j))
    n = math.floor(D / dt)
    for i in range(n + 1):
        if not near(i * dt):
            return f"multiple {i}*dt = {i * dt!r} of dt is not covered by the grid"
    req = []
    for o in c["obs"]:
        ts = o if o is not None else c["dflt"]
        for _, x in ts:
            req.append(x * D)
            if not near(x * D):
                return f"requested evaluation time {x!r} (t = {x * D!r}) is not covered by the grid"
    req.sort()
    for g in tt:                                  # nothing but candidates
        i = round(g / dt)
        ok = abs(i * dt - g) <= tol and i * dt <= D + tol or abs(g - D) <= tol
        if not ok:
            j = bisect.bisect_left(req, g)
            ok = any(0 <= k < len(req) and abs(req[k] - g) <= tol for k in (j - 1, j))
        if not ok:
            return f"grid point {g!r} is neither a dt multiple, the duration nor a requested time"
    return None


KNIFE = "timegrid-merge-threshold-equals-pulser-tolerance"
ABOVE = "timegrid-last-point-above-duration"


def _fail(rep, msg, c):
    if isinstance(msg, tuple):
        rep.fail(msg[1], _ser(c), klass=(KNIFE if msg[0] == "KNIFE" else ABOVE))
    else:
        rep.fail(msg, _ser(c), klass=None)


def _ser(c):
    return dict(D=c["D"], dtq=str(c["dtq"]), dflt=("Full" if c["dflt"] == "Full" else [p[1] for p in c["dflt"]]),
                obs=[None if o is None else [p[1] for p in o] for o in c["obs"]])


def _deser(d):
    def ts(l):
        return [(Fr(x), x) for x in l]
    return dict(D=d["D"], dtq=Fr(d["dtq"]), dt=float(Fr(d["dtq"])),
                dflt=("Full" if d["dflt"] == "Full" else ts(d["dflt"])),
                obs=[None if o is None else ts(o) for o in d["obs"]])


def fixed_cases():
    """Replayed on every run: the D7 pairs, dt >= duration, dt dividing / not dividing, 0 and 1."""
    out = []
    for D, dt in T.D7_PAIRS:
        out.append(dict(D=D, dtq=Fr(dt), dt=float(Fr(dt)), dflt=[(Fr(1), 1.0)], obs=[None]))
        out.append(dict(D=D, dtq=Fr(dt), dt=float(Fr(dt)), dflt=[(Fr(1), 1.0)],
                        obs=[[(Fr(0), 0.0), (Fr(1, 3), 1 / 3), (Fr(1), 1.0)], None]))
    x = 240 / 888 + 1e-12     # D7d: sat exactly on the former merge threshold 1e-12 (= pulser's TIME_TOLERANCE)
    out.append(dict(D=888, dtq=Fr(10), dt=10.0, dflt=[(Fr(1), 1.0)], obs=[[(Fr(x), x)]]))
    for D, dt in [(187, "1.1"), (726, "1.1"), (363, "3.3")]:   # D7f: last point one ulp above the duration
        out.append(dict(D=D, dtq=Fr(dt), dt=float(Fr(dt)), dflt=[(Fr(1), 1.0)], obs=[None]))
    for D, dt in [(10, "10"), (10, "11"), (10, "25"), (1, "0.1"), (1, "3"), (10000, "10"), (4000, "0.5")]:
        out.append(dict(D=D, dtq=Fr(dt), dt=float(Fr(dt)), dflt=[(Fr(0), 0.0), (Fr(1, 2), 0.5), (Fr(1), 1.0)],
                        obs=[None, [(Fr(1, 2) - Fr(5, 10**10), 0.5 - 5e-10)]]))
    return out


# ------------------------------------------------------------------ pieces
def grid_correspondence(rep, rng, n, tier):
    cases = fixed_cases()
    big = 2 if tier == "quick" else 6
    for i in range(n):
        cases.append(T.gen_case(rng, max_points=(40000 if i < big else (1500 if tier == "quick" else 3000))))
    lines, expect, meta = [], [], []
    qlines, qmeta = [], []
    for c in cases:
        try:
            obs = T.make_observables(c)
            cfg = T.make_config(c, "sv" if rng.random() < 0.5 else "mps", obs)
        except Exception as e:
            rep.fail(f"constructing the config raised {type(e).__name__}: {e}", _ser(c))
            continue
        try:
            st, tt = T.real_grid(c, cfg)
        except Exception as e:
            rep.fail(f"_get_target_times raised {type(e).__name__}: {e}", _ser(c))
            continue
        if st == "ok":
            msg = oracle(c, tt)
            if msg:
                _fail(rep, msg, c)
        lines.append(T.grid_line(c))
        expect.append("ok " + lst(f2b(x) for x in tt) if st == "ok" else "err " + tt)
        meta.append((c, st, tt))
        rep.hist("duration_bucket", "1-30" if c["D"] <= 30 else "31-2000" if c["D"] <= 2000 else "2001-10000")
        rep.hist("dt_vs_duration", "dt>=D" if c["dtq"] >= c["D"] else ("divides" if (Fr(c["D"]) / c["dtq"]).denominator == 1 else "non-dividing"))
        rep.hist("grid_status", st if st == "ok" else tt)
        if st == "ok" and len(tt) <= 4000:
            qlines.append(T.grid_line(c, q=True))
            qmeta.append((c, tt))
    # malformed stream: dt = 0, duration = 0, Full with a time-less observable
    bad = []
    for D, dtq, dflt, obs in [(10, Fr(0), [(Fr(1), 1.0)], [None]), (0, Fr(1), [(Fr(1), 1.0)], [None]),
                              (10, Fr(1), "Full", [None]), (10, Fr(0), "Full", [None]),
                              (10, Fr(3), "Full", [[(Fr(1, 2), 0.5)], None])]:
        bad.append(dict(D=D, dtq=dtq, dt=float(dtq), dflt=dflt, obs=obs))
    for c in bad:
        obs = T.make_observables(c)
        cfg = T.make_config(c, "sv", obs)
        st, tt = T.real_grid(c, cfg)
        lines.append(T.grid_line(c))
        expect.append("ok " + lst(f2b(x) for x in tt) if st == "ok" else "err " + tt)
        meta.append((c, st, tt))
        rep.hist("grid_status", st if st == "ok" else tt)
    return lines + qlines, lambda out: _grid_finish(rep, out, lines, expect, meta, qmeta)


def _grid_finish(rep, out, lines, expect, meta, qmeta):
    dis = 0
    for l, m, e, (c, st, tt) in zip(lines, out, expect, meta):
        rep.case(key=(c["D"], str(c["dtq"]), json.dumps(_ser(c)["obs"])), nontrivial=(st == "ok" and len(tt) > 2),
                 sample=dict(_ser(c), n_points=(len(tt) if st == "ok" else tt)))
        if m != e:
            dis += 1
            if dis <= 3:
                rep.broke("correspondence Model.TimeGrid.targetTimes (binary64) vs _get_target_times: "
                          + json.dumps(_ser(c))[:500] + f" model={m[:160]} impl={e[:160]}")
    rep.extra["float_grid_disagreements"] = dis
    rep.extra["float_grid_cases"] = len(lines)
    # ℚ model: number of grid points
    qdis, near, judged = 0, 0, 0
    for m, (c, tt) in zip(out[len(lines):], qmeta):
        st, g = T.parse_grid(m, q=True)
        # the merge decision is a float comparison at 2e-12: judge only when the margin is clear
        if T.threshold_tie(c):
            near += 1
            continue
        judged += 1
        if st != "ok" or len(g) != len(tt):
            qdis += 1
            if qdis <= 3:
                rep.broke(f"Q-model vs code: number of grid points {len(g) if st == 'ok' else g} (exact arithmetic) vs "
                          f"{len(tt)} (binary64) for {json.dumps(_ser(c))[:400]}")
                rep.fail(f"rounding changes the number of target times: exact {len(g) if st == 'ok' else g}, code {len(tt)}",
                         _ser(c), klass=None)
    rep.extra["q_grid_cases_judged"] = judged
    rep.extra["q_grid_near_ties_not_judged"] = near
    rep.extra["q_grid_count_disagreements"] = qdis


def merge_level(rep, rng, n):
    """The merge loop under stress: dt > duration (the dt grid is just {0}), and clusters of requested
    times 1e-16..1e-9 (relative) apart spread over up to three observables, so that runs of several
    points fall inside / outside the merge threshold, next to 0 and next to the duration."""
    lines, expect = [], []
    for _ in range(n):
        D = rng.choice([1, 10, 1000, 63])
        obs = [[], [], []]
        for _ in range(rng.randint(1, 5)):
            x = rng.choice([0.0, 1.0, rng.random(), rng.randint(0, 10) / 10])
            for j in range(3):
                if rng.random() < 0.7:
                    y = x + rng.choice([1, -1]) * rng.choice([0.0, 1e-16, 3e-13, 5e-13, 1e-12, 2e-12, 4e-12, 1e-9])
                    obs[j].append(min(max(y, 0.0), 1.0))
        ob = []
        for o in obs:
            o = sorted(set(o))
            keep = []
            for x in o:
                if not keep or x - keep[-1] >= 2e-12:
                    keep.append(x)
            if keep:
                ob.append([(Fr(x), x) for x in keep])
        if not ob:
            continue
        c = dict(D=D, dtq=Fr(2 * D), dt=float(2 * D), dflt=[(Fr(1), 1.0)], obs=ob)
        cfg = T.make_config(c, "sv", T.make_observables(c))
        st, tt = T.real_grid(c, cfg)
        if st == "ok":
            msg = oracle(c, tt)
            if msg:
                _fail(rep, msg, c)
        lines.append(T.grid_line(c))
        expect.append("ok " + lst(f2b(x) for x in tt) if st == "ok" else "err " + tt)
        rep.hist("cluster_grid_points", len(tt) if st == "ok" else tt)
    return lines, expect


def sweep_oracle(rep, rng, count):
    """The sweep that found D7 and D7f: the oracle alone on a window of consecutive durations × the dt table."""
    from emu_base.pulser_adapter import _get_target_times
    c0 = dict(D=1, dtq=Fr(1), dt=1.0, dflt=[(Fr(1), 1.0)], obs=[None])
    cfg = T.make_config(c0, "sv", T.make_observables(c0))
    start = rng.randint(1, 10001 - count)
    n = 0
    for D in range(start, start + count):
        for dts in T.DT_TABLE:
            c = dict(D=D, dtq=Fr(dts), dt=float(Fr(dts)), dflt=[(Fr(1), 1.0)], obs=[None])
            if D / c["dt"] > 12000:
                continue
            try:
                tt = _get_target_times(T.Seq(D), cfg, c["dt"])
            except Exception as e:
                rep.fail(f"_get_target_times raised {type(e).__name__}: {e}", _ser(c))
                continue
            n += 1
            msg = oracle(c, tt)
            if msg:
                _fail(rep, msg, c)
    rep.extra["sweep_window"] = [start, start + count - 1]
    rep.extra["sweep_cases"] = n
    rep.evaluations += n


def rows_and_reps(rep, rng, n):
    """rows of Ω from the real `_extract_omega_delta_phi` and the `reps` loop of the real
    `get_sequences` (mock samples), against `midpoints` / `expandReps`."""
    import torch
    from types import SimpleNamespace
    import emu_base.pulser_adapter as pa
    lines, expect, what = [], [], []
    for _ in range(n):
        c = T.gen_case(rng, max_points=200, small=True)
        if c["dflt"] == "Full" or c["D"] < 2:   # PCHIP1D needs two samples: a 1 ns sequence is C20/C22 territory
            continue
        cfg = T.make_config(c, "sv", T.make_observables(c))
        st, tt = T.real_grid(c, cfg)
        if st != "ok":
            continue
        D = c["D"]
        sig = torch.linspace(0.0, 1.0, D, dtype=torch.float64)
        smp = SimpleNamespace(max_duration=D, to_nested_dict=lambda **kw: {"Local": {"ground-rydberg": {
            "q0": {"amp": sig, "det": sig, "phase": sig}, "q1": {"amp": sig, "det": sig, "phase": sig}}}})
        try:
            om, de, ph = pa._extract_omega_delta_phi(smp, ("q0", "q1"), tt)
        except Exception as e:
            rep.fail(f"_extract_omega_delta_phi raised {type(e).__name__}: {e}", dict(D=D, dt=c["dt"], n=len(tt)))
            continue
        if om.shape[0] != len(tt) - 1:
            rep.fail(f"rows of Omega {om.shape[0]} != len(target_times)-1 = {len(tt) - 1}", dict(D=D, dt=c["dt"]))
        t_mid = (0.5 * (torch.as_tensor(tt, dtype=torch.float64)[:-1] + torch.as_tensor(tt, dtype=torch.float64)[1:])).tolist()
        lines.append(f"tg.mid {f2b(0.5)} {lst(f2b(x) for x in tt)}")
        expect.append(lst(f2b(x) for x in t_mid))
        what.append("mid")
    for it in range(n):
        k = rng.randint(0, 5)
        reps = [rng.choice([0, 1, 1, 2, 3, 7, rng.randint(1, 50)]) for _ in range(k)]
        nq = rng.choice([1, 2, 3])
        # badly prepared atoms per trajectory: all False / all True / mixed — every trajectory counts
        bad = [rng.choice([[False] * nq, [True] * nq, [rng.random() < 0.5 for _ in range(nq)]]) for _ in reps]
        if it == 0:
            reps, nq, bad = [3, 50, 1, 2], 2, [[False, False], [True, True], [True, False], [True, True]]
        mats = [torch.zeros(nq, nq, dtype=torch.float64) for _ in reps]
        data = dict(reps=reps, bad_atoms=bad)
        try:
            seqs = T.run_get_sequences(mats, reps, None, 0.0, [], 0.0, nq, bad=bad)
        except Exception as e:
            rep.fail(f"get_sequences raised {type(e).__name__}: {e}", data)
            continue
        got = [int(s.omega[0, 0].real.item()) for s in seqs]
        if len(seqs) != sum(reps):
            rep.fail(f"get_sequences yielded {len(seqs)} SequenceData for reps {reps} (sum {sum(reps)}), "
                     f"bad_atoms per trajectory {bad}", data, klass=None)
        want_bad = [tuple(b) for b, r in zip(bad, reps) for _ in range(r)]
        if len(seqs) == sum(reps) and [tuple(s.bad_atoms) for s in seqs] != want_bad:
            rep.fail("yielded SequenceData carry the wrong bad_atoms mask", data, klass=None)
        lines.append(f"tg.reps {lst(str(r) for r in reps)}")
        expect.append(lst(str(g) for g in got))
        what.append("reps")
        rep.hist("reps_total", min(sum(reps) // 10 * 10, 100))
        for b in bad:
            rep.hist("trajectory_bad_atoms", "all" if all(b) else ("none" if not any(b) else "mixed"))
    return lines, expect, what


TRAJ_STOCHASTIC = {"amp", "spam", "amp+spam"}


def run_traj_case(data):
    """One real `PulserData.__init__` + `get_sequences` on a real pulser Sequence (3 atoms, MockDevice with the
    given default noise model). Returns (failure message or None, seen n_trajectories, requested, yielded)."""
    import dataclasses
    import warnings
    import pulser
    from pulser.backend.config import EmulationConfig
    from pulser.noise_model import NoiseModel
    import emu_base.pulser_adapter as pa
    from unittest import mock
    noises = {
        "none": NoiseModel(),
        "amp": NoiseModel(amp_sigma=0.1),
        "spam": NoiseModel(state_prep_error=0.3),
        "amp+spam": NoiseModel(amp_sigma=0.05, state_prep_error=0.2),
        "relax": NoiseModel(relaxation_rate=0.1),
    }
    dn, cn, pf, ntraj = data["device_noise"], data["config_noise"], data["prefer_device_noise_model"], data["n_trajectories"]
    device = dataclasses.replace(pulser.MockDevice, default_noise_model=noises[dn])
    reg = pulser.Register({"q0": [-4.0, 0.0], "q1": [4.0, 0.0], "q2": [12.0, 0.0]})
    seq = pulser.Sequence(reg, device)
    seq.declare_channel("ch0", "rydberg_global")
    seq.add(pulser.Pulse.ConstantPulse(52, 2.0, 0.5, 0.0), "ch0")
    kw = dict(observables=[], interaction_cutoff=0.0, n_trajectories=ntraj, prefer_device_noise_model=pf)
    if not pf:
        kw["noise_model"] = noises[cn]
    seen = {}
    real = pa.HamiltonianData.from_sequence

    def spy(*a, **k):
        seen.update(k)
        return real(*a, **k)
    with warnings.catch_warnings():
        warnings.simplefilter("ignore")
        config = EmulationConfig(**kw)
        with mock.patch.object(pa.HamiltonianData, "from_sequence", spy):
            pd = pa.PulserData(sequence=seq, config=config, dt=10)
        requested = sum(r for _, r in pd.hamiltonian.noise_trajectories)
        yielded = sum(1 for _ in pd.get_sequences())
    resolved = dn if pf else cn
    src = "device" if pf else "config"
    msg = None
    if seen.get("n_trajectories") != ntraj and resolved != "none":
        msg = (f"HamiltonianData.from_sequence was asked for {seen.get('n_trajectories')} trajectories, config.n_trajectories "
               f"= {ntraj}, resolved noise model '{resolved}' (from the {src})")
    elif resolved in TRAJ_STOCHASTIC and requested != ntraj:
        msg = f"pulser returned {requested} trajectory repetitions for n_trajectories = {ntraj} with stochastic noise '{resolved}'"
    elif yielded != requested:
        msg = f"get_sequences yielded {yielded} SequenceData for {requested} requested repetitions"
    elif seen.get("noise_model") is not None and seen["noise_model"] != noises[resolved]:
        msg = f"noise model handed to pulser is not the resolved one ('{resolved}')"
    return msg, seen.get("n_trajectories"), requested, yielded


def trajectory_requests(rep, rng, n):
    """Noise model from the config or from the device (`prefer_device_noise_model` on/off), stochastic /
    Lindblad-only / no noise, n_trajectories 1..12: the number of trajectories requested from pulser and of
    SequenceData yielded must be config.n_trajectories whenever the RESOLVED noise model is stochastic."""
    lines, expect = [], []
    names = ["none", "amp", "spam", "amp+spam", "relax"]
    combos = [(dn, cn, pf) for dn in names for cn in names for pf in (False, True)]
    rng.shuffle(combos)
    combos = [("amp+spam", "none", True)] + combos[:n]
    for dn, cn, pf in combos:
        data = dict(device_noise=dn, config_noise=cn, prefer_device_noise_model=pf, n_trajectories=rng.choice([2, 3, 7, 12]))
        try:
            msg, seen_n, requested, yielded = run_traj_case(data)
        except Exception as e:
            rep.notes.append(f"trajectory_requests: {data} could not run in this environment: {type(e).__name__}: {str(e)[:120]}")
            rep.hist("trajectory_request", "not runnable")
            continue
        resolved = dn if pf else cn
        rep.hist("trajectory_request", f"{'device' if pf else 'config'}:{resolved}")
        rep.case(key=json.dumps(data), nontrivial=True, sample=dict(data, requested=requested, yielded=yielded))
        if msg:
            rep.fail(msg, data, klass=None)
        if resolved != "none":
            lines.append(f"tg.traj {int(pf)} {data['n_trajectories']}")
            expect.append(f"{'dev' if pf else 'cfg'} {seen_n}")
    return lines, expect


def check(rep: Report, tier: str, seed: int) -> None:
    rep.rule = ("cases = (duration, dt, default times, per-observable times) from one PRNG: durations 1..10000, dt from a "
                "22-value table (0.1..1000) plus duration-relative and random rational dts (dividing, non-dividing, = and > "
                "duration), times = rational fractions, irrational floats, 0/1, exact dt multiples, half-ns lattice, "
                "near-duplicates at 1e-16..1e-6 of a dt multiple or of another observable's time, 'Full'; plus the eleven D7 "
                "pairs and boundary pairs on every run. non-trivial = accepted with more than 2 grid points; distinct = "
                "distinct (duration, dt, times)")
    rep.assumptions = [
        "binary64 rounding is outside the theorems; probed by comparing the number of grid points of the Q model on the "
        "exact rational inputs with the code's (cases with two neighbouring candidates between 1e-14 and 3e-10 relative "
        "of each other sit near the merge threshold 2e-12 and are counted, not judged)",
        "pulser validates evaluation times (in [0,1], ascending, >= 1e-12 apart) before they reach the adapter",
        "the number of noise trajectories / reps is whatever HamiltonianData.noisy_samples yields (mocked here)",
    ]
    T.compat.install()
    lean_stage(rep, PROP_MODULE, AUDIT, thorough=(tier == "thorough"))
    rng = seeded(seed * 7919 + 21)
    l0, finish0 = grid_correspondence(rep, rng, 260 if tier == "quick" else 2500, tier)
    l1, e1 = merge_level(rep, rng, 400 if tier == "quick" else 8000)
    l2, e2, what = rows_and_reps(rep, rng, 60 if tier == "quick" else 800)
    sweep_oracle(rep, rng, 120 if tier == "quick" else 2500)
    l3, e3 = trajectory_requests(rep, rng, 24 if tier == "quick" else 50)
    l2, e2 = l2 + l3, e2 + e3
    try:
        out = Driver().batch(l0 + l1 + l2)
    except LeanError as e:
        rep.broke("driver: " + str(e)[-800:])
        out = None
    if out is not None:
        finish0(out[:len(l0)])
        out = out[len(l0):]
    else:
        out = []
    bad = 0
    for l, m, e in zip(l1 + l2, out, e1 + e2):
        rep.case(key=l[:200], nontrivial=True)
        if m != e:
            bad += 1
            if bad <= 3:
                rep.broke(f"correspondence ({l.split()[0]}): line={l[:300]} model={m[:160]} impl={e[:160]}")
    rep.extra["merge_mid_reps_disagreements"] = bad
    rep.extra["merge_mid_reps_cases"] = len(l1) + len(l2)
    if rep.broken and not rep.unknown_failing():
        search(rep, seed, 3000 if tier == "quick" else 60000)


def search(rep: Report, seed: int, n: int) -> None:
    """Failing-input search on the real code: the oracle over the dt table × all durations (the sweep that found D7),
    then random cases."""
    import itertools
    for D, dts in itertools.product(range(1, 2001), T.DT_TABLE):
        c = dict(D=D, dtq=Fr(dts), dt=float(Fr(dts)), dflt=[(Fr(1), 1.0)], obs=[None])
        if D / c["dt"] > 20000:
            continue
        cfg = T.make_config(c, "sv", T.make_observables(c))
        st, tt = T.real_grid(c, cfg)
        msg = oracle(c, tt) if st == "ok" else f"_get_target_times raised {tt}"
        if msg and not isinstance(msg, tuple):
            rep.fail(msg, _ser(c))
            return
    rng = seeded(seed * 104729 + 2)
    for _ in range(n):
        c = T.gen_case(rng, max_points=3000)
        cfg = T.make_config(c, "sv", T.make_observables(c))
        st, tt = T.real_grid(c, cfg)
        if st == "ok":
            msg = oracle(c, tt)
            if msg and not isinstance(msg, tuple):
                rep.fail(msg, _ser(c))
                return
    rep.extra["search_cases"] = n


def replay(rep: Report, path: str) -> int:
    T.compat.install()
    data = json.load(open(path))
    bad = 0
    for f in data.get("failing_inputs", []):
        d = f["data"]
        if "device_noise" in d:
            msg = run_traj_case(d)[0]
            print("replay:", msg or "property holds on this input now")
            bad += bool(msg)
            continue
        if "reps" in d and "D" not in d:
            import torch
            nq = len(d["bad_atoms"][0]) if d.get("bad_atoms") else 2
            mats = [torch.zeros(nq, nq, dtype=torch.float64) for _ in d["reps"]]
            seqs = T.run_get_sequences(mats, d["reps"], None, 0.0, [], 0.0, nq, bad=d.get("bad_atoms"))
            msg = None if len(seqs) == sum(d["reps"]) else f"yielded {len(seqs)} SequenceData for reps {d['reps']}"
            print("replay:", msg or "property holds on this input now")
            bad += bool(msg)
            continue
        if "D" not in d:
            print("replay: input not replayable by C21:", d)
            continue
        c = _deser(d)
        cfg = T.make_config(c, "sv", T.make_observables(c))
        st, tt = T.real_grid(c, cfg)
        msg = oracle(c, tt) if st == "ok" else f"_get_target_times raised {tt}"
        msg = msg[1] if isinstance(msg, tuple) else msg
        print("replay:", msg or "property holds on this input now")
        bad += bool(msg)
    return 1 if bad else 0
